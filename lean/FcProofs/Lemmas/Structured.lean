/-
  FcProofs.Lemmas.Structured — index arithmetic of the lattice meshes (helper lemmas for C07).
-/
import FcModel.Spec.C07
import Mathlib.Tactic.Ring
namespace Fc.C07

/-! ### blocks of equal length -/

theorem flatMap_uniform_length {α β : Type} (L : List α) (g : α → List β) (n : Nat)
    (hg : ∀ t ∈ L, (g t).length = n) : (L.flatMap g).length = n * L.length := by
  induction L with
  | nil => simp
  | cons t L ih =>
    have h1 : (g t).length = n := hg t (by simp)
    have h2 := ih (fun t ht => hg t (by simp [ht]))
    simp [List.flatMap_cons, h1, h2, Nat.mul_add, Nat.add_comm]

theorem flatMap_uniform_getElem? {α β : Type} (L : List α) (g : α → List β) (n : Nat)
    (hg : ∀ t ∈ L, (g t).length = n) (c : Nat) (hc : c < n * L.length) :
    (L.flatMap g)[c]? = (L[c / n]?).bind fun t => (g t)[c % n]? := by
  induction L generalizing c with
  | nil => simp at hc
  | cons t L ih =>
    have hn : 0 < n := by
      rcases Nat.eq_zero_or_pos n with h | h
      · subst h; simp at hc
      · exact h
    have h1 : (g t).length = n := hg t (by simp)
    rw [List.flatMap_cons]
    by_cases hlt : c < n
    · rw [List.getElem?_append_left (by omega)]
      simp [Nat.div_eq_of_lt hlt, Nat.mod_eq_of_lt hlt]
    · have hge : n ≤ c := by omega
      rw [List.getElem?_append_right (by omega), h1]
      have hc' : c - n < n * L.length := by
        simp [List.length_cons, Nat.mul_add] at hc; omega
      rw [ih (fun t ht => hg t (by simp [ht])) (c - n) hc']
      have hd : c / n = (c - n) / n + 1 := by
        have := Nat.sub_add_cancel hge
        conv_lhs => rw [← this]
        rw [Nat.add_div_right _ hn]
      have hm : (c - n) % n = c % n := by
        have := Nat.sub_add_cancel hge
        conv_rhs => rw [← this]
        rw [Nat.add_mod_right]
      rw [hd, hm]
      simp

/-! ### enumeration order of `prodX` -/

theorem prodX_length {α : Type} (ls : List (List α)) :
    (prodX ls).length = prodNat (ls.map List.length) := by
  induction ls with
  | nil => simp [prodX, prodNat]
  | cons l rest ih =>
    simp only [prodX, List.map_cons, prodNat]
    rw [flatMap_uniform_length _ _ l.length (by intro t _; simp), ih]

theorem prodX_getElem? {α : Type} (d : α) (ls : List (List α)) (c : Nat)
    (hc : c < prodNat (ls.map List.length)) :
    (prodX ls)[c]? = some (pick d ls (unflatten (ls.map List.length) c)) := by
  induction ls generalizing c with
  | nil => simp [prodNat] at hc; subst hc; simp [prodX, pick]
  | cons l rest ih =>
    simp only [List.map_cons, prodNat] at hc
    have hn : 0 < l.length := by
      rcases Nat.eq_zero_or_pos l.length with h | h
      · rw [h] at hc; simp at hc
      · exact h
    have hq : c / l.length < prodNat (rest.map List.length) :=
      Nat.div_lt_of_lt_mul hc
    have hr : c % l.length < l.length := Nat.mod_lt _ hn
    simp only [prodX, List.map_cons, unflatten, pick]
    rw [flatMap_uniform_getElem? _ _ l.length (by intro t _; simp) c (by rw [prodX_length]; exact hc)]
    rw [ih _ hq]
    simp [List.getD_eq_getElem?_getD, hr]

/-! ### `flatten` / `unflatten` -/

/-- `idx` is a position inside `shape` -/
def inShape : List Nat → List Nat → Prop
  | [], [] => True
  | i :: is, n :: ns => i < n ∧ inShape is ns
  | _, _ => False

theorem flatten_lt (shape idx : List Nat) (h : inShape idx shape) : flatten shape idx < prodNat shape := by
  induction shape generalizing idx with
  | nil => cases idx <;> simp [inShape, flatten, prodNat] at *
  | cons n ns ih =>
    cases idx with
    | nil => simp [inShape] at h
    | cons i is =>
      obtain ⟨h1, h2⟩ := h
      have := ih is h2
      simp only [flatten, prodNat]
      calc i + n * flatten ns is < n + n * flatten ns is := by omega
        _ = n * (flatten ns is + 1) := by ring
        _ ≤ n * prodNat ns := Nat.mul_le_mul_left _ this

theorem unflatten_flatten (shape idx : List Nat) (h : inShape idx shape) :
    unflatten shape (flatten shape idx) = idx := by
  induction shape generalizing idx with
  | nil => cases idx <;> simp [inShape, unflatten] at *
  | cons n ns ih =>
    cases idx with
    | nil => simp [inShape] at h
    | cons i is =>
      obtain ⟨h1, h2⟩ := h
      simp only [flatten, unflatten]
      have hn : 0 < n := by omega
      rw [Nat.add_mul_mod_self_left, Nat.mod_eq_of_lt h1, Nat.add_mul_div_left _ _ hn,
        Nat.div_eq_of_lt h1, Nat.zero_add, ih is h2]

theorem unflatten_inShape (shape : List Nat) (c : Nat) (h : c < prodNat shape) :
    inShape (unflatten shape c) shape := by
  induction shape generalizing c with
  | nil => simp [unflatten, inShape]
  | cons n ns ih =>
    simp only [prodNat] at h
    have hn : 0 < n := by
      rcases Nat.eq_zero_or_pos n with h0 | h0
      · rw [h0] at h; simp at h
      · exact h0
    exact ⟨Nat.mod_lt _ hn, ih _ (Nat.div_lt_of_lt_mul h)⟩

theorem flatten_unflatten (shape : List Nat) (c : Nat) (h : c < prodNat shape) :
    flatten shape (unflatten shape c) = c := by
  induction shape generalizing c with
  | nil => simp [prodNat] at h; simp [flatten, h]
  | cons n ns ih =>
    simp only [prodNat] at h
    simp only [flatten, unflatten]
    rw [ih _ (Nat.div_lt_of_lt_mul h)]
    exact Nat.mod_add_div c n

/-! ### `locationsIn` -/

theorem map_length_map_range (shape : List Nat) : (shape.map List.range).map List.length = shape := by
  induction shape with
  | nil => rfl
  | cons n ns ih => simp [ih]

theorem pick_range (shape idx : List Nat) (h : inShape idx shape) :
    pick 0 (shape.map List.range) idx = idx := by
  induction shape generalizing idx with
  | nil => cases idx <;> simp [inShape, pick] at *
  | cons n ns ih =>
    cases idx with
    | nil => simp [inShape] at h
    | cons i is =>
      obtain ⟨h1, h2⟩ := h
      simp [pick, ih is h2, List.getD_eq_getElem?_getD, h1]

theorem locationsIn_length (shape : List Nat) : (locationsIn shape).length = prodNat shape := by
  unfold locationsIn
  rw [prodX_length, map_length_map_range]

theorem locationsIn_getElem? (shape : List Nat) (c : Nat) (h : c < prodNat shape) :
    (locationsIn shape)[c]? = some (unflatten shape c) := by
  unfold locationsIn
  rw [prodX_getElem? 0 _ c (by rw [map_length_map_range]; exact h), map_length_map_range,
    pick_range _ _ (unflatten_inShape shape c h)]

/-! ### `_StructuredMeshBase.connectivity` -/

open Fc.C07.Spec

/-- cell type of the un-reordered rows: pixel / voxel order -/
def pixelType (d : Nat) : String := match d with | 1 => "LINE" | 2 => "PIXEL" | 3 => "VOXEL" | _ => ""

theorem baseConnectivity_getElem? (ext : List Nat) (c : Nat) (h : c < prodNat (nonzeroExtents ext)) :
    (baseConnectivity ext)[c]? = some (cornerRow (nonzeroExtents ext).length (accOffsets (nonzeroExtents ext))
      (getP0 (accOffsets (nonzeroExtents ext)) (unflatten (nonzeroExtents ext) c))) := by
  simp [baseConnectivity, List.getElem?_map, locationsIn_getElem? _ _ h]

theorem baseConnectivity_length (ext : List Nat) :
    (baseConnectivity ext).length = prodNat (nonzeroExtents ext) := by
  simp [baseConnectivity, locationsIn_length]

/-- the literal rows `[p0, p0+1, p2, p2+1, …]` built from the strides of the NON-ZERO extents are the numbers
    (in the numbering over all three directions) of the lattice corners, in pixel / voxel order -/
theorem baseConnectivity_lattice (ex ey ez c : Nat) (hpos : 0 < ex ∨ 0 < ey ∨ 0 < ez)
    (hc : c < prodNat (nonzeroExtents [ex, ey, ez])) :
    (baseConnectivity [ex, ey, ez])[c]? =
      some (latticeCell [ex, ey, ez] (pixelType (gridDim [ex, ey, ez])) c) := by
  rw [baseConnectivity_getElem? _ _ hc]
  congr 1
  rcases Nat.eq_zero_or_pos ex with hx | hx <;> rcases Nat.eq_zero_or_pos ey with hy | hy <;>
    rcases Nat.eq_zero_or_pos ez with hz | hz
  · omega
  all_goals
    simp [nonzeroExtents, gridDim, hx, hy, hz, latticeCell, pixelType, vtkCorners, cornerRow, accOffsets, accFrom,
      getP0, dot, unflatten, expand, addIdx, pointIdx, flatten, Nat.ne_of_gt]
  all_goals (repeat' constructor) <;> ring

theorem row_length (ext : List Nat) (r : List Nat) (hr : r ∈ baseConnectivity ext) :
    r.length = 2 ^ (nonzeroExtents ext).length := by
  simp only [baseConnectivity, List.mem_map] at hr
  obtain ⟨it, _, rfl⟩ := hr
  unfold cornerRow
  split
  · next h => simp [h]
  · split
    · next h => simp [h]
    · split
      · next h => simp [h]
      · simp

theorem mapM_option_of_forall {α β : Type} (f : α → Option β) (g : α → β) (l : List α)
    (h : ∀ a ∈ l, f a = some (g a)) : l.mapM f = some (l.map g) := by
  induction l with
  | nil => simp
  | cons a l ih =>
    have h1 := h a (by simp)
    have h2 := ih (fun b hb => h b (by simp [hb]))
    simp [List.mapM_cons, h1, h2]

def perm4 (r : List Nat) : List Nat := [r.getD 0 0, r.getD 1 0, r.getD 3 0, r.getD 2 0]
def perm8 (r : List Nat) : List Nat :=
  [r.getD 0 0, r.getD 1 0, r.getD 3 0, r.getD 2 0, r.getD 4 0, r.getD 5 0, r.getD 7 0, r.getD 6 0]

/-- over the index map currently written in `_cell_type._reorder_quad_pixel` -/
theorem reorder4 (r : List Nat) (h : r.length = 4) : reorderRow Gen.c07ReorderQuadPixel r = some (perm4 r) := by
  match r, h with
  | [a, b, c, d], _ => simp [reorderRow, Gen.c07ReorderQuadPixel, perm4]

/-- over the index map currently written in `_cell_type._reorder_hex_voxel` -/
theorem reorder8 (r : List Nat) (h : r.length = 8) : reorderRow Gen.c07ReorderHexVoxel r = some (perm8 r) := by
  match r, h with
  | [a, b, c, d, e, f, g, i], _ => simp [reorderRow, Gen.c07ReorderHexVoxel, perm8]

theorem mod_lt_succ (n m : Nat) (h : ¬ m = 0) : n % m < m + 1 :=
  Nat.lt_succ_of_lt (Nat.mod_lt _ (Nat.pos_of_ne_zero h))

/-- every corner `loc + δ` of every lattice cell is a lattice point -/
theorem corner_inShape (k : GridKind) (ex ey ez c : Nat) (hpos : 0 < ex ∨ 0 < ey ∨ 0 < ez) :
    ∀ δ ∈ vtkCorners (gridCellType k [ex, ey, ez]),
      inShape (expand [ex, ey, ez] (addIdx (unflatten (nonzeroExtents [ex, ey, ez]) c) δ))
        ([ex, ey, ez].map (· + 1)) := by
  by_cases hx : ex = 0 <;> by_cases hy : ey = 0 <;> by_cases hz : ez = 0
  · omega
  all_goals
    cases k
  all_goals
    simp [gridCellType, pyIndexPred, Gen.c07ImageTypes, Gen.c07RectilinearTypes, Gen.c07StructuredTypes,
      gridDim, nonzeroExtents, hx, hy, hz, vtkCorners, unflatten, expand, addIdx, inShape, Nat.mod_lt,
      Nat.pos_iff_ne_zero, mod_lt_succ]

/-! ### points, connectivity, readers: the statements used by Props/C07 -/

theorem imagePoints_spec (U : Nat) (ext pos : List Nat) (o : List Int) (b : List (List Int)) (s : List Int)
    (h : inShape pos (ext.map (· + 1))) :
    (imagePoints U ext o b s).length = prodNat (ext.map (· + 1)) ∧
    (imagePoints U ext o b s)[pointIdx ext pos]? = some (imagePoint U o b s pos) := by
  constructor
  · simp [imagePoints, locationsIn_length]
  · unfold imagePoints pointIdx
    rw [List.getElem?_map, locationsIn_getElem? _ _ (flatten_lt _ _ h), unflatten_flatten _ _ h]
    rfl

theorem rectPoints_spec (ords : List (List Int)) (pos : List Nat)
    (h : inShape pos ((ords.map fixOrdinates).map List.length)) :
    (rectPoints ords).length = prodNat ((ords.map fixOrdinates).map List.length) ∧
    (rectPoints ords)[flatten ((ords.map fixOrdinates).map List.length) pos]? =
      some (pick 0 (ords.map fixOrdinates) pos) := by
  constructor
  · simp [rectPoints, prodX_length]
  · unfold rectPoints
    rw [prodX_getElem? 0 _ _ (flatten_lt _ _ h), unflatten_flatten _ _ h]

theorem connectivity_spec (k : GridKind) (ex ey ez : Nat) (hpos : 0 < ex ∨ 0 < ey ∨ 0 < ez) :
    normType (gridCellType k [ex, ey, ez]) = normType (latticeType k (gridDim [ex, ey, ez])) ∧
    ∃ rows, gridConnectivity k [ex, ey, ez] (gridCellType k [ex, ey, ez]) = some rows ∧
      rows.length = prodNat (nonzeroExtents [ex, ey, ez]) ∧
      ∀ c, c < prodNat (nonzeroExtents [ex, ey, ez]) →
        rows[c]? = some (latticeCell [ex, ey, ez] (gridCellType k [ex, ey, ez]) c) := by
  have hbase := baseConnectivity_lattice ex ey ez
  have hlen := baseConnectivity_length [ex, ey, ez]
  have hrow := row_length [ex, ey, ez]
  rcases Nat.eq_zero_or_pos ex with hx | hx <;> rcases Nat.eq_zero_or_pos ey with hy | hy <;>
    rcases Nat.eq_zero_or_pos ez with hz | hz
  · omega
  all_goals
    cases k
  all_goals
    simp [gridCellType, pyIndexPred, Gen.c07ImageTypes, Gen.c07RectilinearTypes, Gen.c07StructuredTypes,
      gridDim, nonzeroExtents, hx, hy, hz, latticeType, normType, gridConnectivity, pixelType] at hbase hlen hrow ⊢
  all_goals first
    | exact ⟨hlen, hbase⟩
    | (refine ⟨(baseConnectivity _).map perm4,
        mapM_option_of_forall _ _ _ (fun r hr => reorder4 r (hrow r hr)), by simpa using hlen, ?_⟩
       intro c hc
       rw [List.getElem?_map, hbase c hc]
       simp [latticeCell, vtkCorners, perm4])
    | (refine ⟨(baseConnectivity _).map perm8,
        mapM_option_of_forall _ _ _ (fun r hr => reorder8 r (hrow r hr)), by simpa using hlen, ?_⟩
       intro c hc
       rw [List.getElem?_map, hbase c hc]
       simp [latticeCell, vtkCorners, perm8])

theorem prodNat_max_one (cells : List Nat) :
    prodNat (cells.map (max · 1)) = prodNat (nonzeroExtents cells) := by
  induction cells with
  | nil => rfl
  | cons c cs ih =>
    by_cases h : c = 0
    · subst h; simp [prodNat, nonzeroExtents] at ih ⊢; exact ih
    · have hp : 0 < c := Nat.pos_of_ne_zero h
      have hm : max c 1 = c := by omega
      simp only [nonzeroExtents] at ih
      simp [prodNat, nonzeroExtents, hp, hm, ih]

theorem extent_cells (a0 b0 c0 : Int) (ex ey ez : Nat) :
    cellsPerDirection [a0, a0 + ex, b0, b0 + ey, c0, c0 + ez] = some [ex, ey, ez] ∧
    readerNumCells [ex, ey, ez] = prodNat (nonzeroExtents [ex, ey, ez]) ∧
    readerNumPoints [ex, ey, ez] = prodNat ([ex, ey, ez].map (· + 1)) := by
  refine ⟨?_, prodNat_max_one _, rfl⟩
  simp [cellsPerDirection]

theorem rect_lengths (ext : List Nat) (ords : List (List Int)) (h3 : ext.length = 3) (ho : ords.length = 3)
    (hz : ((ords.zip ext).all fun oe => (fixOrdinates oe.1).length == oe.2 + 1) = true) :
    (ords.map fixOrdinates).map List.length = ext.map (· + 1) := by
  match ext, ords, h3, ho with
  | [a, b, c], [X, Y, Z], _, _ => simpa using hz

/-- the point list of a well-formed grid holds the geometry of lattice position `pos` at `pointIdx ext pos` -/
theorem gridPoints_getD (ext : List Nat) (g : GridGeom) (hg : gridHyp ext g [] [] = true) (pos : List Nat)
    (h : inShape pos (ext.map (· + 1))) :
    (gridPoints ext g).getD (pointIdx ext pos) [] = geomAt ext g pos := by
  cases g with
  | image U o b s =>
    simp [gridPoints, geomAt, List.getD_eq_getElem?_getD, (imagePoints_spec U ext pos o b s h).2]
  | rect ords =>
    simp only [gridHyp, gridCtorOk, rectCtorOk, Bool.and_eq_true, beq_iff_eq] at hg
    have hl := rect_lengths ext ords hg.1.1.1.1.1 hg.1.1.1.2.1.2 (by simpa using hg.1.1.2)
    have := (rectPoints_spec ords pos (by rw [hl]; exact h)).2
    rw [hl] at this
    simp [gridPoints, geomAt, pointIdx, List.getD_eq_getElem?_getD, this]
  | struct pts => rfl

theorem pos_of_gridDim (ex ey ez : Nat) (h : 1 ≤ gridDim [ex, ey, ez]) : 0 < ex ∨ 0 < ey ∨ 0 < ez := by
  by_contra hc
  have : ex = 0 ∧ ey = 0 ∧ ez = 0 := by omega
  obtain ⟨rfl, rfl, rfl⟩ := this
  simp [gridDim, nonzeroExtents] at h

theorem gridHyp_pos (ex ey ez : Nat) (g : GridGeom) (pfs : List PointField) (cfs : List (String × NdArr))
    (hg : gridHyp [ex, ey, ez] g pfs cfs = true) : 0 < ex ∨ 0 < ey ∨ 0 < ez := by
  simp only [gridHyp, Bool.and_eq_true, decide_eq_true_eq] at hg
  exact pos_of_gridDim ex ey ez hg.1.1.1.1.2

theorem gridHyp_nofields (ext : List Nat) (g : GridGeom) (pfs : List PointField) (cfs : List (String × NdArr))
    (hg : gridHyp ext g pfs cfs = true) : gridHyp ext g [] [] = true := by
  simp only [gridHyp, Bool.and_eq_true] at hg ⊢
  exact ⟨⟨hg.1.1, by simp⟩, by simp⟩

theorem cell_corners (ex ey ez : Nat) (g : GridGeom) (hg : gridHyp [ex, ey, ez] g [] [] = true) (c : Nat)
    (hc : c < prodNat (nonzeroExtents [ex, ey, ez])) :
    ∃ rows, gridConnectivity g.kind [ex, ey, ez] (gridCellType g.kind [ex, ey, ez]) = some rows ∧
      (rows.getD c []).map (fun p => (gridPoints [ex, ey, ez] g).getD p []) =
        (vtkCorners (gridCellType g.kind [ex, ey, ez])).map fun δ =>
          geomAt [ex, ey, ez] g (expand [ex, ey, ez] (addIdx (unflatten (nonzeroExtents [ex, ey, ez]) c) δ)) := by
  have hpos := gridHyp_pos ex ey ez g [] [] hg
  obtain ⟨_, rows, hrows, _, hget⟩ := connectivity_spec g.kind ex ey ez hpos
  refine ⟨rows, hrows, ?_⟩
  rw [List.getD_eq_getElem?_getD, hget c hc]
  simp only [Option.getD_some, latticeCell, List.map_map]
  apply List.map_congr_left
  intro δ hδ
  exact gridPoints_getD _ g hg _ (corner_inShape g.kind ex ey ez c hpos δ hδ)

theorem gridPoints_length (ext : List Nat) (g : GridGeom) (hg : gridHyp ext g [] [] = true) :
    (gridPoints ext g).length = prodNat (ext.map (· + 1)) := by
  cases g with
  | image U o b s => simp [gridPoints, imagePoints, locationsIn_length]
  | rect ords =>
    simp only [gridHyp, gridCtorOk, rectCtorOk, Bool.and_eq_true, beq_iff_eq] at hg
    have hl := rect_lengths ext ords hg.1.1.1.1.1 hg.1.1.1.2.1.2 (by simpa using hg.1.1.2)
    simp [gridPoints, rectPoints, prodX_length, hl]
  | struct pts =>
    simp only [gridHyp, gridCtorOk, structCtorOk, Bool.and_eq_true, beq_iff_eq] at hg
    simpa [gridPoints] using hg.1.1.1.2.1.2

theorem gridHyp_ctor (ext : List Nat) (g : GridGeom) (pfs : List PointField) (cfs : List (String × NdArr))
    (hg : gridHyp ext g pfs cfs = true) : gridCtorOk ext g = true := by
  simp only [gridHyp, Bool.and_eq_true] at hg
  exact hg.1.1.1.2

theorem normCell_lattice (k : GridKind) (ex ey ez : Nat) (hpos : 0 < ex ∨ 0 < ey ∨ 0 < ez)
    (G : List Nat → List Int) (vals : List (String × List Int)) :
    normCell ⟨gridCellType k [ex, ey, ez], (vtkCorners (gridCellType k [ex, ey, ez])).map G, vals⟩ =
      ⟨normType (latticeType k (gridDim [ex, ey, ez])),
       (vtkCorners (normType (latticeType k (gridDim [ex, ey, ez])))).map G, vals⟩ := by
  by_cases hx : ex = 0 <;> by_cases hy : ey = 0 <;> by_cases hz : ez = 0
  · omega
  all_goals
    cases k
  all_goals
    simp [gridCellType, pyIndexPred, Gen.c07ImageTypes, Gen.c07RectilinearTypes, Gen.c07StructuredTypes,
      gridDim, nonzeroExtents, hx, hy, hz, vtkCorners, Nat.pos_iff_ne_zero, normCell, normType, latticeType]

theorem filter_own_type (ct : String) (cfs : List (String × NdArr)) (c : Nat) :
    ((cfs.map fun cf => CellField.mk cf.1 ct cf.2).filter (·.ctype == ct)).map
      (fun cf => (cf.name, cf.values.row c)) = cfs.map fun cf => (cf.1, cf.2.row c) := by
  induction cfs with
  | nil => rfl
  | cons a l ih => simpa [List.filter_cons] using ih

theorem read_cells (a0 b0 c0 : Int) (ex ey ez : Nat) (g : GridGeom) (pfs : List PointField)
    (cfs : List (String × NdArr)) (hg : gridHyp [ex, ey, ez] g pfs cfs = true) :
    ∃ F rows, readGridCore [a0, a0 + ex, b0, b0 + ey, c0, c0 + ez] g pfs cfs = some F ∧
      gridConnectivity g.kind [ex, ey, ez] (gridCellType g.kind [ex, ey, ez]) = some rows ∧
      F.mesh = ⟨3, gridPoints [ex, ey, ez] g, [(gridCellType g.kind [ex, ey, ez], rows)]⟩ ∧ F.pointFields = pfs ∧
      F.cellContent.map normCell = gridCellContent [ex, ey, ez] g cfs := by
  have hg0 := gridHyp_nofields _ g pfs cfs hg
  have hpos := gridHyp_pos ex ey ez g pfs cfs hg
  obtain ⟨hct, rows, hrows, hlen, hget⟩ := connectivity_spec g.kind ex ey ez hpos
  have hctor := gridHyp_ctor _ g pfs cfs hg
  have hnp := gridPoints_length _ g hg0
  have hcells := (extent_cells a0 b0 c0 ex ey ez)
  simp only [gridHyp, Bool.and_eq_true] at hg
  have hpf := hg.1.2
  have hcf := hg.2
  have hm : gridMesh [ex, ey, ez] g =
      some ⟨3, gridPoints [ex, ey, ez] g, [(gridCellType g.kind [ex, ey, ez], rows)]⟩ := by
    simp [gridMesh, hctor, hrows]
  refine ⟨⟨⟨3, gridPoints [ex, ey, ez] g, [(gridCellType g.kind [ex, ey, ez], rows)]⟩, pfs,
    cfs.map fun cf => ⟨cf.1, gridCellType g.kind [ex, ey, ez], cf.2⟩⟩, rows, ?_, hrows, rfl, rfl, ?_⟩
  · simp only [readGridCore, hcells.1, hm]
    have e1 : (cfs.any fun cf => cf.2.shape.head? != some (readerNumCells [ex, ey, ez])) = false := by
      rw [hcells.2.1, List.any_eq_false]
      intro cf hcfm
      have := List.all_eq_true.mp hcf cf hcfm
      simpa using this
    have e2 : (readerNumCells [ex, ey, ez] !=
        (Mesh.cellsOf ⟨3, gridPoints [ex, ey, ez] g, [(gridCellType g.kind [ex, ey, ez], rows)]⟩
          (gridCellType g.kind [ex, ey, ez])).length) = false := by
      simp [Mesh.cellsOf, hcells.2.1, hlen]
    have e3 : (pfs.any fun pf => pf.values.shape.head? !=
        some (Mesh.numPoints ⟨3, gridPoints [ex, ey, ez] g, [(gridCellType g.kind [ex, ey, ez], rows)]⟩)) = false := by
      rw [List.any_eq_false]
      intro pf hpfm
      have := List.all_eq_true.mp hpf pf hpfm
      simpa [Mesh.numPoints, hnp] using this
    simp [e1, e2, e3]
  · simp only [MeshFields.cellContent, List.flatMap_cons, List.flatMap_nil, List.append_nil, List.map_map,
      gridCellContent]
    rw [hlen]
    apply List.map_congr_left
    intro c hc
    have hc' : c < prodNat (nonzeroExtents [ex, ey, ez]) := by simpa using hc
    obtain ⟨rows', hrows', hcor⟩ := cell_corners ex ey ez g hg0 c hc'
    have : rows' = rows := by rw [hrows] at hrows'; exact (Option.some.inj hrows').symm
    subst this
    have hv := filter_own_type (gridCellType g.kind [ex, ey, ez]) cfs c
    simp only [Function.comp, MeshFields.cellItem, hv, hcor]
    exact normCell_lattice g.kind ex ey ez hpos _ _

theorem split1 (i e : Nat) (hi : i < e + 1) :
    ∃ l δ, (e = 0 → l = 0 ∧ δ = 0) ∧ (¬ e = 0 → l < e) ∧ (δ = 0 ∨ δ = 1) ∧ l + δ = i := by
  by_cases h : i < e
  · exact ⟨i, 0, by omega, by omega, Or.inl rfl, rfl⟩
  · by_cases he : e = 0
    · exact ⟨0, 0, by omega, by omega, Or.inl rfl, by omega⟩
    · exact ⟨e - 1, 1, by omega, by omega, Or.inr rfl, by omega⟩

theorem lattice_connected (k : GridKind) (ex ey ez : Nat) (hpos : 0 < ex ∨ 0 < ey ∨ 0 < ez) (pos : List Nat)
    (h : inShape pos ([ex, ey, ez].map (· + 1))) :
    ∃ c, c < prodNat (nonzeroExtents [ex, ey, ez]) ∧
      pointIdx [ex, ey, ez] pos ∈ latticeCell [ex, ey, ez] (gridCellType k [ex, ey, ez]) c := by
  match pos, h with
  | [i, j, m], h =>
    simp only [inShape, List.map] at h
    obtain ⟨lx, dx, zx, nx, hdx, rfl⟩ := split1 i ex h.1
    obtain ⟨ly, dy, zy, ny, hdy, rfl⟩ := split1 j ey h.2.1
    obtain ⟨lz, dz, zz, nz, hdz, rfl⟩ := split1 m ez h.2.2.1
    by_cases hx : ex = 0 <;> by_cases hy : ey = 0 <;> by_cases hz : ez = 0
    · omega
    all_goals
      have hin : inShape ((([(ex, lx), (ey, ly), (ez, lz)].filter (fun p => 0 < p.1)).map (·.2)))
          (nonzeroExtents [ex, ey, ez]) := by
        simp [nonzeroExtents, hx, hy, hz, inShape, Nat.pos_iff_ne_zero, nx, ny, nz]
      refine ⟨flatten (nonzeroExtents [ex, ey, ez])
        ((([(ex, lx), (ey, ly), (ez, lz)].filter (fun p => 0 < p.1)).map (·.2))), flatten_lt _ _ hin, ?_⟩
      simp only [latticeCell, unflatten_flatten _ _ hin]
      cases k
    all_goals
      simp [gridCellType, pyIndexPred, Gen.c07ImageTypes, Gen.c07RectilinearTypes, Gen.c07StructuredTypes,
        gridDim, nonzeroExtents, hx, hy, hz, vtkCorners, expand, addIdx, pointIdx, flatten,
        Nat.pos_iff_ne_zero, zx, zy, zz]
    all_goals first
      | assumption
      | (rcases hdx with rfl | rfl <;> rcases hdy with rfl | rfl <;> rcases hdz with rfl | rfl <;> simp_all)

theorem read_points (a0 b0 c0 : Int) (ex ey ez : Nat) (g : GridGeom) (pfs : List PointField)
    (cfs : List (String × NdArr)) (hg : gridHyp [ex, ey, ez] g pfs cfs = true) (F : MeshFields)
    (hF : readGridCore [a0, a0 + ex, b0, b0 + ey, c0, c0 + ez] g pfs cfs = some F) :
    F.pointContent = gridPointContent [ex, ey, ez] g pfs := by
  have hg0 := gridHyp_nofields _ g pfs cfs hg
  have hpos := gridHyp_pos ex ey ez g pfs cfs hg
  obtain ⟨F', rows, hF', hrows, hmesh, hpf, _⟩ := read_cells a0 b0 c0 ex ey ez g pfs cfs hg
  obtain ⟨_, rows', hrows', hlen, hget⟩ := connectivity_spec g.kind ex ey ez hpos
  have : F' = F := by rw [hF] at hF'; exact (Option.some.inj hF').symm
  subst this
  have : rows' = rows := by rw [hrows] at hrows'; exact (Option.some.inj hrows').symm
  subst this
  have hnp := gridPoints_length _ g hg0
  have hconn : ∀ p, p < prodNat ([ex, ey, ez].map (· + 1)) → F'.mesh.connected p = true := by
    intro p hp
    have hin := unflatten_inShape _ p hp
    obtain ⟨c, hc, hmem⟩ := lattice_connected g.kind ex ey ez hpos _ hin
    rw [pointIdx, flatten_unflatten _ _ hp] at hmem
    have hr := List.mem_of_getElem? (hget c hc)
    simp only [hmesh, Mesh.connected, List.any_cons, List.any_nil, Bool.or_false, List.any_eq_true]
    exact ⟨_, hr, by simpa using hmem⟩
  have hfil : (List.range F'.mesh.numPoints).filter F'.mesh.connected = List.range F'.mesh.numPoints := by
    rw [List.filter_eq_self]
    intro p hp
    apply hconn
    simpa [hmesh, Mesh.numPoints, hnp] using hp
  simp only [MeshFields.pointContent, hfil, gridPointContent]
  have hn : F'.mesh.numPoints = prodNat ([ex, ey, ez].map (· + 1)) := by simp [hmesh, Mesh.numPoints, hnp]
  rw [hn]
  apply List.map_congr_left
  intro p hp
  have hp' : p < prodNat ([ex, ey, ez].map (· + 1)) := by simpa using hp
  have hin := unflatten_inShape _ p hp'
  have hgd := gridPoints_getD _ g hg0 _ hin
  rw [pointIdx, flatten_unflatten _ _ hp'] at hgd
  rw [List.getD_eq_getElem?_getD] at hgd
  simp only [List.map] at hgd
  simp [MeshFields.pointItem, hmesh, hpf, hgd]

/-- two descriptions place every lattice point at the same coordinates -/
def sameGeometry (ext : List Nat) (g1 g2 : GridGeom) : Prop :=
  ∀ pos, inShape pos (ext.map (· + 1)) → geomAt ext g1 pos = geomAt ext g2 pos

theorem normType_latticeType (k1 k2 : GridKind) (d : Nat) :
    normType (latticeType k1 d) = normType (latticeType k2 d) := by
  cases k1 <;> cases k2 <;> rcases d with _ | _ | _ | _ | d <;> simp [latticeType, normType]

theorem corner_inShape_norm (k : GridKind) (ex ey ez c : Nat) (hpos : 0 < ex ∨ 0 < ey ∨ 0 < ez) :
    ∀ δ ∈ vtkCorners (normType (latticeType k (gridDim [ex, ey, ez]))),
      inShape (expand [ex, ey, ez] (addIdx (unflatten (nonzeroExtents [ex, ey, ez]) c) δ))
        ([ex, ey, ez].map (· + 1)) := by
  by_cases hx : ex = 0 <;> by_cases hy : ey = 0 <;> by_cases hz : ez = 0
  · omega
  all_goals
    cases k
  all_goals
    simp [latticeType, normType, gridDim, nonzeroExtents, hx, hy, hz, vtkCorners, unflatten, expand, addIdx,
      inShape, Nat.mod_lt, Nat.pos_iff_ne_zero, mod_lt_succ]

theorem gridPointContent_congr (ext : List Nat) (g1 g2 : GridGeom) (pfs : List PointField)
    (h : sameGeometry ext g1 g2) : gridPointContent ext g1 pfs = gridPointContent ext g2 pfs := by
  unfold gridPointContent
  apply List.map_congr_left
  intro p hp
  rw [h _ (unflatten_inShape _ p (by simpa using hp))]

theorem gridCellContent_congr (ex ey ez : Nat) (hpos : 0 < ex ∨ 0 < ey ∨ 0 < ez) (g1 g2 : GridGeom)
    (cfs : List (String × NdArr)) (h : sameGeometry [ex, ey, ez] g1 g2) :
    gridCellContent [ex, ey, ez] g1 cfs = gridCellContent [ex, ey, ez] g2 cfs := by
  unfold gridCellContent
  simp only [normType_latticeType g1.kind g2.kind]
  apply List.map_congr_left
  intro c _
  congr 1
  apply List.map_congr_left
  intro δ hδ
  exact h _ (corner_inShape_norm g2.kind ex ey ez c hpos δ hδ)


theorem unflatten_length (shape : List Nat) (c : Nat) : (unflatten shape c).length = shape.length := by
  induction shape generalizing c with
  | nil => rfl
  | cons n ns ih => simp [unflatten, ih]

theorem expand_length (ext loc : List Nat) : (expand ext loc).length = ext.length := by
  induction ext generalizing loc with
  | nil => rfl
  | cons e es ih =>
    simp only [expand]
    split <;> simp [ih]

/-! ### extent lower ends: the origin shift of `VTIReader` -/

theorem shiftGeom_kind (lo : List Int) (g : GridGeom) : (shiftGeom lo g).kind = g.kind := by
  cases g <;> rfl

theorem gridCtorOk_shift (ext : List Nat) (lo : List Int) (g : GridGeom) (h : gridCtorOk ext g = true) :
    gridCtorOk ext (shiftGeom lo g) = true := by
  cases g with
  | image U o b s =>
    simp only [gridCtorOk, Bool.and_eq_true, beq_iff_eq] at h
    simp [shiftGeom, gridCtorOk, imagePointZ, h.1.1.1.1, h.1.1.1.2, h.1.1.2, h.1.2, h.2]
  | rect ords => exact h
  | struct pts => exact h

theorem gridHyp_shift (ext : List Nat) (lo : List Int) (g : GridGeom) (pfs : List PointField)
    (cfs : List (String × NdArr)) (h : gridHyp ext g pfs cfs = true) :
    gridHyp ext (shiftGeom lo g) pfs cfs = true := by
  cases g with
  | image U o b s =>
    simp only [gridHyp, Bool.and_eq_true] at h ⊢
    exact ⟨⟨⟨⟨h.1.1.1.1, gridCtorOk_shift ext lo _ h.1.1.1.2⟩, by simp [shiftGeom]⟩, h.1.2⟩, h.2⟩
  | rect ords => exact h
  | struct pts => exact h

theorem mulU_add (U : Nat) (a x y : Int) (h : mulUExact U a x = true) :
    mulU U a (x + y) = mulU U a x + mulU U a y := by
  simp only [mulUExact, beq_iff_eq] at h
  simp only [mulU, Int.mul_add]
  exact Int.add_ediv_of_dvd_left (Int.dvd_of_emod_eq_zero h)

/-- VTK's extent semantics = the geometry the (fixed) reader hands to `ImageMesh` -/
theorem geomAtLo_shift (lo : List Int) (ext : List Nat) (g : GridGeom) (pos : List Nat)
    (hc : gridCtorOk ext g = true) (hx : shiftExact lo g = true) (hl : lo.length = 3) (hp : pos.length = 3) :
    geomAtLo lo ext g pos = geomAt ext (shiftGeom lo g) pos := by
  cases g with
  | rect ords => rfl
  | struct pts => rfl
  | image U o b s =>
    simp only [gridCtorOk, Bool.and_eq_true, beq_iff_eq, List.all_eq_true] at hc
    obtain ⟨⟨⟨⟨_, ho⟩, hs⟩, hb⟩, hrows⟩ := hc
    match o, ho, s, hs, b, hb, lo, hl, pos, hp with
    | [o0, o1, o2], _, [s0, s1, s2], _, [r0, r1, r2], _, [l0, l1, l2], _, [p0, p1, p2], _ =>
      have h0 := hrows r0 (by simp); have h1 := hrows r1 (by simp); have h2 := hrows r2 (by simp)
      match r0, h0, r1, h1, r2, h2 with
      | [a0, a1, a2], _, [b0, b1, b2], _, [c0, c1, c2], _ =>
        simp only [shiftExact, imagePointExact, List.zipWith, List.all_cons, List.all_nil, Bool.and_true,
          Bool.and_eq_true, id] at hx
        simp only [geomAtLo, geomAt, shiftGeom, imagePoint, imagePointZ, List.zipWith, List.map, dotU,
          Int.mul_add, mulU_add _ _ _ _ hx.1.1, mulU_add _ _ _ _ hx.1.2.1, mulU_add _ _ _ _ hx.1.2.2,
          mulU_add _ _ _ _ hx.2.1.1, mulU_add _ _ _ _ hx.2.1.2.1, mulU_add _ _ _ _ hx.2.1.2.2,
          mulU_add _ _ _ _ hx.2.2.1, mulU_add _ _ _ _ hx.2.2.2.1, mulU_add _ _ _ _ hx.2.2.2.2]
        simp only [List.cons.injEq, and_true]
        refine ⟨?_, ?_, ?_⟩ <;> omega
end Fc.C07
