import FcModel.F64
import FcModel.Predicates
import FcModel.Spec.Predicates
