#!/venv/bin/python
"""MANIFEST.setup_cmd: regenerate the tables from /repo's source text and build model, proofs and driver."""
import os, sys, subprocess
HERE = os.path.dirname(os.path.abspath(__file__))
sys.path.insert(0, HERE)
from fcv import gen_tables, leanproc  # noqa: E402

def main() -> int:
    gen_tables.regenerate()
    rc = subprocess.call(["lake", "build", "FcModel", "Driver", "fcdrv", "FcProofs"], cwd=leanproc.LEAN_DIR)
    if rc != 0:
        print("setup: lake build failed")
    return rc

if __name__ == "__main__":
    sys.exit(main())
