#!/venv/bin/python
"""MANIFEST.setup_cmd: regenerate the tables from /repo's source text and build model, proofs and driver."""
import os, sys, subprocess
HERE = os.path.dirname(os.path.abspath(__file__))
sys.path.insert(0, HERE)
from fcv import gen_tables, leanproc, core  # noqa: E402

def main() -> int:
    with core.BuildLock():
        return _main()


def _main() -> int:
    status = gen_tables.regenerate()
    bad = {n: st for n, st in status.items() if st not in ("same",)}
    if bad:
        print("setup: note: table renderings differ from the frozen ones (lean/FcGen/lastgood):", bad)
    rc = subprocess.call(["lake", "build", "FcModel", "Driver", "fcdrv", "FcProofs"], cwd=leanproc.LEAN_DIR)
    if rc != 0:
        print("setup: lake build failed")
    return rc

if __name__ == "__main__":
    sys.exit(main())
