"""Which properties are claimed, at which level, with which note.  MANIFEST.json is generated from this."""
NOTE_COMMON = ("Trusted: Lean 4.33 kernel; axioms per theorem audited each run (subset of propext, Classical.choice, "
               "Quot.sound; no native_decide/bv_decide/sorry); the Python correspondence harness and the table translator; "
               "the compiled driver fcdrv; numpy/CPython behave as modelled (sampled on every run, not proved). ")

CLAIMED = {
    "C01": {
        "technique": "Lean 4 theorems over a hand-written model (integer-unit IEEE rounding model, array-level induction) + differential correspondence against FuzzyEquality through the Lean driver + exact-rational search oracle",
        "text": "Theorems C01_* (FcProofs/Props/C01.lean) prove for all float64 arrays/tolerances that the modelled FuzzyEquality verdict is the conjunction of the documented formula over all entries with the shape rule, that the boundary counts as equal and that the exact-arithmetic formula implies the floating one; the model is tied to the code by running both on boundary-directed cases every run.",
        "note": NOTE_COMMON + "Modelled rather than verified: numpy float64 arithmetic = round-to-nearest-even (Fc.rndMag), dtype promotion for the listed dtype pairs; float16/longdouble, NaN/inf entries outside the claim.",
        "design_ref": "DESIGN.md §7 C01",
    },
}

_PENDING = "check not built yet in this round (design in DESIGN.md §7); will be claimed when its model, theorems and correspondence exist"
NOT_APPLICABLE = {f"C{n:02d}": _PENDING for n in range(1, 21) if f"C{n:02d}" not in CLAIMED}
