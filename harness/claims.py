"""Which properties are claimed: one JSON file per claimed property under harness/claims/.
MANIFEST.json is generated from these by mkmanifest.py; unclaimed properties get the reason in
harness/claims/not_applicable.json (or the 'pending' default)."""
import glob
import json
import os

HERE = os.path.dirname(os.path.abspath(__file__))
CLAIMED = {}
for p in sorted(glob.glob(os.path.join(HERE, "claims", "C*.json"))):
    c = json.load(open(p))
    CLAIMED[c["property_id"]] = c

_PENDING = ("check not built yet (design in DESIGN.md §7); it will be claimed when its model, theorems and "
            "correspondence exist")
_na_file = os.path.join(HERE, "claims", "not_applicable.json")
_NA = json.load(open(_na_file)) if os.path.exists(_na_file) else {}
NOT_APPLICABLE = {f"C{n:02d}": _NA.get(f"C{n:02d}", _PENDING) for n in range(1, 21) if f"C{n:02d}" not in CLAIMED}
