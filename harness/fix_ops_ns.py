#!/usr/bin/env python3
"""Give every Driver/OpsCxx.lean its own namespace Fc.Drv.Cxx (helpers of different work packages may share
names) and re-export `handleCxx` at Fc.Drv level.  Idempotent; run after merging a work package."""
import glob, os, re
HERE = os.path.dirname(os.path.abspath(__file__))
for p in sorted(glob.glob(os.path.join(HERE, "..", "lean", "Driver", "OpsC*.lean"))):
    cxx = re.search(r"Ops(C\d+)\.lean", p).group(1)
    s = open(p).read()
    if f"namespace Fc.Drv.{cxx}" in s:
        continue
    if "filled in by the" in s and s.count("=>") <= 1:
        continue   # untouched stub of a work package that is not merged yet
    if "namespace Fc.Drv\n" not in s or "end Fc.Drv" not in s:
        print("skip (unexpected layout):", p); continue
    s = s.replace("namespace Fc.Drv\n", f"namespace Fc.Drv.{cxx}\n", 1)
    i = s.rindex("end Fc.Drv")
    s = s[:i] + f"end Fc.Drv.{cxx}\n\n/-- re-export for Driver/Main.lean -/\ndef Fc.Drv.handle{cxx} := Fc.Drv.{cxx}.handle{cxx}\n" + s[i + len("end Fc.Drv"):].lstrip("\n")
    open(p, "w").write(s)
    print("namespaced", os.path.basename(p))
