#!/usr/bin/env python3
"""Regenerates MANIFEST.json from the table below (keeps it valid and in one place)."""
import json, os
HERE = os.path.dirname(os.path.abspath(__file__))
VERIF = os.path.dirname(HERE)

PY = "/venv/bin/python"
CLAIMED = {
    # id: (technique, level text, level note, design ref)
}
NOT_YET = {}

def load_table():
    import importlib.util
    spec = importlib.util.spec_from_file_location("claims", os.path.join(HERE, "claims.py"))
    m = importlib.util.module_from_spec(spec); spec.loader.exec_module(m)
    return m.CLAIMED, m.NOT_APPLICABLE

def main():
    claimed, na = load_table()
    checks = []
    for pid in sorted(claimed):
        c = claimed[pid]
        checks.append({
            "property_id": pid,
            "quick_cmd": f"{PY} harness/vcheck.py {pid} --tier quick",
            "thorough_cmd": f"{PY} harness/vcheck.py {pid} --tier thorough",
            "evidence_file": f"/verif/evidence/{pid}.json",
            "replay_cmd_template": f"{PY} harness/vcheck.py {pid} --replay {{path}}",
            "engine": "lean4-proof+correspondence",
            "level_claimed": {"category": "proof", "text": c["text"], "design_ref": c["design_ref"]},
            "level_note": c["note"],
            "technique": c["technique"],
        })
    man = {
        "version": 1,
        "setup_cmd": f"{PY} harness/setup.py",
        "hooks": {
            "guard": "FIELDCOMPARE_VERIF",
            "enable": "no source hooks are needed: every observation point is public API or the CLI entry point; checks import fieldcompare from /repo's working tree",
            "baseline_off_cmd": "cd /repo && /venv/bin/python -m pytest -ra -q -p no:cacheprovider --timeout=900 --continue-on-collection-errors",
            "source_commits": [],
            "add_only": True,
        },
        "engines": [{
            "name": "lean4-proof+correspondence",
            "path": "/verif/lean, /verif/harness",
            "serves_properties": sorted(claimed),
            "kind_free_text": "hand-written Lean 4 model + theorems (lake build, #print axioms audit) tied to /repo by a differential correspondence check through the compiled Lean driver fcdrv and by a source-text table translator",
        }],
        "checks": checks,
        "not_applicable": [{"property_id": k, "reason": v} for k, v in sorted(na.items())],
        "notes": "See DESIGN.md. Exit codes: 0 held, 1 VIOLATION (with replay), 2 infrastructure.",
    }
    with open(os.path.join(VERIF, "MANIFEST.json"), "w") as fh:
        json.dump(man, fh, indent=1)
        fh.write("\n")

if __name__ == "__main__":
    main()
