#!/usr/bin/env python3
"""Prints markdown tables for DESIGN.md: per-property status (theorems, partials, findings, notes) and the
seeded-change table (from seeded/*/meta.json)."""
import glob, json, os, re
HERE = os.path.dirname(os.path.abspath(__file__)); VERIF = os.path.dirname(HERE)
kf = json.load(open(os.path.join(VERIF, "KNOWN_FINDINGS.json")))["findings"]
print("| property | theorems (`FcProofs/Props`) | `_partial` | known findings | fixed | as-built notes |")
print("|---|---|---|---|---|---|")
for n in range(1, 21):
    p = f"C{n:02d}"
    names = []
    d = os.path.join(VERIF, "lean", "FcProofs", "Props")
    for fn in sorted(os.listdir(d)):
        if fn == f"{p}.lean" or (fn.startswith(p + "_") and fn.endswith(".lean")):
            src = re.sub(r"/-.*?-/", "", open(os.path.join(d, fn)).read(), flags=re.S)
            names += re.findall(r"^\s*theorem\s+(" + p + r"_\w+)", src, flags=re.M)
    part = [x for x in names if x.endswith("_partial")]
    known = sorted({e["id"] for e in kf if e["property"] == p and e["status"] == "known"})
    fixed = sorted({e["id"] for e in kf if e["property"] == p and e["status"] == "fixed"})
    note = f"notes/NOTES_{p}.md" if os.path.exists(os.path.join(VERIF, "notes", f"NOTES_{p}.md")) else "DESIGN §0/§7"
    print(f"| {p} | {len(names)} | {', '.join(x.replace(p + '_', '') for x in part) or '–'} | {', '.join(known) or '–'} | {', '.join(fixed) or '–'} | {note} |")
print()
print("| seed | property | what the change does | needs | caught by | how |")
print("|---|---|---|---|---|---|")
for mp in sorted(glob.glob(os.path.join(VERIF, "seeded", "*", "meta.json"))):
    m = json.load(open(mp)); sid = os.path.basename(os.path.dirname(mp))
    res = m.get("check_results", {})
    caught = ", ".join(f"{p} ({'input' if 'no-failing' not in (r.get('violation_line') or '') else 'broken-obligation'})" for p, r in res.items() if r.get("violation_line")) or ("not run yet" if not res else "MISSED")
    print(f"| {sid} | {m.get('property')} | {str(m.get('summary',''))[:160]} | {str(m.get('needs',''))[:140]} | {caught} | {m.get('note','')} |")
