#!/usr/bin/env python3
"""check_collisions.py [LEAN_DIR ...]  — lists fully qualified Lean names declared in more than one file
across the given lean/ directories (default: this repo's lean/).  Two files declaring the same name cannot be
imported together (Driver/Main.lean imports everything).  Files with the same relative path are treated as one."""
import collections, glob, os, re, sys
HERE = os.path.dirname(os.path.abspath(__file__))
dirs = sys.argv[1:] or [os.path.join(HERE, "..", "lean")]
names = collections.defaultdict(set)
for d in dirs:
    for sub in ("FcModel", "FcProofs", "Driver"):
        for p in glob.glob(os.path.join(d, sub, "**", "*.lean"), recursive=True):
            rel = os.path.relpath(p, d)
            s = re.sub(r"/-.*?-/", "", open(p).read(), flags=re.S)
            ns = []
            for line in s.splitlines():
                m = re.match(r"\s*namespace\s+(\S+)", line)
                if m:
                    ns.append(m.group(1)); continue
                m = re.match(r"\s*end\s+(\S+)", line)
                if m and ns and ns[-1].split(".")[-1] == m.group(1).split(".")[-1]:
                    ns.pop(); continue
                m = re.match(r"\s*(?:@\[[^\]]*\]\s*)?(private\s+)?(?:protected\s+)?(?:noncomputable\s+)?"
                             r"(?:def|theorem|lemma|structure|inductive|abbrev|class)\s+([A-Za-z_][\w\.']*)", line)
                if m and not m.group(1):
                    names[".".join(ns + [m.group(2)])].add(rel)
bad = {n: sorted(ps) for n, ps in names.items() if len(ps) > 1}
for n, ps in sorted(bad.items()):
    print(n, ps)
print(f"{len(bad)} colliding name(s)")
sys.exit(1 if bad else 0)
