#!/bin/bash
# soak.sh <tier> <seed> : all registered checks, 4 at a time (maintainers' use; not a registered command)
tier=${1:-thorough}; seed=${2:-11}
/venv/bin/python harness/setup.py > /dev/null 2>&1
ls harness/claims/C*.json | sed 's/.*\(C[0-9]*\)\.json/\1/' | xargs -P 4 -I{} bash -c "s=\$(date +%s); VERIF_SEED=$seed /venv/bin/python harness/vcheck.py {} --tier $tier 2>&1 | grep -v KNOWN-FINDING | tail -1 | sed \"s/^/[\$((\$(date +%s)-s))s] /\""
