#!/bin/bash
# soak.sh <tier> <seed> : all registered checks, 4 at a time (maintainers' use; not a registered command)
tier=${1:-thorough}; seed=${2:-11}
/venv/bin/python harness/setup.py 2>&1 | tail -2
one() { s=$(date +%s); VERIF_SEED=$2 /venv/bin/python harness/vcheck.py $1 --tier $3 2>&1 | grep -v KNOWN-FINDING | tail -1 | sed "s/^/[$(( $(date +%s) - s ))s] /"; }
export -f one
ls harness/claims/C*.json | sed 's/.*\(C[0-9]*\)\.json/\1/' | xargs -P 4 -I{} bash -c "one {} $seed $tier"
