#!/venv/bin/python
"""Freeze the current rendering of every table extractor (on /repo's tree) under lean/FcGen/lastgood/.
Run on the unchanged tree whenever an extractor is added or changed; commit the result."""
import os, sys
HERE = os.path.dirname(os.path.abspath(__file__)); sys.path.insert(0, HERE)
from fcv import tables_extract, gen_tables  # noqa: E402
os.makedirs(tables_extract.LASTGOOD, exist_ok=True)
for n, m in tables_extract.modules():
    txt = tables_extract.render_module(n, m, gen_tables._src)
    with open(os.path.join(tables_extract.LASTGOOD, n + ".lean"), "w") as fh:
        fh.write(txt + "\n")
    print("frozen", n, getattr(m, "PROPERTIES", "ALL"))
