#!/bin/bash
# every kept seed x VERIF_SEED in $1 (default "1 2 3"): own-property quick check against a scratch worktree (sequential:
# runs with different FCV_REPO must not share one lake project concurrently)
/venv/bin/python harness/setup.py > /dev/null 2>&1
for vs in ${1:-1 2 3}; do
  for d in seeded/*/; do id=$(basename $d); [ -f $d/patch.diff ] || continue; prop=${id%%-*}
    VERIF_SEED=$vs /venv/bin/python harness/seedtest.py $id $prop --no-verify --scratch 2>&1 | tail -1 | python3 -c "
import sys,json
try:
    d=json.loads(sys.stdin.read()); print('VS=$vs', d['seed'], 'exit', d['exit'], 'NOINPUT' if d['line'] and 'no-failing' in d['line'] else '')
except Exception as e: print('VS=$vs $id ERR')
"
  done
done
