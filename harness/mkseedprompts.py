#!/venv/bin/python
"""mkseedprompts.py <round> [Cxx ...] — maintainers' tool: one prompt file /tmp/<round>/Cxx.prompt per property for a FRESH sub-agent
(only the property record + one-line summaries of the seeds already kept, "do something different") and a scratch worktree
/tmp/<round>/Cxx of /repo.  The agent's deliverables go to /tmp/<round>/Cxx_out; ingest with harness/seed_ingest.sh."""
import json, glob, os, subprocess, sys
rnd=sys.argv[1]; want=sys.argv[2:]
root=f'/tmp/{rnd}'
os.makedirs(root, exist_ok=True)
props=[json.loads(l) for l in open('/verif/properties.jsonl')]
for p in props:
    pid=p['id']
    if want and pid not in want: continue
    wt=f'{root}/{pid}'
    if not os.path.exists(wt):
        subprocess.run(['git','-C','/repo','worktree','add','-q','--detach',wt,'HEAD'],check=True)
    tried=[]
    for d in sorted(glob.glob(f'/verif/seeded/{pid}-*')):
        m=json.load(open(d+'/meta.json'))
        tried.append('- '+m['summary'][:300].replace('\n',' '))
    rec={k:p[k] for k in ('id','title','statement','quantifier','why_tests_cant','anchors') if k in p}
    prompt=f"""You are helping to evaluate a verification effort by playing the role of a developer who introduces a subtle regression into the open-source Python project dglaeser/fieldcompare (a CLI/library that reads VTK/CSV field data and compares it against reference data with fuzzy tolerances, including permutation-invariant mesh comparison).

Your own scratch git worktree of the repository is at {wt} (detached HEAD). Work ONLY inside {wt} (and {root}/{pid}_out for your deliverables). Do NOT read or touch /repo, /verif or any other directory outside your worktree; do not commit anything; do NOT use `git stash` (the stash is shared with other people's worktrees) — to switch between changed and unchanged code use `git diff > {root}/{pid}_out/patch.diff`, `git apply -R {root}/{pid}_out/patch.diff`, `git apply {root}/{pid}_out/patch.diff`. Python with all dependencies: /venv/bin/python (run things with `cd {wt} && PYTHONPATH={wt} /venv/bin/python ...` so that YOUR copy of fieldcompare is imported; check `fieldcompare.__file__`).

The property (this record is all you are given about it):

{json.dumps(rec, indent=1)}

TASK. Produce ONE realistic change to the fieldcompare source (under {wt}/fieldcompare/ only — not the tests) that BREAKS this property while
 (1) the package still imports and the existing test suite still passes:  cd {wt} && /venv/bin/python -m pytest -q -p no:cacheprovider --timeout=900 --deselect test/test_examples.py::test_api_examples   (239 passed expected, that one deselected test needs the network and fails regardless);
 (2) the change looks like something a maintainer could plausibly write — a refactoring slip, an optimisation, a tidy-up, a 'simplification', a caching/memoisation, a copy/paste error, a changed default — not sabotage, no dead giveaways, no special-casing of magic values;
 (3) the breakage needs something SPECIFIC to manifest — a multi-step sequence of operations on the same objects/process, an unusual but legitimate input (particular dtype, shape, size, magnitude, memory layout, file encoding, option combination, ordering), a fault/truncation at a particular place, or two cooperating sites that each look fine alone — NOT something ordinary use or a casual smoke test would expose at once. Prefer changes deep in less-travelled code paths that the property nevertheless covers. Read the code carefully first; think about which inputs the existing tests never visit.

The following ideas have ALREADY been used for this property — do something genuinely different (a different function / mechanism / trigger):
{chr(10).join(tried) if tried else '- (none)'}

DELIVERABLES, all in the directory {root}/{pid}_out/ (create it):
 - patch.diff : output of `git -C {wt} diff` (must apply with `git apply` to a clean checkout of the same commit);
 - demo.py : a self-contained demonstration program (uses only /venv/bin/python's installed packages and the fieldcompare found on PYTHONPATH/cwd; creates any files it needs in a temporary directory it removes again) that exits 0 on the UNCHANGED code and exits non-zero (with a short explanation printed) on the CHANGED code, by exercising the public API or CLI in the way the property describes;
 - meta.json : {{"property": "{pid}", "summary": "<what the change does, where>", "needs": "<what exactly is needed for the breakage to manifest>", "files": [<changed files>], "tests_before": "<pytest tail on unchanged>", "tests_after": "<pytest tail with change>", "demo_before": "<result>", "demo_after": "<result>"}}.
Verify all of it yourself: run the tests with and without the change, run demo.py with and without the change. Before finishing check that `git -C {wt} diff --stat` lists only YOUR files. Leave the change applied in the worktree when you finish. In your final answer give a 5-line summary (what, where, what it needs, test result, demo result)."""
    open(f'{root}/{pid}.prompt','w').write(prompt)
    print(pid, len(tried))
