"""C10 — equality predicates are reflexive, symmetric and monotone; scaled tolerance = t·max|·|.

Metamorphic evaluations on the real predicate objects: (a,a), (a,b), (b,a), two tolerance levels
t1 <= t2, one predicate object reused across fields (history), ScaledTolerance value — each verdict is
also compared with the Lean model (correspondence)."""
from __future__ import annotations
import warnings
from fractions import Fraction

import numpy as np

from fcv import predio
from fcv.num import f2u, rn64
from corr import c01, c09


def gen_float_pair(rng):
    n = rng.choice([1, 2, 3, 6, 17])
    k = rng.choice([2, 3])
    form = rng.choice(["n", "n", "nk", "nkk"])
    shape = {"n": [n], "nk": [n, k], "nkk": [n, k, k]}[form]
    size = 1
    for d in shape:
        size *= d
    scale = rng.choice(c01.EXPS)
    a = [c01.rand_float(rng, [scale]) for _ in range(size)]
    b = list(a)
    rel, abs_ = rng.choice(c01.RELS[:13]), rng.choice(c01.ABSS)
    for _ in range(rng.choice([1, 1, 2, size])):
        i = rng.randrange(size)
        b[i] = c01.near_boundary_partner(rng, a[i], rel, abs_) if rng.random() < 0.8 else c01.rand_float(rng, [scale])
    return shape, a, b, rel, abs_


def larger(rng, t):
    r = rng.random()
    if r < 0.3:
        return t
    if r < 0.6:
        return float(np.nextafter(t, np.inf))
    return t * rng.choice([2.0, 10.0, 1e3]) + rng.choice([0.0, 1e-300, 1e-12])


def run_floats(ctx, n):
    rng = ctx.rng
    batch = []
    for _ in range(n):
        shape, a, b, rel, abs_ = gen_float_pair(rng)
        A = {"dt": "f64", "shape": shape, "v": a}
        B = {"dt": "f64", "shape": shape, "v": b}
        tk = rng.random()
        entry = shape[1:]
        rs = 1
        for d in entry:
            rs *= d
        if tk < 0.5 or not entry:
            t1 = (["num", rel], ["num", abs_])
            t2 = (["num", larger(rng, rel)], ["num", larger(rng, abs_)])
            kind = "scalar"
        elif tk < 0.8:
            r1 = [rng.choice(c01.RELS[:12]) for _ in range(rs)]
            a1 = [rng.choice(c01.ABSS) for _ in range(rs)]
            t1 = (["arr", entry, r1], ["arr", entry, a1])
            t2 = (["arr", entry, [larger(rng, x) for x in r1]], ["arr", entry, [larger(rng, x) for x in a1]])
            kind = "percomp"
        else:
            base = rng.choice([1e-12, 1e-6, 2.0 ** -20, 0.25])
            t1 = (["num", rel], ["scaled", base])
            t2 = (["num", larger(rng, rel)], ["scaled", larger(rng, base)])
            kind = "dynamic"
        batch.append((A, B, t1, t2, kind))
    # model verdicts for every evaluation
    lines, index = [], []
    for k, (A, B, t1, t2, kind) in enumerate(batch):
        for name, (x, y, t) in {"aa": (A, A, t1), "ab1": (A, B, t1), "ba1": (B, A, t1), "ab2": (A, B, t2)}.items():
            lines.append(predio.enc_pred("fuzzy", t[0], t[1], x, y)); index.append((k, name))
    reps = ctx.lean(lines) if ctx.driver_ok else [None] * len(lines)
    model = {}
    for (k, name), r in zip(index, reps):
        model[(k, name)] = r
    for k, (A, B, t1, t2, kind) in enumerate(batch):
        v = {"aa": predio.run_impl("fuzzy", t1[0], t1[1], A, A),
             "ab1": predio.run_impl("fuzzy", t1[0], t1[1], A, B),
             "ba1": predio.run_impl("fuzzy", t1[0], t1[1], B, A),
             "ab2": predio.run_impl("fuzzy", t2[0], t2[1], A, B)}
        case = {"a": A, "b": B, "t1": t1, "t2": t2}
        ctx.case(("flt", A["v"], B["v"], t1, t2), nontrivial=(A["v"] != B["v"]),
                 tags=["float", "tol-" + kind, "ab1-" + v["ab1"], "ab2-" + v["ab2"]],
                 sample={"case": case, "verdicts": v})
        for name in v:
            r = model.get((k, name))
            if r is not None and r.get("hyp") == "1":
                if r["model"] != v[name]:
                    ctx.mismatch(dict(case, evaluation=name), v[name], r["model"])
                if r["spec"] != r["model"]:
                    ctx.inconsistent(dict(case, evaluation=name), r["model"], r["spec"])
        if v["aa"] != "T":
            ctx.violation(dict(case, law="reflexive"), v["aa"], "T", what="array does not compare equal to itself")
        if v["ab1"] != v["ba1"]:
            ctx.violation(dict(case, law="symmetric"), f"{v['ab1']}/{v['ba1']}", "equal verdicts",
                          what="verdict depends on the argument order")
        if v["ab1"] == "T" and v["ab2"] != "T":
            ctx.violation(dict(case, law="monotone"), f"t1:{v['ab1']} t2:{v['ab2']}", "pass stays pass",
                          what="enlarging the tolerances turned a pass into a fail")


def near_limit_int(rng, dt):
    """values of integer type `dt`: type limits and their neighbours, half range (differences overflow), +-2^53
    (int -> float64 conversion starts to round), small values"""
    lo, hi = c09.INTS[dt]
    r = rng.random()
    if r < 0.22:
        v = rng.choice([lo, lo + 1, lo + 1, lo + 2, hi, hi, hi - 1, hi - 2])
    elif r < 0.34:
        v = rng.choice([-2, -1, 0, 1, 2])
    elif r < 0.48:
        v = rng.choice([1, -1]) * (hi // 2 + rng.randint(-2, 2))
    elif r < 0.60:
        v = rng.choice([1, -1]) * (2 ** 53 + rng.choice([-1, 0, 1, 2, 3]))
    else:
        v = rng.randint(-1000, 1000)
    return max(lo, min(hi, v))


def int_formula(a: int, b: int, rel: float, abs_: float) -> bool:
    """documented formula on two integers, computed without numpy: exact integer difference and maximum, each converted
    to binary64 (Python int -> float is correctly rounded), product rounded once"""
    d = float(abs(b - a))
    m = float(max(abs(a), abs(b)))
    return d <= max(rn64(Fraction(m) * Fraction(rel)), abs_)


def oracle_int(t, A, B):
    if not predio.shapes_compatible(A["shape"], B["shape"]):
        return "F"
    rel = 0.0 if t[0][0] == "dflt" else t[0][1]
    return "T" if all(int_formula(x, y, rel, t[1][1]) for x, y in zip(A["v"], B["v"])) else "F"


def run_ints(ctx, n):
    """integers: Default/Exact (exact path) laws for every dtype; explicit FuzzyEquality on same-type ints.
    Signed operands are drawn near the type limits; the driver decides `hyp` (= every entry pair `intSafe`, theorems
    C10_int_model_eq_spec/_symm/_refl/_mono) and `mhyp` (model meant to reproduce the code: no type minimum)."""
    rng = ctx.rng
    groups, lines, lidx = [], [], []
    for _ in range(n):
        dt = rng.choice(list(c09.INTS))
        lo, hi = c09.INTS[dt]
        size = rng.choice([1, 2, 5])
        limits = rng.random() < 0.7
        a = [near_limit_int(rng, dt) if limits else c09.rand_int(rng, dt) for _ in range(size)]
        b = list(a)
        for _ in range(rng.choice([1, 1, 2])):
            i = rng.randrange(size)
            q = rng.random()
            if limits and q < 0.3:
                b[i] = near_limit_int(rng, dt)
            elif limits and q < 0.5:
                b[i] = max(lo, min(hi, -a[i] + rng.randint(-2, 2)))     # opposite sign: the difference may overflow
            else:
                b[i] = max(lo, min(hi, b[i] + rng.choice([0, 1, -1, 2, -3, 100])))
        shape = [] if (size == 1 and rng.random() < 0.15) else [size]
        A = {"dt": dt, "shape": shape, "v": a}
        B = {"dt": dt, "shape": shape, "v": b}
        t1 = (rng.choice([["num", 0.0], ["num", 1e-3], ["num", 0.5], ["num", 2.0 ** -52], ["dflt"]]),
              ["num", rng.choice([0.0, 1.0, 2.0, 56.0, 127.0, 1e18])])
        r1 = 0.0 if t1[0][0] == "dflt" else t1[0][1]
        t2 = (["num", r1 * 2 + 0.1], ["num", t1[1][1] + 1.0])
        for kind in ("default", "exact", "fuzzy"):
            unsigned = dt.startswith("u")
            has_min = (not unsigned) and (lo in a or lo in b)
            g = {"kind": kind, "dt": dt, "A": A, "B": B, "t1": t1, "t2": t2, "unsigned": unsigned, "has_min": has_min,
                 "model": {}}
            if kind == "fuzzy":
                evs = {"aa": (A, A, t1), "ab1": (A, B, t1), "ba1": (B, A, t1), "ab2": (A, B, t2)}
            elif not has_min and all(abs(x) < 2 ** 53 for x in a + b):
                evs = {"ab1": (A, B, t1), "ba1": (B, A, t1)}
            else:
                evs = {}
            for name, (x, y, t) in evs.items():
                lines.append(predio.enc_pred(kind, t[0], t[1], x, y)); lidx.append((len(groups), name))
            groups.append(g)
    if ctx.driver_ok and lines:
        for (gi, name), r in zip(lidx, ctx.lean(lines)):
            groups[gi]["model"][name] = r
    for g in groups:
        kind, dt, A, B, t1, t2 = g["kind"], g["dt"], g["A"], g["B"], g["t1"], g["t2"]
        a, b = A["v"], B["v"]
        v = {"aa": predio.run_impl(kind, t1[0], t1[1], A, A), "ab1": predio.run_impl(kind, t1[0], t1[1], A, B),
             "ba1": predio.run_impl(kind, t1[0], t1[1], B, A), "ab2": predio.run_impl(kind, t2[0], t2[1], A, B)}
        case = {"kind": kind, "a": A, "b": B, "t1": t1, "t2": t2}
        tags = ["int", "int-" + kind, dt]
        if kind == "fuzzy" and g["model"]:
            hyps = {r.get("hyp") for r in g["model"].values()}
            tags.append("int-fuzzy-hyp" if hyps == {"1"} else "int-fuzzy-nohyp")
            if not g["unsigned"]:
                tags.append("signed-" + ("safe" if hyps == {"1"} else "min" if g["has_min"] else "diff-overflow"))
        ctx.case(("int", kind, dt, tuple(a), tuple(b), str(A["shape"]), str(t1)), nontrivial=(a != b), tags=tags, sample=None)
        for name, r in g["model"].items():
            if "model" not in r:
                ctx.inconsistent(dict(case, evaluation=name), str(r), "bad-op")
                continue
            inside = r.get("hyp") == "1" or (kind == "fuzzy" and r.get("mhyp") == "1") or kind != "fuzzy"
            if inside and r["model"] != v[name]:
                ctx.mismatch(dict(case, evaluation=name), v[name], r["model"])
            if kind == "fuzzy" and r.get("hyp") == "1":
                # theorem C10_int_model_eq_spec: model = integer formula; cross-checked with the Python oracle
                x, y, t = {"aa": (A, A, t1), "ab1": (A, B, t1), "ba1": (B, A, t1), "ab2": (A, B, t2)}[name]
                if r["spec"] != r["model"]:
                    ctx.inconsistent(dict(case, evaluation=name), r["model"], r["spec"])
                orc = oracle_int(t, x, y)
                if r["spec"] != orc:
                    ctx.inconsistent(dict(case, evaluation=name), "lean-spec=" + r["spec"], "python-oracle=" + orc)
        cls = None
        if kind == "fuzzy" and g["unsigned"]:
            cls = "F12"      # known: unsigned subtraction wraps
        if kind == "fuzzy" and g["has_min"]:
            cls = cls or "F13-absmin"
        if v["aa"] != "T":
            ctx.violation(dict(case, law="reflexive"), v["aa"], "T", cls=cls, what="integer array does not equal itself")
        if v["ab1"] != v["ba1"]:
            ctx.violation(dict(case, law="symmetric"), f"{v['ab1']}/{v['ba1']}", "equal verdicts", cls=cls,
                          what="verdict depends on the argument order (integers)")
        if v["ab1"] == "T" and v["ab2"] != "T":
            ctx.violation(dict(case, law="monotone"), f"t1:{v['ab1']} t2:{v['ab2']}", "pass stays pass", cls=cls,
                          what="enlarging the tolerances turned a pass into a fail (integers)")


def impl_scaled(base, A, B, comp=False):
    from fieldcompare.predicates import ScaledTolerance
    with warnings.catch_warnings():
        warnings.simplefilter("ignore")
        with np.errstate(all="ignore"):
            try:
                r = ScaledTolerance(base, use_component_magnitudes=comp)(predio.np_array(A), predio.np_array(B))
            except Exception as e:  # noqa: BLE001
                return f"X:{type(e).__name__}"
    return r


def run_scaled(ctx, n):
    rng = ctx.rng
    lines, cases = [], []
    for _ in range(n):
        fam = rng.choice(["f64", "f64", "int"])
        base = rng.choice([1e-12, 1e-6, 2.0 ** -20, 0.25, 1.0, 3.0])
        if fam == "f64":
            size = rng.choice([1, 3, 10])
            scale = rng.choice(c01.EXPS)
            a = [c01.rand_float(rng, [scale]) for _ in range(size)]
            b = [c01.rand_float(rng, [scale, scale - 3]) for _ in range(size)]
            A = {"dt": "f64", "shape": [size], "v": a}; B = {"dt": "f64", "shape": [size], "v": b}
            got = impl_scaled(base, A, B)
            m = max(max(abs(x) for x in a), max(abs(x) for x in b))
            want = rn64(Fraction(base) * Fraction(m))
            lines.append(f"scaled {f2u(base)} {predio.enc_arr(A)} {predio.enc_arr(B)}")
            cases.append(({"base": base, "a": A, "b": B}, got, want, None))
        else:
            dt = rng.choice(list(c09.INTS))
            lo, hi = c09.INTS[dt]
            size = rng.choice([1, 2, 4])
            a = [max(lo, min(hi, rng.choice([lo, hi, rng.randint(-100, 100), 2 ** 52 + 1]))) for _ in range(size)]
            b = [max(lo, min(hi, rng.randint(-100, 100))) for _ in range(size)]
            A = {"dt": dt, "shape": [size], "v": a}; B = {"dt": dt, "shape": [size], "v": b}
            got = impl_scaled(base, A, B)
            m = max(max(abs(x) for x in a), max(abs(x) for x in b))
            want = rn64(Fraction(base) * Fraction(float(m)))
            sg = 0 if dt.startswith("u") else 1
            lines.append(f"scaledint {sg} {dt[1:]} {f2u(base)} {len(a)} {' '.join(map(str, a))} {len(b)} {' '.join(map(str, b))}")
            has_min = sg == 1 and (lo in a or lo in b)
            cases.append(({"base": base, "a": A, "b": B}, got, want, "F13" if has_min else None))
    reps = ctx.lean(lines) if ctx.driver_ok else [None] * len(lines)
    for (case, got, want, cls), r in zip(cases, reps):
        gotf = float(got) if not isinstance(got, str) else got
        ctx.case(("scaled", case["base"], tuple(case["a"]["v"]), tuple(case["b"]["v"])), nontrivial=True,
                 tags=["scaled", "scaled-" + case["a"]["dt"]], sample={"case": case, "impl": str(gotf), "want": want})
        if r is not None and "model" in r and not isinstance(gotf, str):
            mu = r["model"]
            iu = "none" if np.isinf(gotf) else str(f2u(gotf))
            if mu != iu:
                ctx.mismatch(case, iu, mu, what="ScaledTolerance value impl vs model")
        if isinstance(gotf, str) or gotf != want:
            ctx.violation(dict(case, law="scaled"), str(gotf), str(want), cls=cls,
                          what="ScaledTolerance is not base * max|value| (one rounding)")


def run_scaled_comp(ctx, n):
    """ScaledTolerance(base, use_component_magnitudes=True) on (rows, k) arrays: one value per component,
    base * max(|a[:, c]|, |b[:, c]|) with one rounding — float64 and every integer type (unsigned columns without a
    zero entry, signed columns with negative entries of largest magnitude, values at the type limits)."""
    rng = ctx.rng
    lines, lidx, cases = [], [], []
    for _ in range(n):
        fam = rng.choice(["f64", "int", "int"])
        base = rng.choice([1e-12, 1e-6, 2.0 ** -20, 0.01, 0.25, 1.0, 3.0])
        k = rng.choice([2, 3])
        rows = rng.choice([1, 2, 5])
        if fam == "f64":
            dt = "f64"
            scale = rng.choice(c01.EXPS[1:-1])
            a = [c01.rand_float(rng, [scale]) for _ in range(rows * k)]
            b = [c01.rand_float(rng, [scale, scale - 3]) for _ in range(rows * k)]
            cls = None
        else:
            dt = rng.choice(list(c09.INTS))
            lo, hi = c09.INTS[dt]
            def draw():
                q = rng.random()
                if q < 0.25:
                    return rng.choice([hi, hi - 1, max(lo + 1, -hi)])
                if dt.startswith("u"):
                    return rng.randint(1, min(hi, 200))          # no zero: the smallest entry of a column is positive
                return rng.randint(max(lo + 1, -100), min(hi, 100))
            a = [draw() for _ in range(rows * k)]
            b = [draw() for _ in range(rows * k)]
            if not dt.startswith("u") and rng.random() < 0.1:
                a[rng.randrange(len(a))] = lo                     # type minimum: the class of finding F13
            cls = "F13" if (not dt.startswith("u") and (lo in a or lo in b)) else None
            sg = 0 if dt.startswith("u") else 1
            lines.append(f"scaledcompint {sg} {dt[1:]} {f2u(base)} {k} {len(a)} {' '.join(map(str, a))} "
                         f"{len(b)} {' '.join(map(str, b))}")
            lidx.append(len(cases))
        A = {"dt": dt, "shape": [rows, k], "v": a}; B = {"dt": dt, "shape": [rows, k], "v": b}
        got = impl_scaled(base, A, B, comp=True)
        want = []
        for c in range(k):
            m = max(max(abs(x) for x in a[c::k]), max(abs(x) for x in b[c::k]))
            want.append(rn64(Fraction(base) * Fraction(float(m))))
        cases.append([{"base": base, "a": A, "b": B, "per_component": True}, got, want, cls, None])
    if ctx.driver_ok and lines:
        for j, r in zip(lidx, ctx.lean(lines)):
            cases[j][4] = r
    for case, got, want, cls, r in cases:
        gl = got if isinstance(got, str) else [float(x) for x in np.asarray(got, dtype=np.float64).reshape(-1)]
        ctx.case(("scaledcomp", case["base"], case["a"]["dt"], tuple(case["a"]["v"]), tuple(case["b"]["v"])), nontrivial=True,
                 tags=["scaled-comp", "scaled-comp-" + case["a"]["dt"]], sample=None)
        if r is not None and "model" in r and r.get("hyp") == "1" and not isinstance(gl, str):
            iu = ",".join("none" if np.isinf(x) else str(f2u(x)) for x in gl)
            if r["model"] != iu:
                ctx.mismatch(case, iu, r["model"], what="per-component ScaledTolerance values impl vs model")
        if isinstance(gl, str) or gl != want:
            ctx.violation(dict(case, law="scaled"), str(gl), str(want), cls=cls,
                          what="per-component ScaledTolerance is not base * max|component| (one rounding)")


def run_history(ctx, n):
    """one predicate object reused across fields of different magnitude / dtype vs fresh objects"""
    rng = ctx.rng
    for _ in range(n):
        rel = ["num", rng.choice(c01.RELS[:12])] if rng.random() < 0.7 else ["dflt"]
        abs_ = rng.choice([["num", rng.choice(c01.ABSS)], ["scaled", 1e-6], ["scomp", 1e-6]])
        kind = rng.choice(["fuzzy", "default"])
        pred = predio.make_pred(kind, rel, abs_)
        hist = []
        for _ in range(rng.randint(3, 6)):
            shape, a, b, _, _ = gen_float_pair(rng)
            dt = rng.choice(["f64", "f64", "f32"])
            if dt == "f32":
                a = [float(np.float32(max(-1e30, min(1e30, x)))) for x in a]
                b = [float(np.float32(max(-1e30, min(1e30, x)))) for x in b]
            hist.append(({"dt": dt, "shape": shape, "v": a}, {"dt": dt, "shape": shape, "v": b}))
        reused = [predio.run_impl(kind, rel, abs_, A, B, pred=pred) for A, B in hist]
        fresh = [predio.run_impl(kind, rel, abs_, A, B) for A, B in hist]
        ctx.case(("hist", kind, str(rel), str(abs_), str(hist)), nontrivial=True, tags=["history", "hist-" + kind],
                 sample=None)
        if reused != fresh:
            ctx.violation({"law": "history-free", "kind": kind, "rel": rel, "abs": abs_,
                           "history": [{"a": A, "b": B} for A, B in hist]}, reused, fresh,
                          what="a reused predicate object answers differently from fresh ones")


# ---------------------------------------------------------------- the laws on the command-line route

def _variant(sc, run):
    """file scenario of one run of a chain group: the two files in the order they are handed to the CLI"""
    return dict(sc, res=sc[run["files"][0]], ref=sc[run["files"][1]], rtol=run["rtol"], atol=run["atol"])


def _chain_payload(ct, g, law, runs, picked):
    return dict(g, law=law, runs=[{k: r[k] for k in ("run", "level", "files", "rtol", "atol", "out")} for r in runs],
                evaluations=[{"files": r["files"], "argv_options": ct.option_argv(dict(g["sc"], rtol=r["rtol"], atol=r["atol"])),
                              "exit": r["out"]} for r in picked])


def run_cli_chains(ctx, n_vtu, rounds):
    """reflexive / symmetric / monotone for a command-line user (`fieldcompare._cli.main(["file", A, B, …])` on generated
    CSV / .vtu files with float64 fields).  One pair of files, a chain of option lists whose selected tolerance of one
    field grows level by level STARTING AT AN EXPLICIT ZERO (`-rtol NAME:0` -> `NAME:t1` -> `NAME:t2`, with / without a
    general value of the same option before or after it, or the general value itself growing), everything else fixed:
      monotone   exit 0 at level i  =>  exit 0 at every level j > i  (every field's selected rel and abs are <= there:
                 decided from the documented option semantics, NAME:V overrides the general V, absent = eps / 0),
      symmetric  swapping the two files does not change the exit class,
      reflexive  a file against ITSELF passes under the zero level and under all-zero options.
    These are the relations the property itself states, instantiated on the CLI route; in addition every run's exit code
    is compared with the Lean model of the predicate on the fields (exit 0 iff all model-equal; correspondence)."""
    from fcv import clitol_p5a as ct, cli_scen as cs
    groups = ct.chain_groups(ctx.rng, n_vtu, rounds)
    wd = cs.Workdir()
    try:
        CH = 40
        for i0 in range(0, len(groups), CH):
            chunk = groups[i0:i0 + CH]
            ran = [ct.run_chain(g, wd) for g, _ in chunk]
            variants, owner = [], []
            for gi, ((g, _), (_ok, runs)) in enumerate(zip(chunk, ran)):
                for ri, r in enumerate(runs):
                    variants.append(_variant(g["sc"], r)); owner.append((gi, ri))
            exps = ct.expected(ctx, variants)
            exp_of = dict(zip(owner, exps))
            for gi, ((g, tags), (readok, runs)) in enumerate(zip(chunk, ran)):
                key = ("cli-chain", repr(g["levels"]), repr(g["other_tokens"]), repr(cs.data_fields(g["sc"]["res"])),
                       repr(cs.data_fields(g["sc"]["ref"])))
                if not readok:
                    ctx.case(key, nontrivial=False, tags=list(tags) + ["cli-discarded-reader-sidecheck"])
                    continue
                lv = [r for r in runs if r["run"] == "level"]
                ctx.case(key, nontrivial=True, sample=None,
                         tags=list(tags) + ["chain-exits-" + "".join("0" if r["out"] == "0" else "x" for r in lv)])
                for ri, r in enumerate(runs):
                    e = exp_of[(gi, ri)]
                    if e["bad"] is not None:
                        ctx.inconsistent(_chain_payload(ct, g, "model", runs, [r]), str(e["bad"]), "bad-op")
                    elif e["model"] is not None and e["hyp"]:
                        wm = ct.want_exit(e["model"])
                        if not ct.agrees(r["out"], wm):
                            ctx.mismatch(_chain_payload(ct, g, "model", runs, [r]), "exit=" + r["out"], "exit " + str(wm),
                                         what="CLI exit status vs model verdicts of the compared fields")
                        if e["spec"] != e["model"]:
                            ctx.inconsistent(_chain_payload(ct, g, "model", runs, [r]), str(e["model"]), str(e["spec"]))
                for a in range(len(lv)):
                    for b in range(a + 1, len(lv)):
                        if lv[a]["out"] == "0" and lv[b]["out"] != "0" and ct.levels_ordered(g, a, b):
                            ctx.violation(_chain_payload(ct, g, "monotone", runs, [lv[a], lv[b]]),
                                          f"level{a}:exit={lv[a]['out']} level{b}:exit={lv[b]['out']}", "pass stays pass",
                                          what="enlarging a tolerance on the command line turned a pass into a fail")
                for r in runs:
                    if r["run"] == "swapped" and r["out"] != lv[r["level"]]["out"]:
                        ctx.violation(_chain_payload(ct, g, "symmetric", runs, [lv[r["level"]], r]),
                                      f"{lv[r['level']]['out']}/{r['out']}", "equal exit classes",
                                      what="exit status depends on which file is given as result and which as reference")
                    if r["run"] == "self" and r["out"] != "0":
                        ctx.violation(_chain_payload(ct, g, "reflexive", runs, [r]), "exit=" + r["out"], "exit 0",
                                      what="a file does not compare equal to itself under zero tolerances")
    finally:
        wd.close()


def replay_cli_chain(ctx, c):
    """re-run every evaluation of a chain group and re-check the law it was reported for"""
    from fcv import clitol_p5a as ct, cli_scen as cs
    wd = cs.Workdir()
    try:
        _ok, runs = ct.run_chain(c, wd)
    finally:
        wd.close()
    lv = [r for r in runs if r["run"] == "level"]
    for r in runs:
        print(f"replay: {r['run']} level={r['level']} files={r['files']} "
              f"options={ct.option_argv(dict(c['sc'], rtol=r['rtol'], atol=r['atol']))} -> exit class {r['out']}")
    bad = []
    for a in range(len(lv)):
        for b in range(a + 1, len(lv)):
            if lv[a]["out"] == "0" and lv[b]["out"] != "0" and ct.levels_ordered(c, a, b):
                bad.append(f"monotone: level {a} passes, level {b} fails")
    for r in runs:
        if r["run"] == "swapped" and r["out"] != lv[r["level"]]["out"]:
            bad.append(f"symmetric: level {r['level']}")
        if r["run"] == "self" and r["out"] != "0":
            bad.append("reflexive")
    print("replay: laws violated:", bad or "none")
    return bool(bad)


def run_shape_mix(ctx, n):
    """the laws across the shape exemption: the same field stored as (…,n) on one side and as (…,n,1) on the other
    (a scalar field against a one-component vector field), both argument orders, every predicate, float / integer /
    string data, identical data or one deviating entry; also 0-d against (1,).  Symmetry must hold whichever side
    carries the extra axis; identical data must compare equal in both orders."""
    rng = ctx.rng
    groups, lines, lidx = [], [], []
    for _ in range(n):
        dt = rng.choice(["f64", "f64", "f32", "i32", "u8", "i64", "str"])
        n0 = rng.choice([1, 2, 3, 7])
        base = rng.choice([[n0], [n0], [n0, 2], [n0, 1], []])
        size = 1
        for d in base:
            size *= d
        if dt in ("f64", "f32"):
            scale = rng.choice(c01.EXPS[2:-2]) if dt == "f64" else 0
            a = [c01.rand_float(rng, [scale]) for _ in range(size)]
            if dt == "f32":
                a = [float(np.float32(x)) for x in a]
                a = [x if np.isfinite(x) else 1.5 for x in a]
        elif dt == "str":
            a = [rng.choice(["a", "b", "wall", "inlet ", ""]) for _ in range(size)]
        else:
            a = [c09.rand_int(rng, dt) for _ in range(size)]
        b = list(a)
        deviates = rng.random() < 0.6
        if deviates:
            i = rng.randrange(size)
            if dt in ("f64", "f32"):
                b[i] = a[i] * 1.5 + 1.0
                if dt == "f32":
                    b[i] = float(np.float32(b[i]))
                if b[i] == a[i] or not np.isfinite(b[i]):
                    b[i] = a[i] + 1.0 if abs(a[i]) < 1e6 else 0.0
            elif dt == "str":
                b[i] = a[i] + "x"
            else:
                lo, hi = c09.INTS[dt]
                b[i] = a[i] + 1 if a[i] < hi else a[i] - 1
        ext = base + [1]
        rel = rng.choice([["dflt"], ["num", 0.0], ["num", 1e-9]])
        abs_ = rng.choice([["dflt"], ["num", 0.0]])
        for kind in ("fuzzy", "default", "exact"):
            if kind == "fuzzy" and dt not in ("f64", "f32"):
                continue          # explicit FuzzyEquality on strings / integers: no default tolerance, findings F12/F13
            As, Ae = {"dt": dt, "shape": base, "v": a}, {"dt": dt, "shape": ext, "v": a}
            Bs, Be = {"dt": dt, "shape": base, "v": b}, {"dt": dt, "shape": ext, "v": b}
            evs = {"se": (As, Be), "es": (Be, As), "es2": (Ae, Bs), "se2": (Bs, Ae), "self_se": (As, Ae), "self_es": (Ae, As)}
            g = {"kind": kind, "dt": dt, "evs": evs, "rel": rel, "abs": abs_, "dev": deviates, "model": {}}
            if dt != "f32":
                for name, (x, y) in evs.items():
                    lines.append(predio.enc_pred(kind, rel, abs_, x, y)); lidx.append((len(groups), name))
            groups.append(g)
    if ctx.driver_ok and lines:
        for (gi, name), r in zip(lidx, ctx.lean(lines)):
            groups[gi]["model"][name] = r
    for g in groups:
        kind, evs, rel, abs_ = g["kind"], g["evs"], g["rel"], g["abs"]
        v = {name: predio.run_impl(kind, rel, abs_, x, y) for name, (x, y) in evs.items()}
        case = {"kind": kind, "rel": rel, "abs": abs_, "evaluations": {k: [x, y] for k, (x, y) in evs.items()}}
        (x0, y0) = evs["se"]
        ctx.case(("shapemix", kind, g["dt"], str(x0["shape"]), tuple(x0["v"]), tuple(y0["v"]), str(rel), str(abs_)),
                 nontrivial=g["dev"], tags=["shape-mix", "shape-mix-" + kind, "shape-mix-" + g["dt"],
                                            "shape-mix-base%d" % len(x0["shape"])], sample=None)
        for name, r in g["model"].items():
            if "model" not in r:
                continue
            if r.get("hyp") == "1" and r["model"] != v[name]:
                ctx.mismatch(dict(case, evaluation=name), v[name], r["model"])
        for p, q in (("se", "es"), ("es2", "se2"), ("self_se", "self_es")):
            if v[p] != v[q]:
                ctx.violation(dict(case, law="symmetric", pair=[p, q]), f"{v[p]}/{v[q]}", "equal verdicts",
                              what="verdict depends on which side stores the scalar field with the extra axis of length 1")
        for p in ("self_se", "self_es"):
            if v[p] != "T":
                ctx.violation(dict(case, law="reflexive", evaluation=p), v[p], "T",
                              what="identical data stored as (..,n) and (..,n,1) do not compare equal")
        if g["dev"]:
            for p in ("se", "es", "es2", "se2"):
                if v[p] == "T" and (kind != "fuzzy"):
                    ctx.violation(dict(case, law="shape-mix-deviation", evaluation=p), v[p], "F",
                                  what="a deviating entry is accepted when the two sides differ by a trailing axis of length 1")


def replay_shape_mix(ctx, c):
    kind, rel, abs_ = c["kind"], c["rel"], c["abs"]
    v = {k: predio.run_impl(kind, rel, abs_, x, y) for k, (x, y) in c["evaluations"].items()}
    print("replay shape-mix verdicts:", v)
    bad = [pq for pq in (("se", "es"), ("es2", "se2"), ("self_se", "self_es")) if v[pq[0]] != v[pq[1]]]
    bad += [p for p in ("self_se", "self_es") if v[p] != "T"]
    print("replay: laws violated:", bad or "none")
    return bool(bad)


def run(ctx):
    ctx.rule = ("metamorphic groups on real predicate objects: float64 pairs (boundary-directed deviations, shapes "
                "(n,),(n,k),(n,k,k)) evaluated as (a,a),(a,b),(b,a) and at tolerance levels t1<=t2 (scalar, per-component, "
                "scaled); integer pairs of every width/signedness under Default/Exact/Fuzzy (values at the type limits, half range, "
                "+-2^53; (n,) and 0-d; signed pairs are classified by the driver as safe / type-minimum / overflowing "
                "difference); ScaledTolerance values on "
                "float and integer arrays; predicate objects reused across 3-6 fields; the same field stored as (..,n) against "
                "(..,n,1) in either argument order under every predicate (float/int/str data, 0-d against (1,)); the same laws on the command-line route "
                "(CSV / .vtu files with float64 fields, chains of -rtol / -atol option lists starting at an explicit zero, general "
                "and per-field values in either order, files swapped, file against itself); non-trivial = a != b; distinct = "
                "distinct operands+tolerances resp. (option chain, file contents)")
    ctx.assumptions += ["numpy float64 arithmetic = round-to-nearest-even (model compared on every evaluation)",
                        "command-line route: readers return the float64 data the files were written from (side-check on every "
                        "generated file), exit code 0 iff every compared field passes (C04), option semantics as documented "
                        "(NAME:V overrides the general V whatever the order; absent: rel = eps, abs = 0)"]
    run_floats(ctx, ctx.scale(1500, 150000))
    run_ints(ctx, ctx.scale(400, 30000))
    run_scaled(ctx, ctx.scale(600, 50000))
    run_scaled_comp(ctx, ctx.scale(300, 20000))
    run_history(ctx, ctx.scale(150, 10000))
    run_shape_mix(ctx, ctx.scale(300, 20000))
    run_cli_chains(ctx, n_vtu=ctx.scale(16, 70), rounds=ctx.scale(1, 12))


def replay_witness(ctx, entry):
    w = entry["witness"]
    if "fn" in w:
        from fcv import core
        return core.run_named_witness(entry)
    if w["law"] == "reflexive":
        v = predio.run_impl(w["kind"], w["t1"][0], w["t1"][1], w["a"], w["a"])
        return v != "T", f"(a,a)={v}"
    if w["law"] == "symmetric":
        v1 = predio.run_impl(w["kind"], w["t1"][0], w["t1"][1], w["a"], w["b"])
        v2 = predio.run_impl(w["kind"], w["t1"][0], w["t1"][1], w["b"], w["a"])
        return v1 != v2, f"(a,b)={v1} (b,a)={v2}"
    if w["law"] == "scaled" and w.get("per_component"):
        k = w["a"]["shape"][1]
        got = impl_scaled(w["base"], w["a"], w["b"], comp=True)
        want = []
        for c in range(k):
            m = max(max(abs(x) for x in w["a"]["v"][c::k]), max(abs(x) for x in w["b"]["v"][c::k]))
            want.append(rn64(Fraction(w["base"]) * Fraction(float(m))))
        gl = got if isinstance(got, str) else [float(x) for x in np.asarray(got, dtype=np.float64).reshape(-1)]
        return (isinstance(gl, str) or gl != want), f"per-component ScaledTolerance={gl} expected {want}"
    if w["law"] == "scaled":
        got = impl_scaled(w["base"], w["a"], w["b"])
        m = max(max(abs(x) for x in w["a"]["v"]), max(abs(x) for x in w["b"]["v"]))
        want = rn64(Fraction(w["base"]) * Fraction(float(m)))
        return (isinstance(got, str) or float(got) != want), f"ScaledTolerance={got} expected {want}"
    raise ValueError(w)


def replay(ctx, payload):
    c = payload["case"]
    law = c.get("law")
    if c.get("kind") == "cli-chain":
        if replay_cli_chain(ctx, c):
            print(f"VIOLATION property=C10 replay={payload.get('_path', '<replay>')}")
            return 1
        return 0
    if "evaluations" in c:
        if replay_shape_mix(ctx, c):
            print(f"VIOLATION property=C10 replay={payload.get('_path', '<replay>')}")
            return 1
        return 0
    if law in ("symmetric", "scaled"):
        fails, detail = replay_witness(ctx, {"witness": dict(c, kind=c.get("kind", "fuzzy"))})
        print("replay:", detail)
        if fails:
            print("VIOLATION property=C10 replay=<replayed>")
            return 1
        return 0
    print("replay: re-evaluate with harness/corr/c10.py functions; case:", c)
    return 2
