"""C10 — equality predicates are reflexive, symmetric and monotone; scaled tolerance = t·max|·|.

Metamorphic evaluations on the real predicate objects: (a,a), (a,b), (b,a), two tolerance levels
t1 <= t2, one predicate object reused across fields (history), ScaledTolerance value — each verdict is
also compared with the Lean model (correspondence)."""
from __future__ import annotations
import warnings
from fractions import Fraction

import numpy as np

from fcv import predio
from fcv.num import f2u, rn64
from corr import c01, c09


def gen_float_pair(rng):
    n = rng.choice([1, 2, 3, 6, 17])
    k = rng.choice([2, 3])
    form = rng.choice(["n", "n", "nk", "nkk"])
    shape = {"n": [n], "nk": [n, k], "nkk": [n, k, k]}[form]
    size = 1
    for d in shape:
        size *= d
    scale = rng.choice(c01.EXPS)
    a = [c01.rand_float(rng, [scale]) for _ in range(size)]
    b = list(a)
    rel, abs_ = rng.choice(c01.RELS[:13]), rng.choice(c01.ABSS)
    for _ in range(rng.choice([1, 1, 2, size])):
        i = rng.randrange(size)
        b[i] = c01.near_boundary_partner(rng, a[i], rel, abs_) if rng.random() < 0.8 else c01.rand_float(rng, [scale])
    return shape, a, b, rel, abs_


def larger(rng, t):
    r = rng.random()
    if r < 0.3:
        return t
    if r < 0.6:
        return float(np.nextafter(t, np.inf))
    return t * rng.choice([2.0, 10.0, 1e3]) + rng.choice([0.0, 1e-300, 1e-12])


def run_floats(ctx, n):
    rng = ctx.rng
    batch = []
    for _ in range(n):
        shape, a, b, rel, abs_ = gen_float_pair(rng)
        A = {"dt": "f64", "shape": shape, "v": a}
        B = {"dt": "f64", "shape": shape, "v": b}
        tk = rng.random()
        entry = shape[1:]
        rs = 1
        for d in entry:
            rs *= d
        if tk < 0.5 or not entry:
            t1 = (["num", rel], ["num", abs_])
            t2 = (["num", larger(rng, rel)], ["num", larger(rng, abs_)])
            kind = "scalar"
        elif tk < 0.8:
            r1 = [rng.choice(c01.RELS[:12]) for _ in range(rs)]
            a1 = [rng.choice(c01.ABSS) for _ in range(rs)]
            t1 = (["arr", entry, r1], ["arr", entry, a1])
            t2 = (["arr", entry, [larger(rng, x) for x in r1]], ["arr", entry, [larger(rng, x) for x in a1]])
            kind = "percomp"
        else:
            base = rng.choice([1e-12, 1e-6, 2.0 ** -20, 0.25])
            t1 = (["num", rel], ["scaled", base])
            t2 = (["num", larger(rng, rel)], ["scaled", larger(rng, base)])
            kind = "dynamic"
        batch.append((A, B, t1, t2, kind))
    # model verdicts for every evaluation
    lines, index = [], []
    for k, (A, B, t1, t2, kind) in enumerate(batch):
        for name, (x, y, t) in {"aa": (A, A, t1), "ab1": (A, B, t1), "ba1": (B, A, t1), "ab2": (A, B, t2)}.items():
            lines.append(predio.enc_pred("fuzzy", t[0], t[1], x, y)); index.append((k, name))
    reps = ctx.lean(lines) if ctx.driver_ok else [None] * len(lines)
    model = {}
    for (k, name), r in zip(index, reps):
        model[(k, name)] = r
    for k, (A, B, t1, t2, kind) in enumerate(batch):
        v = {"aa": predio.run_impl("fuzzy", t1[0], t1[1], A, A),
             "ab1": predio.run_impl("fuzzy", t1[0], t1[1], A, B),
             "ba1": predio.run_impl("fuzzy", t1[0], t1[1], B, A),
             "ab2": predio.run_impl("fuzzy", t2[0], t2[1], A, B)}
        case = {"a": A, "b": B, "t1": t1, "t2": t2}
        ctx.case(("flt", A["v"], B["v"], t1, t2), nontrivial=(A["v"] != B["v"]),
                 tags=["float", "tol-" + kind, "ab1-" + v["ab1"], "ab2-" + v["ab2"]],
                 sample={"case": case, "verdicts": v})
        for name in v:
            r = model.get((k, name))
            if r is not None and r.get("hyp") == "1":
                if r["model"] != v[name]:
                    ctx.mismatch(dict(case, evaluation=name), v[name], r["model"])
                if r["spec"] != r["model"]:
                    ctx.inconsistent(dict(case, evaluation=name), r["model"], r["spec"])
        if v["aa"] != "T":
            ctx.violation(dict(case, law="reflexive"), v["aa"], "T", what="array does not compare equal to itself")
        if v["ab1"] != v["ba1"]:
            ctx.violation(dict(case, law="symmetric"), f"{v['ab1']}/{v['ba1']}", "equal verdicts",
                          what="verdict depends on the argument order")
        if v["ab1"] == "T" and v["ab2"] != "T":
            ctx.violation(dict(case, law="monotone"), f"t1:{v['ab1']} t2:{v['ab2']}", "pass stays pass",
                          what="enlarging the tolerances turned a pass into a fail")


def near_limit_int(rng, dt):
    """values of integer type `dt`: type limits and their neighbours, half range (differences overflow), +-2^53
    (int -> float64 conversion starts to round), small values"""
    lo, hi = c09.INTS[dt]
    r = rng.random()
    if r < 0.22:
        v = rng.choice([lo, lo + 1, lo + 1, lo + 2, hi, hi, hi - 1, hi - 2])
    elif r < 0.34:
        v = rng.choice([-2, -1, 0, 1, 2])
    elif r < 0.48:
        v = rng.choice([1, -1]) * (hi // 2 + rng.randint(-2, 2))
    elif r < 0.60:
        v = rng.choice([1, -1]) * (2 ** 53 + rng.choice([-1, 0, 1, 2, 3]))
    else:
        v = rng.randint(-1000, 1000)
    return max(lo, min(hi, v))


def int_formula(a: int, b: int, rel: float, abs_: float) -> bool:
    """documented formula on two integers, computed without numpy: exact integer difference and maximum, each converted
    to binary64 (Python int -> float is correctly rounded), product rounded once"""
    d = float(abs(b - a))
    m = float(max(abs(a), abs(b)))
    return d <= max(rn64(Fraction(m) * Fraction(rel)), abs_)


def oracle_int(t, A, B):
    if not predio.shapes_compatible(A["shape"], B["shape"]):
        return "F"
    rel = 0.0 if t[0][0] == "dflt" else t[0][1]
    return "T" if all(int_formula(x, y, rel, t[1][1]) for x, y in zip(A["v"], B["v"])) else "F"


def run_ints(ctx, n):
    """integers: Default/Exact (exact path) laws for every dtype; explicit FuzzyEquality on same-type ints.
    Signed operands are drawn near the type limits; the driver decides `hyp` (= every entry pair `intSafe`, theorems
    C10_int_model_eq_spec/_symm/_refl/_mono) and `mhyp` (model meant to reproduce the code: no type minimum)."""
    rng = ctx.rng
    groups, lines, lidx = [], [], []
    for _ in range(n):
        dt = rng.choice(list(c09.INTS))
        lo, hi = c09.INTS[dt]
        size = rng.choice([1, 2, 5])
        limits = rng.random() < 0.7
        a = [near_limit_int(rng, dt) if limits else c09.rand_int(rng, dt) for _ in range(size)]
        b = list(a)
        for _ in range(rng.choice([1, 1, 2])):
            i = rng.randrange(size)
            q = rng.random()
            if limits and q < 0.3:
                b[i] = near_limit_int(rng, dt)
            elif limits and q < 0.5:
                b[i] = max(lo, min(hi, -a[i] + rng.randint(-2, 2)))     # opposite sign: the difference may overflow
            else:
                b[i] = max(lo, min(hi, b[i] + rng.choice([0, 1, -1, 2, -3, 100])))
        shape = [] if (size == 1 and rng.random() < 0.15) else [size]
        A = {"dt": dt, "shape": shape, "v": a}
        B = {"dt": dt, "shape": shape, "v": b}
        t1 = (rng.choice([["num", 0.0], ["num", 1e-3], ["num", 0.5], ["num", 2.0 ** -52], ["dflt"]]),
              ["num", rng.choice([0.0, 1.0, 2.0, 56.0, 127.0, 1e18])])
        r1 = 0.0 if t1[0][0] == "dflt" else t1[0][1]
        t2 = (["num", r1 * 2 + 0.1], ["num", t1[1][1] + 1.0])
        for kind in ("default", "exact", "fuzzy"):
            unsigned = dt.startswith("u")
            has_min = (not unsigned) and (lo in a or lo in b)
            g = {"kind": kind, "dt": dt, "A": A, "B": B, "t1": t1, "t2": t2, "unsigned": unsigned, "has_min": has_min,
                 "model": {}}
            if kind == "fuzzy":
                evs = {"aa": (A, A, t1), "ab1": (A, B, t1), "ba1": (B, A, t1), "ab2": (A, B, t2)}
            elif not has_min and all(abs(x) < 2 ** 53 for x in a + b):
                evs = {"ab1": (A, B, t1), "ba1": (B, A, t1)}
            else:
                evs = {}
            for name, (x, y, t) in evs.items():
                lines.append(predio.enc_pred(kind, t[0], t[1], x, y)); lidx.append((len(groups), name))
            groups.append(g)
    if ctx.driver_ok and lines:
        for (gi, name), r in zip(lidx, ctx.lean(lines)):
            groups[gi]["model"][name] = r
    for g in groups:
        kind, dt, A, B, t1, t2 = g["kind"], g["dt"], g["A"], g["B"], g["t1"], g["t2"]
        a, b = A["v"], B["v"]
        v = {"aa": predio.run_impl(kind, t1[0], t1[1], A, A), "ab1": predio.run_impl(kind, t1[0], t1[1], A, B),
             "ba1": predio.run_impl(kind, t1[0], t1[1], B, A), "ab2": predio.run_impl(kind, t2[0], t2[1], A, B)}
        case = {"kind": kind, "a": A, "b": B, "t1": t1, "t2": t2}
        tags = ["int", "int-" + kind, dt]
        if kind == "fuzzy" and g["model"]:
            hyps = {r.get("hyp") for r in g["model"].values()}
            tags.append("int-fuzzy-hyp" if hyps == {"1"} else "int-fuzzy-nohyp")
            if not g["unsigned"]:
                tags.append("signed-" + ("safe" if hyps == {"1"} else "min" if g["has_min"] else "diff-overflow"))
        ctx.case(("int", kind, dt, tuple(a), tuple(b), str(A["shape"]), str(t1)), nontrivial=(a != b), tags=tags, sample=None)
        for name, r in g["model"].items():
            if "model" not in r:
                ctx.inconsistent(dict(case, evaluation=name), str(r), "bad-op")
                continue
            inside = r.get("hyp") == "1" or (kind == "fuzzy" and r.get("mhyp") == "1") or kind != "fuzzy"
            if inside and r["model"] != v[name]:
                ctx.mismatch(dict(case, evaluation=name), v[name], r["model"])
            if kind == "fuzzy" and r.get("hyp") == "1":
                # theorem C10_int_model_eq_spec: model = integer formula; cross-checked with the Python oracle
                x, y, t = {"aa": (A, A, t1), "ab1": (A, B, t1), "ba1": (B, A, t1), "ab2": (A, B, t2)}[name]
                if r["spec"] != r["model"]:
                    ctx.inconsistent(dict(case, evaluation=name), r["model"], r["spec"])
                orc = oracle_int(t, x, y)
                if r["spec"] != orc:
                    ctx.inconsistent(dict(case, evaluation=name), "lean-spec=" + r["spec"], "python-oracle=" + orc)
        cls = None
        if kind == "fuzzy" and g["unsigned"]:
            cls = "F12"      # known: unsigned subtraction wraps
        if kind == "fuzzy" and g["has_min"]:
            cls = cls or "F13-absmin"
        if v["aa"] != "T":
            ctx.violation(dict(case, law="reflexive"), v["aa"], "T", cls=cls, what="integer array does not equal itself")
        if v["ab1"] != v["ba1"]:
            ctx.violation(dict(case, law="symmetric"), f"{v['ab1']}/{v['ba1']}", "equal verdicts", cls=cls,
                          what="verdict depends on the argument order (integers)")
        if v["ab1"] == "T" and v["ab2"] != "T":
            ctx.violation(dict(case, law="monotone"), f"t1:{v['ab1']} t2:{v['ab2']}", "pass stays pass", cls=cls,
                          what="enlarging the tolerances turned a pass into a fail (integers)")


def impl_scaled(base, A, B, comp=False):
    from fieldcompare.predicates import ScaledTolerance
    with warnings.catch_warnings():
        warnings.simplefilter("ignore")
        with np.errstate(all="ignore"):
            try:
                r = ScaledTolerance(base, use_component_magnitudes=comp)(predio.np_array(A), predio.np_array(B))
            except Exception as e:  # noqa: BLE001
                return f"X:{type(e).__name__}"
    return r


def run_scaled(ctx, n):
    rng = ctx.rng
    lines, cases = [], []
    for _ in range(n):
        fam = rng.choice(["f64", "f64", "int"])
        base = rng.choice([1e-12, 1e-6, 2.0 ** -20, 0.25, 1.0, 3.0])
        if fam == "f64":
            size = rng.choice([1, 3, 10])
            scale = rng.choice(c01.EXPS)
            a = [c01.rand_float(rng, [scale]) for _ in range(size)]
            b = [c01.rand_float(rng, [scale, scale - 3]) for _ in range(size)]
            A = {"dt": "f64", "shape": [size], "v": a}; B = {"dt": "f64", "shape": [size], "v": b}
            got = impl_scaled(base, A, B)
            m = max(max(abs(x) for x in a), max(abs(x) for x in b))
            want = rn64(Fraction(base) * Fraction(m))
            lines.append(f"scaled {f2u(base)} {predio.enc_arr(A)} {predio.enc_arr(B)}")
            cases.append(({"base": base, "a": A, "b": B}, got, want, None))
        else:
            dt = rng.choice(list(c09.INTS))
            lo, hi = c09.INTS[dt]
            size = rng.choice([1, 2, 4])
            a = [max(lo, min(hi, rng.choice([lo, hi, rng.randint(-100, 100), 2 ** 52 + 1]))) for _ in range(size)]
            b = [max(lo, min(hi, rng.randint(-100, 100))) for _ in range(size)]
            A = {"dt": dt, "shape": [size], "v": a}; B = {"dt": dt, "shape": [size], "v": b}
            got = impl_scaled(base, A, B)
            m = max(max(abs(x) for x in a), max(abs(x) for x in b))
            want = rn64(Fraction(base) * Fraction(float(m)))
            sg = 0 if dt.startswith("u") else 1
            lines.append(f"scaledint {sg} {dt[1:]} {f2u(base)} {len(a)} {' '.join(map(str, a))} {len(b)} {' '.join(map(str, b))}")
            has_min = sg == 1 and (lo in a or lo in b)
            cases.append(({"base": base, "a": A, "b": B}, got, want, "F13" if has_min else None))
    reps = ctx.lean(lines) if ctx.driver_ok else [None] * len(lines)
    for (case, got, want, cls), r in zip(cases, reps):
        gotf = float(got) if not isinstance(got, str) else got
        ctx.case(("scaled", case["base"], tuple(case["a"]["v"]), tuple(case["b"]["v"])), nontrivial=True,
                 tags=["scaled", "scaled-" + case["a"]["dt"]], sample={"case": case, "impl": str(gotf), "want": want})
        if r is not None and "model" in r and not isinstance(gotf, str):
            mu = r["model"]
            iu = "none" if np.isinf(gotf) else str(f2u(gotf))
            if mu != iu:
                ctx.mismatch(case, iu, mu, what="ScaledTolerance value impl vs model")
        if isinstance(gotf, str) or gotf != want:
            ctx.violation(dict(case, law="scaled"), str(gotf), str(want), cls=cls,
                          what="ScaledTolerance is not base * max|value| (one rounding)")


def run_scaled_comp(ctx, n):
    """ScaledTolerance(base, use_component_magnitudes=True) on (rows, k) arrays: one value per component,
    base * max(|a[:, c]|, |b[:, c]|) with one rounding — float64 and every integer type (unsigned columns without a
    zero entry, signed columns with negative entries of largest magnitude, values at the type limits)."""
    rng = ctx.rng
    lines, lidx, cases = [], [], []
    for _ in range(n):
        fam = rng.choice(["f64", "int", "int"])
        base = rng.choice([1e-12, 1e-6, 2.0 ** -20, 0.01, 0.25, 1.0, 3.0])
        k = rng.choice([2, 3])
        rows = rng.choice([1, 2, 5])
        if fam == "f64":
            dt = "f64"
            scale = rng.choice(c01.EXPS[1:-1])
            a = [c01.rand_float(rng, [scale]) for _ in range(rows * k)]
            b = [c01.rand_float(rng, [scale, scale - 3]) for _ in range(rows * k)]
            cls = None
        else:
            dt = rng.choice(list(c09.INTS))
            lo, hi = c09.INTS[dt]
            def draw():
                q = rng.random()
                if q < 0.25:
                    return rng.choice([hi, hi - 1, max(lo + 1, -hi)])
                if dt.startswith("u"):
                    return rng.randint(1, min(hi, 200))          # no zero: the smallest entry of a column is positive
                return rng.randint(max(lo + 1, -100), min(hi, 100))
            a = [draw() for _ in range(rows * k)]
            b = [draw() for _ in range(rows * k)]
            if not dt.startswith("u") and rng.random() < 0.1:
                a[rng.randrange(len(a))] = lo                     # type minimum: the class of finding F13
            cls = "F13" if (not dt.startswith("u") and (lo in a or lo in b)) else None
            sg = 0 if dt.startswith("u") else 1
            lines.append(f"scaledcompint {sg} {dt[1:]} {f2u(base)} {k} {len(a)} {' '.join(map(str, a))} "
                         f"{len(b)} {' '.join(map(str, b))}")
            lidx.append(len(cases))
        A = {"dt": dt, "shape": [rows, k], "v": a}; B = {"dt": dt, "shape": [rows, k], "v": b}
        got = impl_scaled(base, A, B, comp=True)
        want = []
        for c in range(k):
            m = max(max(abs(x) for x in a[c::k]), max(abs(x) for x in b[c::k]))
            want.append(rn64(Fraction(base) * Fraction(float(m))))
        cases.append([{"base": base, "a": A, "b": B, "per_component": True}, got, want, cls, None])
    if ctx.driver_ok and lines:
        for j, r in zip(lidx, ctx.lean(lines)):
            cases[j][4] = r
    for case, got, want, cls, r in cases:
        gl = got if isinstance(got, str) else [float(x) for x in np.asarray(got, dtype=np.float64).reshape(-1)]
        ctx.case(("scaledcomp", case["base"], case["a"]["dt"], tuple(case["a"]["v"]), tuple(case["b"]["v"])), nontrivial=True,
                 tags=["scaled-comp", "scaled-comp-" + case["a"]["dt"]], sample=None)
        if r is not None and "model" in r and r.get("hyp") == "1" and not isinstance(gl, str):
            iu = ",".join("none" if np.isinf(x) else str(f2u(x)) for x in gl)
            if r["model"] != iu:
                ctx.mismatch(case, iu, r["model"], what="per-component ScaledTolerance values impl vs model")
        if isinstance(gl, str) or gl != want:
            ctx.violation(dict(case, law="scaled"), str(gl), str(want), cls=cls,
                          what="per-component ScaledTolerance is not base * max|component| (one rounding)")


def run_history(ctx, n):
    """one predicate object reused across fields of different magnitude / dtype vs fresh objects"""
    rng = ctx.rng
    for _ in range(n):
        rel = ["num", rng.choice(c01.RELS[:12])] if rng.random() < 0.7 else ["dflt"]
        abs_ = rng.choice([["num", rng.choice(c01.ABSS)], ["scaled", 1e-6], ["scomp", 1e-6]])
        kind = rng.choice(["fuzzy", "default"])
        pred = predio.make_pred(kind, rel, abs_)
        hist = []
        for _ in range(rng.randint(3, 6)):
            shape, a, b, _, _ = gen_float_pair(rng)
            dt = rng.choice(["f64", "f64", "f32"])
            if dt == "f32":
                a = [float(np.float32(max(-1e30, min(1e30, x)))) for x in a]
                b = [float(np.float32(max(-1e30, min(1e30, x)))) for x in b]
            hist.append(({"dt": dt, "shape": shape, "v": a}, {"dt": dt, "shape": shape, "v": b}))
        reused = [predio.run_impl(kind, rel, abs_, A, B, pred=pred) for A, B in hist]
        fresh = [predio.run_impl(kind, rel, abs_, A, B) for A, B in hist]
        ctx.case(("hist", kind, str(rel), str(abs_), str(hist)), nontrivial=True, tags=["history", "hist-" + kind],
                 sample=None)
        if reused != fresh:
            ctx.violation({"law": "history-free", "kind": kind, "rel": rel, "abs": abs_,
                           "history": [{"a": A, "b": B} for A, B in hist]}, reused, fresh,
                          what="a reused predicate object answers differently from fresh ones")


# ---------------------------------------------------------------- the laws on the command-line route

def _variant(sc, run):
    """file scenario of one run of a chain group: the two files in the order they are handed to the CLI"""
    return dict(sc, res=sc[run["files"][0]], ref=sc[run["files"][1]], rtol=run["rtol"], atol=run["atol"])


def _chain_payload(ct, g, law, runs, picked):
    return dict(g, law=law, runs=[{k: r[k] for k in ("run", "level", "files", "rtol", "atol", "out")} for r in runs],
                evaluations=[{"files": r["files"], "argv_options": ct.option_argv(dict(g["sc"], rtol=r["rtol"], atol=r["atol"])),
                              "exit": r["out"]} for r in picked])


def run_cli_chains(ctx, n_vtu, rounds):
    """reflexive / symmetric / monotone for a command-line user (`fieldcompare._cli.main(["file", A, B, …])` on generated
    CSV / .vtu files with float64 fields).  One pair of files, a chain of option lists whose selected tolerance of one
    field grows level by level STARTING AT AN EXPLICIT ZERO (`-rtol NAME:0` -> `NAME:t1` -> `NAME:t2`, with / without a
    general value of the same option before or after it, or the general value itself growing), everything else fixed:
      monotone   exit 0 at level i  =>  exit 0 at every level j > i  (every field's selected rel and abs are <= there:
                 decided from the documented option semantics, NAME:V overrides the general V, absent = eps / 0),
      symmetric  swapping the two files does not change the exit class,
      reflexive  a file against ITSELF passes under the zero level and under all-zero options.
    These are the relations the property itself states, instantiated on the CLI route; in addition every run's exit code
    is compared with the Lean model of the predicate on the fields (exit 0 iff all model-equal; correspondence)."""
    from fcv import clitol_p5a as ct, cli_scen as cs
    groups = ct.chain_groups(ctx.rng, n_vtu, rounds)
    wd = cs.Workdir()
    try:
        CH = 40
        for i0 in range(0, len(groups), CH):
            chunk = groups[i0:i0 + CH]
            ran = [ct.run_chain(g, wd) for g, _ in chunk]
            variants, owner = [], []
            for gi, ((g, _), (_ok, runs)) in enumerate(zip(chunk, ran)):
                for ri, r in enumerate(runs):
                    variants.append(_variant(g["sc"], r)); owner.append((gi, ri))
            exps = ct.expected(ctx, variants)
            exp_of = dict(zip(owner, exps))
            for gi, ((g, tags), (readok, runs)) in enumerate(zip(chunk, ran)):
                key = ("cli-chain", repr(g["levels"]), repr(g["other_tokens"]), repr(cs.data_fields(g["sc"]["res"])),
                       repr(cs.data_fields(g["sc"]["ref"])))
                if not readok:
                    ctx.case(key, nontrivial=False, tags=list(tags) + ["cli-discarded-reader-sidecheck"])
                    continue
                lv = [r for r in runs if r["run"] == "level"]
                ctx.case(key, nontrivial=True, sample=None,
                         tags=list(tags) + ["chain-exits-" + "".join("0" if r["out"] == "0" else "x" for r in lv)])
                for ri, r in enumerate(runs):
                    e = exp_of[(gi, ri)]
                    if e["bad"] is not None:
                        ctx.inconsistent(_chain_payload(ct, g, "model", runs, [r]), str(e["bad"]), "bad-op")
                    elif e["model"] is not None and e["hyp"]:
                        wm = ct.want_exit(e["model"])
                        if not ct.agrees(r["out"], wm):
                            ctx.mismatch(_chain_payload(ct, g, "model", runs, [r]), "exit=" + r["out"], "exit " + str(wm),
                                         what="CLI exit status vs model verdicts of the compared fields")
                        if e["spec"] != e["model"]:
                            ctx.inconsistent(_chain_payload(ct, g, "model", runs, [r]), str(e["model"]), str(e["spec"]))
                for a in range(len(lv)):
                    for b in range(a + 1, len(lv)):
                        if lv[a]["out"] == "0" and lv[b]["out"] != "0" and ct.levels_ordered(g, a, b):
                            ctx.violation(_chain_payload(ct, g, "monotone", runs, [lv[a], lv[b]]),
                                          f"level{a}:exit={lv[a]['out']} level{b}:exit={lv[b]['out']}", "pass stays pass",
                                          what="enlarging a tolerance on the command line turned a pass into a fail")
                for r in runs:
                    if r["run"] == "swapped" and r["out"] != lv[r["level"]]["out"]:
                        ctx.violation(_chain_payload(ct, g, "symmetric", runs, [lv[r["level"]], r]),
                                      f"{lv[r['level']]['out']}/{r['out']}", "equal exit classes",
                                      what="exit status depends on which file is given as result and which as reference")
                    if r["run"] == "self" and r["out"] != "0":
                        ctx.violation(_chain_payload(ct, g, "reflexive", runs, [r]), "exit=" + r["out"], "exit 0",
                                      what="a file does not compare equal to itself under zero tolerances")
    finally:
        wd.close()


def replay_cli_chain(ctx, c):
    """re-run every evaluation of a chain group and re-check the law it was reported for"""
    from fcv import clitol_p5a as ct, cli_scen as cs
    wd = cs.Workdir()
    try:
        _ok, runs = ct.run_chain(c, wd)
    finally:
        wd.close()
    lv = [r for r in runs if r["run"] == "level"]
    for r in runs:
        print(f"replay: {r['run']} level={r['level']} files={r['files']} "
              f"options={ct.option_argv(dict(c['sc'], rtol=r['rtol'], atol=r['atol']))} -> exit class {r['out']}")
    bad = []
    for a in range(len(lv)):
        for b in range(a + 1, len(lv)):
            if lv[a]["out"] == "0" and lv[b]["out"] != "0" and ct.levels_ordered(c, a, b):
                bad.append(f"monotone: level {a} passes, level {b} fails")
    for r in runs:
        if r["run"] == "swapped" and r["out"] != lv[r["level"]]["out"]:
            bad.append(f"symmetric: level {r['level']}")
        if r["run"] == "self" and r["out"] != "0":
            bad.append("reflexive")
    print("replay: laws violated:", bad or "none")
    return bool(bad)


def run_shape_mix(ctx, n):
    """the laws across the shape exemption: the same field stored as (…,n) on one side and as (…,n,1) on the other
    (a scalar field against a one-component vector field), both argument orders, every predicate, float / integer /
    string data, identical data or one deviating entry; also 0-d against (1,).  Symmetry must hold whichever side
    carries the extra axis; identical data must compare equal in both orders."""
    rng = ctx.rng
    groups, lines, lidx = [], [], []
    for _ in range(n):
        dt = rng.choice(["f64", "f64", "f32", "i32", "u8", "i64", "str"])
        n0 = rng.choice([1, 2, 3, 7])
        base = rng.choice([[n0], [n0], [n0, 2], [n0, 1], []])
        size = 1
        for d in base:
            size *= d
        if dt in ("f64", "f32"):
            scale = rng.choice(c01.EXPS[2:-2]) if dt == "f64" else 0
            a = [c01.rand_float(rng, [scale]) for _ in range(size)]
            if dt == "f32":
                a = [float(np.float32(x)) for x in a]
                a = [x if np.isfinite(x) else 1.5 for x in a]
        elif dt == "str":
            a = [rng.choice(["a", "b", "wall", "inlet ", ""]) for _ in range(size)]
        else:
            a = [c09.rand_int(rng, dt) for _ in range(size)]
        b = list(a)
        deviates = rng.random() < 0.6
        if deviates:
            i = rng.randrange(size)
            if dt in ("f64", "f32"):
                b[i] = a[i] * 1.5 + 1.0
                if dt == "f32":
                    b[i] = float(np.float32(b[i]))
                if b[i] == a[i] or not np.isfinite(b[i]):
                    b[i] = a[i] + 1.0 if abs(a[i]) < 1e6 else 0.0
            elif dt == "str":
                b[i] = a[i] + "x"
            else:
                lo, hi = c09.INTS[dt]
                b[i] = a[i] + 1 if a[i] < hi else a[i] - 1
        ext = base + [1]
        rel = rng.choice([["dflt"], ["num", 0.0], ["num", 1e-9]])
        abs_ = rng.choice([["dflt"], ["num", 0.0]])
        for kind in ("fuzzy", "default", "exact"):
            if kind == "fuzzy" and dt not in ("f64", "f32"):
                continue          # explicit FuzzyEquality on strings / integers: no default tolerance, findings F12/F13
            As, Ae = {"dt": dt, "shape": base, "v": a}, {"dt": dt, "shape": ext, "v": a}
            Bs, Be = {"dt": dt, "shape": base, "v": b}, {"dt": dt, "shape": ext, "v": b}
            evs = {"se": (As, Be), "es": (Be, As), "es2": (Ae, Bs), "se2": (Bs, Ae), "self_se": (As, Ae), "self_es": (Ae, As)}
            g = {"kind": kind, "dt": dt, "evs": evs, "rel": rel, "abs": abs_, "dev": deviates, "model": {}}
            if dt != "f32":
                for name, (x, y) in evs.items():
                    lines.append(predio.enc_pred(kind, rel, abs_, x, y)); lidx.append((len(groups), name))
            groups.append(g)
    if ctx.driver_ok and lines:
        for (gi, name), r in zip(lidx, ctx.lean(lines)):
            groups[gi]["model"][name] = r
    for g in groups:
        kind, evs, rel, abs_ = g["kind"], g["evs"], g["rel"], g["abs"]
        v = {name: predio.run_impl(kind, rel, abs_, x, y) for name, (x, y) in evs.items()}
        case = {"kind": kind, "rel": rel, "abs": abs_, "evaluations": {k: [x, y] for k, (x, y) in evs.items()}}
        (x0, y0) = evs["se"]
        ctx.case(("shapemix", kind, g["dt"], str(x0["shape"]), tuple(x0["v"]), tuple(y0["v"]), str(rel), str(abs_)),
                 nontrivial=g["dev"], tags=["shape-mix", "shape-mix-" + kind, "shape-mix-" + g["dt"],
                                            "shape-mix-base%d" % len(x0["shape"])], sample=None)
        for name, r in g["model"].items():
            if "model" not in r:
                continue
            if r.get("hyp") == "1" and r["model"] != v[name]:
                ctx.mismatch(dict(case, evaluation=name), v[name], r["model"])
        for p, q in (("se", "es"), ("es2", "se2"), ("self_se", "self_es")):
            if v[p] != v[q]:
                ctx.violation(dict(case, law="symmetric", pair=[p, q]), f"{v[p]}/{v[q]}", "equal verdicts",
                              what="verdict depends on which side stores the scalar field with the extra axis of length 1")
        for p in ("self_se", "self_es"):
            if v[p] != "T":
                ctx.violation(dict(case, law="reflexive", evaluation=p), v[p], "T",
                              what="identical data stored as (..,n) and (..,n,1) do not compare equal")
        if g["dev"]:
            for p in ("se", "es", "es2", "se2"):
                if v[p] == "T" and (kind != "fuzzy"):
                    ctx.violation(dict(case, law="shape-mix-deviation", evaluation=p), v[p], "F",
                                  what="a deviating entry is accepted when the two sides differ by a trailing axis of length 1")


def replay_shape_mix(ctx, c):
    kind, rel, abs_ = c["kind"], c["rel"], c["abs"]
    v = {k: predio.run_impl(kind, rel, abs_, x, y) for k, (x, y) in c["evaluations"].items()}
    print("replay shape-mix verdicts:", v)
    bad = [pq for pq in (("se", "es"), ("es2", "se2"), ("self_se", "self_es")) if v[pq[0]] != v[pq[1]]]
    bad += [p for p in ("self_se", "self_es") if v[p] != "T"]
    print("replay: laws violated:", bad or "none")
    return bool(bad)


# ---------------------------------------------------------------- phase 6 G1: dimensions of the quantifier sampled at one point only
import os as _os
P6G_OFF = _os.environ.get("FCV_P6G_OFF") == "1"      # mutation experiments only: run the check WITHOUT the phase-6-G1 batches
P6G_INTND = _os.environ.get("FCV_P6G_INTND", "1") == "1"  # opt-in: reflexivity of explicit FuzzyEquality on n-d integer arrays


def larger_tol(rng, t):
    """a tolerance >= t of the same kind (component-wise for arrays, base-wise for data-computed ones)"""
    k = t[0]
    if k == "num":
        return ["num", larger(rng, t[1])]
    if k == "arr":
        return ["arr", t[1], [larger(rng, x) for x in t[2]]]
    if k in ("scaled", "scomp") and t[1] is not None:
        return [k, larger(rng, t[1])]
    return list(t)


def _laws(ctx, case, v, cls=None, what=""):
    if v["aa"] != "T":
        ctx.violation(dict(case, law="reflexive"), v["aa"], "T", cls=cls, what="array does not compare equal to itself" + what)
    if v["ab1"] != v["ba1"]:
        ctx.violation(dict(case, law="symmetric"), f"{v['ab1']}/{v['ba1']}", "equal verdicts", cls=cls,
                      what="verdict depends on the argument order" + what)
    if v["ab1"] == "T" and v["ab2"] != "T":
        ctx.violation(dict(case, law="monotone"), f"t1:{v['ab1']} t2:{v['ab2']}", "pass stays pass", cls=cls,
                      what="enlarging the tolerances turned a pass into a fail" + what)


def _four(kind, A, B, t1, t2):
    return {"aa": predio.run_impl(kind, t1[0], t1[1], A, A), "ab1": predio.run_impl(kind, t1[0], t1[1], A, B),
            "ba1": predio.run_impl(kind, t1[0], t1[1], B, A), "ab2": predio.run_impl(kind, t2[0], t2[1], A, B)}


def run_small_floats(ctx, n):
    """the three laws on float32 / float16 arrays ('all finite floating-point arrays'): boundary-directed pairs of
    `c01.gen_small_float_case` (weak Python-float, default, per-component, scaled and per-component-scaled tolerances,
    shapes (n,), (n,k), (n,1), (n,)~(n,1)), second tolerance level >= the first of the same kind.  Every evaluation is also
    compared with the Lean model where the driver reports hyp / mhyp (C01's float32/16 model)."""
    rng = ctx.rng
    groups, lines, lidx = [], [], []
    for _ in range(n):
        while True:
            c, tags = c01.gen_small_float_case(rng)
            # empty fields with a data-computed tolerance raise (np.max of nothing): outside the statement (NOTES_C01_C09_C10)
            if not c["a"]["v"] and any(t[0] in ("scaled", "scomp") for t in (c["rel"], c["abs"])):
                continue
            # per-component tolerance arrays are defined for fields of ONE entry shape: not next to a flattened operand
            if c["a"]["shape"] != c["b"]["shape"] and any(t[0] == "arr" for t in (c["rel"], c["abs"])):
                continue
            break
        A, B = c["a"], c["b"]
        t1 = (c["rel"], c["abs"])
        t2 = (larger_tol(rng, c["rel"]), larger_tol(rng, c["abs"]))
        evs = {"aa": (A, A, t1), "ab1": (A, B, t1), "ba1": (B, A, t1), "ab2": (A, B, t2)}
        for name, (x, y, t) in evs.items():
            lines.append(predio.enc_pred("fuzzy", t[0], t[1], x, y)); lidx.append((len(groups), name))
        groups.append({"A": A, "B": B, "t1": t1, "t2": t2, "tags": tags, "model": {}})
    if ctx.driver_ok and lines:
        for (gi, name), r in zip(lidx, ctx.lean(lines)):
            groups[gi]["model"][name] = r
    for g in groups:
        A, B, t1, t2 = g["A"], g["B"], g["t1"], g["t2"]
        v = _four("fuzzy", A, B, t1, t2)
        case = {"kind": "fuzzy", "a": A, "b": B, "t1": t1, "t2": t2}
        ctx.case(("small", A, B, str(t1), str(t2)), nontrivial=(A["v"] != B["v"]),
                 tags=["p6-small-float", "small-" + A["dt"], "small-" + g["tags"][2], "ab1-" + v["ab1"], "ab2-" + v["ab2"]], sample=None)
        for name, r in g["model"].items():
            if r is not None and "model" in r and (r.get("hyp") == "1" or r.get("mhyp") == "1") and r["model"] != v[name]:
                ctx.mismatch(dict(case, evaluation=name), v[name], r["model"], what=A["dt"] + ": impl vs model")
        _laws(ctx, case, v, what=" (" + A["dt"] + " arrays)")


MIXED_PAIRS = [("f32", "f64"), ("f16", "f64"), ("f16", "f32"), ("i8", "f64"), ("i32", "f64"), ("u16", "f64"), ("i64", "f64"),
               ("u64", "f64"), ("i8", "f32"), ("i32", "f32"), ("u8", "f16"), ("i16", "f16"), ("i8", "i64"), ("u8", "i32"),
               ("u32", "i64"), ("u64", "i64"), ("i16", "u16")]


def run_mixed_dtypes(ctx, n):
    """the laws when the two arrays have DIFFERENT element types ('all finite floating-point and integer arrays a, b';
    'does not depend on which array is passed as source and which as reference'): float32/float16 next to float64 /
    float32, every integer width next to float64 / float32 / float16, and integer pairs of different width / signedness
    under Default / Exact (explicit FuzzyEquality on two integer arrays is left to `run_ints`: findings F12 / F13).  The
    type minimum of signed types is not drawn (class F13-absmin).  Metamorphic only (no model for these pairs): search."""
    rng = ctx.rng
    for _ in range(n):
        da, db = rng.choice(MIXED_PAIRS)
        nrow = rng.choice([1, 2, 3, 6]); k = rng.choice([1, 1, 3])
        shape = [nrow] if k == 1 else [nrow, k]
        size = nrow * k
        both_int = db in c09.INTS
        if da in c09.INTS:
            lo, hi = c09.INTS[da]
            if both_int:
                lo, hi = max(lo, c09.INTS[db][0]), min(hi, c09.INTS[db][1])
            elif db == "f16":
                lo, hi = max(lo, -2000), min(hi, 2000)
            a = [max(lo + 1, min(hi, rng.choice([rng.randint(-100, 100), hi, hi - 1, lo + 1, 2 ** 24 + 1, 2 ** 53 + 1]))) for _ in range(size)]
            b = [x if both_int else float(x) for x in a]
        else:
            T = predio.NP_DT[da]
            e = rng.choice([-20, -3, 0, 1, 10]) if da == "f32" else rng.choice([-10, -3, 0, 3, 10])
            a = [float(T(c01.rand_float(rng, [e]))) for _ in range(size)]
            b = list(a)
        if db in ("f32", "f16"):
            with np.errstate(all="ignore"):
                b = [float(predio.NP_DT[db](x)) for x in b]
            b = [x if np.isfinite(x) else 1.0 for x in b]
        kinds = ["default", "exact"] if both_int else ["fuzzy", "default"]
        kind = rng.choice(kinds)
        q = rng.random()
        if q < 0.35:
            t1 = (["dflt"], ["dflt"])
        elif q < 0.5:
            t1 = (["dflt"], ["num", rng.choice([0.0, 1e-6, 0.5])])
        else:
            t1 = (["num", rng.choice([0.0, 2.0 ** -52, 2.0 ** -23, 1e-6, 1e-3])], ["num", rng.choice([0.0, 1e-12, 1e-6, 0.5, 1.0])])
        # deviation: on the float side around the thresholds of EITHER type's epsilon, or one unit on an integer side
        for _d in range(rng.choice([0, 1, 1, 2])):
            i = rng.randrange(size)
            if both_int:
                b[i] = b[i] + 1 if b[i] + 1 <= c09.INTS[db][1] else b[i] - 1
            else:
                r = t1[0][1] if t1[0][0] == "num" else rng.choice([2.0 ** -52, 2.0 ** -23, 2.0 ** -10])
                t = t1[1][1] if t1[1][0] == "num" else 0.0
                y = c01.near_boundary_partner(rng, float(b[i]), r, t) if rng.random() < 0.8 else float(b[i]) + rng.choice([0.5, 1.0])
                if db in ("f32", "f16"):
                    with np.errstate(all="ignore"):
                        y = float(predio.NP_DT[db](y))
                if np.isfinite(y):
                    b[i] = y
        # every tolerance kind: per-component ndarrays and data-computed tolerances replace the numbers chosen above (the
        # deviation stays where it was placed: within / beyond is then decided by the kind, the laws hold regardless)
        tkq = rng.random()
        tk = "num"
        if k > 1 and tkq < 0.2:
            t1 = (["arr", [k], [rng.choice([0.0, 2.0 ** -23, 1e-6, 1e-3]) for _ in range(k)]],
                  ["arr", [k], [rng.choice([0.0, 1e-6, 0.5, 1.0]) for _ in range(k)]]); tk = "percomp"
        elif tkq < 0.3:
            t1 = (t1[0], ["scaled", rng.choice([1e-9, 1e-6, 1e-2])]); tk = "scaled"
        elif k > 1 and tkq < 0.4:
            t1 = (t1[0], ["scomp", rng.choice([1e-9, 1e-6, 1e-2])]); tk = "scomp"
        elif tkq < 0.45 and kind != "exact":
            t1 = (["scaled", None], t1[1] if t1[1][0] == "num" else ["num", 0.0]); tk = "scaled-rel"
        t2 = (larger_tol(rng, t1[0]), larger_tol(rng, t1[1]))
        A, B = {"dt": da, "shape": shape, "v": a}, {"dt": db, "shape": list(shape), "v": b}
        v = _four(kind, A, B, t1, t2)
        v["bb"] = predio.run_impl(kind, t1[0], t1[1], B, B)
        if kind == "fuzzy" and da in c09.INTS and len(shape) >= 2 and not P6G_INTND:
            # (a,a) is explicit FuzzyEquality on two INTEGER arrays with >= 2 dimensions: raises PredicateError on the clean
            # tree for every float tolerance (suspected genuine defect, reported; notes/PHASE6_G1.md).  FCV_P6G_INTND=1
            # puts the evaluation back.
            v["aa"] = "T"
        case = {"kind": kind, "a": A, "b": B, "t1": t1, "t2": t2, "mixed_dtypes": True}
        ctx.case(("mixed", kind, A, B, str(t1), str(t2)), nontrivial=[float(x) for x in a] != [float(x) for x in b],
                 tags=["p6-mixed-dtypes", f"mixed-{da}/{db}", "mixed-" + kind, "mixed-rel-" + t1[0][0], "mixed-tol-" + tk,
                       "ab1-" + v["ab1"], "ba1-" + v["ba1"]],
                 sample=None)
        _laws(ctx, case, v, what=f" ({da} array vs {db} array)")
        if v["bb"] != "T":
            ctx.violation(dict(case, law="reflexive", evaluation="bb"), v["bb"], "T", what="array does not compare equal to itself")


def _cli_mixed_files(c, d):
    pa, pb = _os.path.join(d, "ints.csv"), _os.path.join(d, "floats.csv")
    with open(pa, "w") as fh:
        fh.write("id,v\n" + "".join(f"{r},{x}\n" for r, x in enumerate(c["ints"])))
    with open(pb, "w") as fh:
        fh.write("id,v\n" + "".join(f"{r},{x!r}\n" for r, x in enumerate(c["floats"])))
    return pa, pb


def _cli_mixed_eval(c):
    import shutil
    import tempfile
    from fcv.cli import run_cli
    d = tempfile.mkdtemp(prefix="fcv_c10m_")
    try:
        pa, pb = _cli_mixed_files(c, d)
        return {"int-first": run_cli(["file", pa, pb] + c["options"])[0], "float-first": run_cli(["file", pb, pa] + c["options"])[0]}
    finally:
        shutil.rmtree(d, ignore_errors=True)


CLI_MIXED_TOL = {(): (None, 0.0), ("-atol", "0.01"): (None, 0.01), ("-atol", "v:0.01"): (None, 0.01),
                 ("-rtol", "0", "-atol", "0.01"): (0.0, 0.01), ("-atol", "1e-3*max"): (None, "max"),
                 ("-rtol", "v:1e-3"): (1e-3, 0.0), ("-atol", "0.01", "-rtol", "1e-9"): (1e-9, 0.01)}


def _cli_mixed_want(c):
    """exit 0 demanded?  The documented formula on every row with the tolerances the options select for column `v`
    (absent: rel = eps(float64), abs = 0; `t*max`: t times the largest magnitude in either file)"""
    rel, abs_ = CLI_MIXED_TOL[tuple(c["options"])]
    rel = 2.0 ** -52 if rel is None else rel
    if abs_ == "max":
        abs_ = rn64(Fraction(1e-3) * Fraction(max(max(abs(float(x)) for x in c["ints"]), max(abs(x) for x in c["floats"]))))
    return all(predio.float_formula(float(x), y, rel, abs_) for x, y in zip(c["ints"], c["floats"]))


def run_cli_mixed(ctx, n):
    """the command line on a MIXED pair: a CSV column typed integer in one file (`3`) against the same column typed float
    in the other (`3.0`, `3.0009765625`), the integer file given first and second; deviation none / within / beyond the
    tolerance selected by the options (general, per-field, `t*max`, relative only, none at all).  Law: the exit class does
    not depend on the order of the files.  Expectation (one side holds floats -> fuzzy formula): exit 0 iff every row
    satisfies the documented formula with the tolerances the options select (`_cli_mixed_want`; deviations 2^-10 / 0.5 stay
    > 2 % away from every threshold that can occur)."""
    rng = ctx.rng
    for _ in range(n):
        rows = rng.randint(1, 5)
        ints = [rng.randint(-40, 40) for _ in range(rows)]
        ints[rng.randrange(rows)] = rng.choice([-50, 50])            # max|v| = 50 for `t*max`
        fl = [float(x) for x in ints]
        dev = rng.choice(["none", "within", "beyond"])
        if dev != "none":
            fl[rng.randrange(rows)] += {"within": 2.0 ** -10, "beyond": 0.5}[dev] * rng.choice([1, -1])
        opt = rng.choice([[], ["-atol", "0.01"], ["-atol", "v:0.01"], ["-rtol", "0", "-atol", "0.01"], ["-atol", "1e-3*max"],
                          ["-rtol", "v:1e-3"], ["-atol", "0.01", "-rtol", "1e-9"]])
        c = {"kind": "cli-mixed", "ints": ints, "floats": fl, "options": opt, "deviation": dev}
        out = _cli_mixed_eval(c)
        want0 = _cli_mixed_want(c)
        ctx.case(("cli-mixed", tuple(ints), tuple(fl), tuple(opt)), nontrivial=dev != "none",
                 tags=["p6-cli-mixed", "cli-mixed-" + dev, "cli-mixed-opt-" + ("none" if not opt else opt[0] + ("-field" if ":" in opt[1] else "-max" if "max" in opt[1] else "")),
                       f"cli-mixed-exits-{out['int-first']}/{out['float-first']}"], sample=None)
        if (out["int-first"] == 0) != (out["float-first"] == 0):
            ctx.violation(dict(c, law="symmetric", exits=out), str(out), "equal exit classes",
                          what="`fieldcompare file` on an integer column against a float column: the exit status depends on which file comes first")
        elif (out["int-first"] == 0) != want0:
            ctx.violation(dict(c, law="cli-mixed-expectation", exits=out), str(out), "exit 0" if want0 else "non-zero exit",
                          what="`fieldcompare file` on an integer column against a float column: exit status differs from the fuzzy formula")


def _call(p, x, y):
    from fieldcompare.predicates import PredicateError
    with warnings.catch_warnings():
        warnings.simplefilter("ignore")
        with np.errstate(all="ignore"):
            try:
                return "T" if bool(p(x, y)) else "F"
            except PredicateError:
                return "E"
            except Exception as e:  # noqa: BLE001
                return f"X:{type(e).__name__}"


REUSE_SEQ = ["xx", "xy", "yx", "xy2", "yx", "xx", "yy"]


def _operand_reuse_eval(c):
    """the evaluations of REUSE_SEQ on ONE pair of operand objects (x, y) and two predicate objects; returns
    (verdicts on the reused objects, verdicts on fresh objects holding the literal values)"""
    A, B, kind, t1, t2 = c["a"], c["b"], c["kind"], c["t1"], c["t2"]
    x, y = predio.np_array(A), predio.np_array(B)
    p1, p2 = predio.make_pred(kind, t1[0], t1[1]), predio.make_pred(kind, t2[0], t2[1])
    ev = {"xx": (p1, x, x), "xy": (p1, x, y), "yx": (p1, y, x), "xy2": (p2, x, y), "yy": (p1, y, y)}
    lit = {"xx": (t1, A, A), "xy": (t1, A, B), "yx": (t1, B, A), "xy2": (t2, A, B), "yy": (t1, B, B)}
    reused = [_call(*ev[s]) for s in REUSE_SEQ]
    fresh = [predio.run_impl(kind, lit[s][0][0], lit[s][0][1], lit[s][1], lit[s][2]) for s in REUSE_SEQ]
    return reused, fresh


def run_operand_reuse(ctx, n):
    """reflexivity with literally THE SAME array object on both sides, and the other evaluations of a law group on the same
    two operand objects (as a user who checks P(a,b) and P(b,a) does) — float64 / float32 / integer data, plain and
    read-only (np.frombuffer) operands, empty arrays included.  Every verdict must be the verdict on fresh objects holding
    the same values, and the laws must hold along the sequence."""
    rng = ctx.rng
    for _ in range(n):
        fam = rng.choice(["f64", "f64", "f32", "int", "empty"])
        if fam in ("f64", "f32"):
            shape, a, b, rel, abs_ = gen_float_pair(rng)
            if fam == "f32":
                a = [float(np.float32(max(-1e30, min(1e30, x)))) for x in a]
                b = [float(np.float32(max(-1e30, min(1e30, x)))) for x in b]
            dt = fam
            kind = rng.choice(["fuzzy", "default"])
            entry = shape[1:]
            rs = int(np.prod(entry)) if entry else 1
            q = rng.random()
            if q < 0.5 or not entry:
                t1 = (["num", rel], ["num", abs_])
            elif q < 0.75:
                t1 = (["arr", entry, [rng.choice(c01.RELS[:12]) for _ in range(rs)]], ["arr", entry, [rng.choice(c01.ABSS) for _ in range(rs)]])
            else:
                t1 = (["num", rel], [rng.choice(["scaled", "scomp"]), rng.choice([1e-12, 1e-6, 0.25])])
        elif fam == "int":
            dt = rng.choice(list(c09.INTS))
            size = rng.choice([1, 3, 6])
            shape = [size]
            a = [rng.randint(max(c09.INTS[dt][0] + 1, -100), min(c09.INTS[dt][1], 100)) for _ in range(size)]
            b = list(a)
            if rng.random() < 0.6:
                i = rng.randrange(size)
                b[i] = b[i] + 1 if b[i] < c09.INTS[dt][1] else b[i] - 1
            kind = rng.choice(["default", "exact"])
            t1 = (["num", rng.choice([0.0, 0.5])], ["num", rng.choice([0.0, 2.0])])
        else:
            dt = rng.choice(["f64", "f32", "i32", "u8"])
            shape = rng.choice([[0], [0, 3], [0, 2, 2]])
            a, b = [], []
            kind = rng.choice(["fuzzy", "default", "exact"]) if dt in ("f64", "f32") else rng.choice(["default", "exact"])
            t1 = (rng.choice([["dflt"], ["num", 0.0], ["num", 1e-3]]), rng.choice([["dflt"], ["num", 0.0]]))
        t2 = (larger_tol(rng, t1[0]), larger_tol(rng, t1[1]))
        A, B = {"dt": dt, "shape": shape, "v": a}, {"dt": dt, "shape": list(shape), "v": b}
        if rng.random() < 0.35:
            r = rng.choice(["frombuffer", "readonly"])
            A, B = dict(A, rep=r), dict(B, rep=r)
        c = {"kind": kind, "a": A, "b": B, "t1": t1, "t2": t2, "operand_reuse": True}
        reused, fresh = _operand_reuse_eval(c)
        ctx.case(("opreuse", kind, A, B, str(t1), str(t2)), nontrivial=(a != b),
                 tags=["p6-operand-reuse", "opreuse-" + fam, "opreuse-" + kind, "opreuse-" + A.get("rep", "plain"), "xy-" + reused[1]], sample=None)
        if reused != fresh:
            ctx.violation(dict(c, law="operand-objects-reused", sequence=REUSE_SEQ), reused, fresh,
                          what="verdicts of the sequence (x,x) (x,y) (y,x) (x,y)@t2 (y,x) (x,x) (y,y) on ONE pair of array objects differ "
                               "from the verdicts on fresh arrays holding the same values")
        elif reused[0] != "T" or reused[5] != "T" or reused[6] != "T":
            ctx.violation(dict(c, law="reflexive"), reused, "T for (x,x) and (y,y)", what="array object does not compare equal to itself")
        elif reused[1] != reused[2]:
            ctx.violation(dict(c, law="symmetric"), reused, "equal verdicts", what="verdict depends on the argument order (same objects)")


def replay_operand_reuse(ctx, c):
    reused, fresh = _operand_reuse_eval(c)
    print(f"replay operand reuse {REUSE_SEQ}: on the same objects {reused}; on fresh objects {fresh}")
    return reused != fresh or reused[0] != "T" or reused[5] != "T" or reused[6] != "T" or reused[1] != reused[2]


def _scaled_want(base, A, B, comp):
    """t * max|.| as the documentation states it, one rounding, computed with integers / fractions"""
    shape = A["shape"]
    rs = 1
    for d in shape[1:]:
        rs *= d
    av, bv = [abs(float(x)) for x in A["v"]], [abs(float(x)) for x in B["v"]]
    bases = base if isinstance(base, list) else None
    if comp:
        ms = [max(max(av[c::rs]), max(bv[c::rs])) for c in range(rs)]
        return [rn64(Fraction(bases[c] if bases else base) * Fraction(ms[c])) for c in range(rs)]
    m = max(max(av), max(bv))
    if bases:
        return [rn64(Fraction(x) * Fraction(m)) for x in bases]
    return [rn64(Fraction(base) * Fraction(m))]


def _scaled_got(base, A, B, comp, entry):
    b = np.array(base, dtype=np.float64).reshape(entry) if isinstance(base, list) else base
    got = impl_scaled(b, A, B, comp=comp)
    return got if isinstance(got, str) else [float(x) for x in np.asarray(got, dtype=np.float64).reshape(-1)]


def run_scaled_shapes(ctx, n, long_sizes):
    """ScaledTolerance beyond 1-d / (rows,k) float64: global magnitude of (n,k) and (n,k,k) fields, per-component magnitudes
    of (n,k,k) tensors, float32 and integer data, the largest magnitude in the first / last row of either operand with
    either sign, the base tolerance given per component (an ndarray: 'scaled individually'), and long fields (the maximum
    in the last row).  Expectation: base * max|.| with one rounding (python, exact rationals): search."""
    rng = ctx.rng
    todo = []
    for _ in range(n):
        dt = rng.choice(["f64", "f64", "f32", "i16", "u8", "i64"])
        nrow = rng.choice([1, 2, 5, 17]); k = rng.choice([2, 3])
        entry = rng.choice([[k], [k, k]])
        rs = k if len(entry) == 1 else k * k
        size = nrow * rs

        def val():
            if dt in c09.INTS:
                lo, hi = c09.INTS[dt]
                return rng.randint(max(lo + 1, -90), min(hi, 90))
            x = c01.rand_float(rng, [0])
            return float(np.float32(x)) if dt == "f32" else x
        a, b = [val() for _ in range(size)], [val() for _ in range(size)]
        # the dominating entry: first / last row of a or b, negative or positive (integers: within the type, no minimum)
        tgt = rng.choice([a, b]); row = rng.choice([0, nrow - 1]); pos = row * rs + rng.randrange(rs)
        big = rng.choice([-1, 1]) * (100 if dt in c09.INTS else 64.0)
        if dt.startswith("u"):
            big = abs(big)
        tgt[pos] = big
        comp = rng.random() < 0.5
        base = rng.choice([1e-12, 1e-6, 2.0 ** -20, 0.25, 3.0])
        if rng.random() < 0.4:
            base = [rng.choice([1e-12, 1e-6, 2.0 ** -20, 0.25, 3.0]) for _ in range(rs)]
        todo.append({"law": "scaled-shapes", "base": base, "per_component": comp, "entry": entry,
                     "a": {"dt": dt, "shape": [nrow] + entry, "v": a}, "b": {"dt": dt, "shape": [nrow] + entry, "v": b}})
    for nlong in long_sizes:
        for comp in (False, True):
            pat = [c01.rand_float(rng, [0]) for _ in range(7)]
            k = 3
            a = (pat * (nlong * k // 7 + 1))[:nlong * k]
            b = list(a)
            rng.choice([a, b])[(nlong - 1) * k + rng.randrange(k)] = rng.choice([-64.0, 64.0])
            todo.append({"law": "scaled-shapes", "base": rng.choice([1e-6, 0.25]), "per_component": comp, "entry": [k], "long": nlong,
                         "a": {"dt": "f64", "shape": [nlong, k], "v": a}, "b": {"dt": "f64", "shape": [nlong, k], "v": b}})
    for c in todo:
        got = _scaled_got(c["base"], c["a"], c["b"], c["per_component"], c["entry"])
        want = _scaled_want(c["base"], c["a"], c["b"], c["per_component"])
        ctx.case(("scaled-shapes", str(c["base"]), c["per_component"], c["a"]["dt"], str(c["a"]["shape"]), tuple(c["a"]["v"][:64]), tuple(c["b"]["v"][:64]),
                  tuple(c["a"]["v"][-8:]), tuple(c["b"]["v"][-8:])), nontrivial=True,
                 tags=["p6-scaled-shapes", "scaledsh-" + c["a"]["dt"], "scaledsh-" + ("comp" if c["per_component"] else "global"),
                       "scaledsh-base-" + ("array" if isinstance(c["base"], list) else "number"),
                       "scaledsh-entry-" + "x".join(map(str, c["entry"]))] + ([f"scaledsh-long-{c['long']}"] if "long" in c else []), sample=None)
        if isinstance(got, str) or got != want:
            small = c if "long" not in c else dict(c, a=dict(c["a"], v="<pattern>"), b=dict(c["b"], v="<pattern>"))
            ctx.violation(c if "long" not in c else _compress_long(c), str(got)[:400], str(want)[:400],
                          what="ScaledTolerance is not base * max|value| (one rounding) — " +
                               ("per component" if c["per_component"] else "global magnitude") + f", field shape {c['a']['shape']}")


def _compress_long(c):
    """a long scaled case as literals that stay small: values listed only where they differ from the repeated pattern"""
    def comp(arr):
        v = arr["v"]
        pat = v[:7]
        exc = [[i, x] for i, x in enumerate(v) if x != pat[i % 7]]
        return {"dt": arr["dt"], "shape": arr["shape"], "pattern": pat, "exceptions": exc}
    return dict(c, a=comp(c["a"]), b=comp(c["b"]))


def _expand_long(arr):
    if "v" in arr:
        return arr
    size = 1
    for d in arr["shape"]:
        size *= d
    v = (arr["pattern"] * (size // 7 + 1))[:size]
    for i, x in arr["exceptions"]:
        v[i] = x
    return {"dt": arr["dt"], "shape": arr["shape"], "v": v}


def replay_scaled_shapes(ctx, c):
    A, B = _expand_long(c["a"]), _expand_long(c["b"])
    got = _scaled_got(c["base"], A, B, c["per_component"], c["entry"])
    want = _scaled_want(c["base"], A, B, c["per_component"])
    print(f"replay ScaledTolerance(base={c['base']}, per component={c['per_component']}) on fields of shape {A['shape']}: {str(got)[:300]} expected {str(want)[:300]}")
    return isinstance(got, str) or got != want


def run_history_arrays(ctx, n):
    """one predicate object holding per-component ndarray tolerances (the ndarrays shared with a second predicate object)
    reused across 3-5 fields of different magnitude: every verdict equals the verdict of fresh objects built from the
    literal tolerance values ('in-place modification of a shared tolerance array')"""
    rng = ctx.rng
    from fieldcompare.predicates import FuzzyEquality, DefaultEquality
    for _ in range(n):
        k = rng.choice([2, 3])
        entry = [k] if rng.random() < 0.7 else [k, k]
        rs = k if len(entry) == 1 else k * k
        relv = [rng.choice(c01.RELS[1:12]) for _ in range(rs)]
        absv = [rng.choice(c01.ABSS[1:]) for _ in range(rs)]
        rel, abs_ = ["arr", entry, relv], ["arr", entry, absv]
        kind = rng.choice(["fuzzy", "default"])
        cls = FuzzyEquality if kind == "fuzzy" else DefaultEquality
        ro, ao = np.array(relv, dtype=np.float64).reshape(entry), np.array(absv, dtype=np.float64).reshape(entry)
        preds = [cls(rel_tol=ro, abs_tol=ao), cls(rel_tol=ro, abs_tol=ao)]
        hist = []
        for _h in range(rng.randint(3, 5)):
            nrow = rng.choice([1, 2, 6])
            scale = rng.choice(c01.EXPS[3:-3])
            a = [c01.rand_float(rng, [scale]) for _ in range(nrow * rs)]
            b = list(a)
            for _d in range(rng.choice([1, 2])):
                i = rng.randrange(len(a))
                b[i] = c01.near_boundary_partner(rng, a[i], relv[i % rs], absv[i % rs])
            hist.append(({"dt": "f64", "shape": [nrow] + entry, "v": a}, {"dt": "f64", "shape": [nrow] + entry, "v": b}))
        reused = [_call(preds[j % 2], predio.np_array(A), predio.np_array(B)) for j, (A, B) in enumerate(hist)]
        fresh = [predio.run_impl(kind, rel, abs_, A, B) for A, B in hist]
        ctx.case(("hist-arr", kind, str(rel), str(abs_), str(hist)), nontrivial=True, tags=["p6-history-array-tol", "hist-" + kind], sample=None)
        if reused != fresh:
            ctx.violation({"law": "history-free", "kind": kind, "rel": rel, "abs": abs_, "shared_tolerance_arrays": True,
                           "history": [{"a": A, "b": B} for A, B in hist]}, reused, fresh,
                          what="predicate objects sharing their per-component tolerance ndarrays answer differently from fresh ones")


def replay_history(ctx, c):
    from fieldcompare.predicates import FuzzyEquality, DefaultEquality
    kind, rel, abs_ = c["kind"], c["rel"], c["abs"]
    hist = [(h["a"], h["b"]) for h in c["history"]]
    if c.get("shared_tolerance_arrays"):
        cls = FuzzyEquality if kind == "fuzzy" else DefaultEquality
        ro, ao = np.array(rel[2], dtype=np.float64).reshape(rel[1]), np.array(abs_[2], dtype=np.float64).reshape(abs_[1])
        preds = [cls(rel_tol=ro, abs_tol=ao), cls(rel_tol=ro, abs_tol=ao)]
        reused = [_call(preds[j % 2], predio.np_array(A), predio.np_array(B)) for j, (A, B) in enumerate(hist)]
    else:
        pred = predio.make_pred(kind, rel, abs_)
        reused = [predio.run_impl(kind, rel, abs_, A, B, pred=pred) for A, B in hist]
    fresh = [predio.run_impl(kind, rel, abs_, A, B) for A, B in hist]
    print(f"replay history: reused objects {reused}; fresh objects {fresh}")
    return reused != fresh


def run(ctx):
    ctx.rule = ("metamorphic groups on real predicate objects: float64 pairs (boundary-directed deviations, shapes "
                "(n,),(n,k),(n,k,k)) evaluated as (a,a),(a,b),(b,a) and at tolerance levels t1<=t2 (scalar, per-component, "
                "scaled); integer pairs of every width/signedness under Default/Exact/Fuzzy (values at the type limits, half range, "
                "+-2^53; (n,) and 0-d; signed pairs are classified by the driver as safe / type-minimum / overflowing "
                "difference); ScaledTolerance values on "
                "float and integer arrays; predicate objects reused across 3-6 fields; the same field stored as (..,n) against "
                "(..,n,1) in either argument order under every predicate (float/int/str data, 0-d against (1,)); the same laws on the command-line route "
                "(CSV / .vtu files with float64 fields, chains of -rtol / -atol option lists starting at an explicit zero, general "
                "and per-field values in either order, files swapped, file against itself); non-trivial = a != b; distinct = "
                "distinct operands+tolerances resp. (option chain, file contents)")
    ctx.assumptions += ["numpy float64 arithmetic = round-to-nearest-even (model compared on every evaluation)",
                        "command-line route: readers return the float64 data the files were written from (side-check on every "
                        "generated file), exit code 0 iff every compared field passes (C04), option semantics as documented "
                        "(NAME:V overrides the general V whatever the order; absent: rel = eps, abs = 0)"]
    run_floats(ctx, ctx.scale(1500, 150000))
    run_ints(ctx, ctx.scale(400, 30000))
    run_scaled(ctx, ctx.scale(600, 50000))
    run_scaled_comp(ctx, ctx.scale(300, 20000))
    run_history(ctx, ctx.scale(150, 10000))
    run_shape_mix(ctx, ctx.scale(300, 20000))
    if not P6G_OFF:
        run_small_floats(ctx, ctx.scale(300, 10000))
        run_mixed_dtypes(ctx, ctx.scale(500, 30000))
        run_operand_reuse(ctx, ctx.scale(300, 10000))
        run_scaled_shapes(ctx, ctx.scale(300, 15000), [1001, 70001] if ctx.tier == "quick" else [1001, 4097, 70001, 300007])
        run_history_arrays(ctx, ctx.scale(80, 4000))
        run_cli_mixed(ctx, ctx.scale(40, 1500))
    run_cli_chains(ctx, n_vtu=ctx.scale(16, 70), rounds=ctx.scale(1, 12))


def replay_witness(ctx, entry):
    w = entry["witness"]
    if "fn" in w:
        from fcv import core
        return core.run_named_witness(entry)
    if w["law"] == "reflexive":
        v = predio.run_impl(w["kind"], w["t1"][0], w["t1"][1], w["a"], w["a"])
        return v != "T", f"(a,a)={v}"
    if w["law"] == "symmetric":
        v1 = predio.run_impl(w["kind"], w["t1"][0], w["t1"][1], w["a"], w["b"])
        v2 = predio.run_impl(w["kind"], w["t1"][0], w["t1"][1], w["b"], w["a"])
        return v1 != v2, f"(a,b)={v1} (b,a)={v2}"
    if w["law"] == "scaled" and w.get("per_component"):
        k = w["a"]["shape"][1]
        got = impl_scaled(w["base"], w["a"], w["b"], comp=True)
        want = []
        for c in range(k):
            m = max(max(abs(x) for x in w["a"]["v"][c::k]), max(abs(x) for x in w["b"]["v"][c::k]))
            want.append(rn64(Fraction(w["base"]) * Fraction(float(m))))
        gl = got if isinstance(got, str) else [float(x) for x in np.asarray(got, dtype=np.float64).reshape(-1)]
        return (isinstance(gl, str) or gl != want), f"per-component ScaledTolerance={gl} expected {want}"
    if w["law"] == "scaled":
        got = impl_scaled(w["base"], w["a"], w["b"])
        m = max(max(abs(x) for x in w["a"]["v"]), max(abs(x) for x in w["b"]["v"]))
        want = rn64(Fraction(w["base"]) * Fraction(float(m)))
        return (isinstance(got, str) or float(got) != want), f"ScaledTolerance={got} expected {want}"
    raise ValueError(w)


def replay(ctx, payload):
    c = payload["case"]
    law = c.get("law")
    if c.get("kind") == "cli-chain":
        if replay_cli_chain(ctx, c):
            print(f"VIOLATION property=C10 replay={payload.get('_path', '<replay>')}")
            return 1
        return 0
    for flag, fn in (("operand_reuse", replay_operand_reuse), ("history", replay_history)):
        if flag in c and (law in ("operand-objects-reused", "history-free") or flag == "operand_reuse"):
            if fn(ctx, c):
                print(f"VIOLATION property=C10 replay={payload.get('_path', '<replay>')}")
                return 1
            return 0
    if c.get("kind") == "cli-mixed":
        out = _cli_mixed_eval(c)
        want0 = _cli_mixed_want(c)
        print(f"replay fieldcompare file <int column> <float column> {' '.join(c['options'])}: exits {out}; demanded: equal classes, "
              f"{'0' if want0 else 'non-zero'}")
        if (out["int-first"] == 0) != (out["float-first"] == 0) or (out["int-first"] == 0) != want0:
            print(f"VIOLATION property=C10 replay={payload.get('_path', '<replay>')}")
            return 1
        return 0
    if law == "scaled-shapes":
        if replay_scaled_shapes(ctx, c):
            print(f"VIOLATION property=C10 replay={payload.get('_path', '<replay>')}")
            return 1
        return 0
    if c.get("mixed_dtypes") or (law in ("reflexive", "symmetric", "monotone") and "t1" in c and "a" in c and "kind" in c):
        v = _four(c["kind"], c["a"], c["b"], c["t1"], c["t2"])
        bad = v["aa"] != "T" or v["ab1"] != v["ba1"] or (v["ab1"] == "T" and v["ab2"] != "T")
        print("replay law group (aa, ab@t1, ba@t1, ab@t2):", v, "-> laws violated" if bad else "-> laws hold")
        if bad:
            print(f"VIOLATION property=C10 replay={payload.get('_path', '<replay>')}")
            return 1
        return 0
    if "evaluations" in c:
        if replay_shape_mix(ctx, c):
            print(f"VIOLATION property=C10 replay={payload.get('_path', '<replay>')}")
            return 1
        return 0
    if law in ("symmetric", "scaled"):
        fails, detail = replay_witness(ctx, {"witness": dict(c, kind=c.get("kind", "fuzzy"))})
        print("replay:", detail)
        if fails:
            print("VIOLATION property=C10 replay=<replayed>")
            return 1
        return 0
    print("replay: re-evaluate with harness/corr/c10.py functions; case:", c)
    return 2
