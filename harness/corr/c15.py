"""C15 — sequences are compared step by step and pass only if every step passes.

Correspondence (implementation vs the Lean model through the driver):
  T  finite behaviour of `TestSuite.__bool__/status` (every status/None x every test list of length <= 2)
  I  `FieldDataSequence.__iter__` as a generator machine: histories of `next(g)` calls on 1-3 generators
     sharing one source object — (a) a recording custom `Source` (calls reset/get/step are observed),
     (b) the real `PVDReader` / `fieldcompare.io.read` on generated .pvd + tiny .vtu steps
  M  `FileComparison._compare_field_sequences` on custom sources with `_compare_field_data` replaced by a
     table of prescribed step suites (all TestStatus values / None, arbitrary test lists): merged suite's
     bool, status, tests and the ordered (result step, reference step) pairs
  F  the CLI `fieldcompare._cli.main(["file", a.pvd, b.pvd, ...])`: exit code and the ordered
     step comparisons performed (calls of `_compare_field_data`, NOT log text), lengths 1..8, deviating step (value / mesh / missing field) at every
     position, all three sequence options; sequence vs single data set; (thorough) XDMF time series
  F2/FX/I2 (phase 6 G, harness/fcv/c15_seqscen_p6g.py) re-written paths, the same file in both roles, lengths > 10,
     repeated pieces, piece paths, time values, per-step meshes, cwd-relative names; XDMF through the CLI in the quick
     tier; several sequence objects alive at once with unrelated reads in between
  IX (phase 5) the iteration machine on REAL XDMF time series written with meshio's TimeSeriesWriter (heavy data in
     HDF5, inlined XML, raw binary), lengths 1..5: directed call histories on ONE sequence object (complete pass twice
     / three times, pass suspended at the last step then complete pass, partial then complete passes, zip-style
     interleaving, list() repeatedly) against `Fc.runHist`; every yielded step compared field by field with the data
     written

Search: implementation vs the property (Python oracle): each iteration yields 0..n-1 in order, compared
pairs are (i,i) for i < min, exit code 0 iff (equal lengths or ignore) and every common step passes,
mixed kinds never exit 0."""
from __future__ import annotations
import io
import itertools
import os
import shutil
import tempfile

TS_NAMES = ["passed", "failed", "error", "skipped"]
FALSY = {"failed", "error"}
OPT_FLAGS = {"ignore": "--ignore-missing-sequence-steps", "force": "--force-sequence-comparison"}


# ------------------------------------------------------------------ small helpers

def _ts(name):
    from fieldcompare._cli._test_suite import TestStatus
    return None if name == "none" else TestStatus[name]


def make_suite(spec):
    """spec = {"status": name|"none", "tests": [names]} -> TestSuite"""
    from fieldcompare._cli._test_suite import TestSuite, TestResult
    return TestSuite(tests=[TestResult(name=f"t{k}", status=_ts(t), shortlog="", stdout="", cpu_time=None)
                            for k, t in enumerate(spec["tests"])],
                     status=_ts(spec["status"]), shortlog="")


def enc_suite(spec) -> str:
    return " ".join([spec["status"], str(len(spec["tests"]))] + list(spec["tests"]))


def suite_bool(spec) -> bool:
    if spec["status"] != "none":
        return spec["status"] not in FALSY
    return all(t not in FALSY for t in spec["tests"])


def consistent(spec) -> bool:
    return (not suite_bool(spec)) or all(t not in FALSY for t in spec["tests"])


POISON = {"status": "error", "tests": ["error"]}


# ------------------------------------------------------------------ T: TestSuite finite behaviour

def part_T(ctx):
    specs = []
    for st in ["none"] + TS_NAMES:
        for k in range(3):
            for tests in itertools.product(TS_NAMES, repeat=k):
                specs.append({"status": st, "tests": list(tests)})
    lines = ["c15ts " + enc_suite(s) for s in specs]
    reps = ctx.lean(lines) if ctx.driver_ok else [None] * len(specs)
    for s, rep in zip(specs, reps):
        suite = make_suite(s)
        impl = f"{int(bool(suite))},{suite.status.name}"
        ctx.case(("T", enc_suite(s)), nontrivial=bool(s["tests"]) or s["status"] != "none", tags=["T-testsuite-table"])
        if rep is not None and rep.get("model") != impl:
            ctx.mismatch({"part": "T", "suite": s}, impl, rep.get("model", str(rep)), "TestSuite bool/status")
    from fieldcompare._cli._test_suite import TestStatus
    # the SET of members is modelled; the order in which the enum declares them (and their values) is a local choice of
    # the source that nothing in C15 talks about
    names = sorted(m.name for m in TestStatus)
    if names != sorted(TS_NAMES):
        ctx.mismatch({"part": "T"}, names, sorted(TS_NAMES), "TestStatus members differ from the modelled enumeration")
    for m in TestStatus:
        if bool(m) != (m.name not in FALSY):
            ctx.violation({"part": "T", "status": m.name}, bool(m), m.name not in FALSY, what="TestStatus truthiness")


# ------------------------------------------------------------------ I: iteration machine

class RecSource:
    """well-behaved custom source (same contract as the PVD/XDMF sources) that records the calls"""

    def __init__(self, n, cur=0):
        self._n, self._i, self.calls = n, cur, []

    def reset(self):
        self.calls.append("r")
        self._i = 0

    def step(self):
        self.calls.append("s")
        self._i += 1
        return self._i < self._n

    def get(self):
        self.calls.append("g")
        if not (0 <= self._i < self._n):
            raise IndexError("list index out of range")
        return Token(self._i)

    @property
    def number_of_steps(self):
        return self._n


class Token:
    def __init__(self, i):
        self.i = i


def step_id(item) -> int:
    """which step is this?  Token -> index; field data read from a file -> the value of cell field 'step'"""
    if isinstance(item, Token):
        return item.i
    for f in item:
        if f.name.startswith("step"):
            return int(round(float(f.values.flat[0])))
    raise ValueError("step marker field not found")


def safe_steps(seq):
    """[step ids] of one full iteration, or a string naming the exception that escaped"""
    try:
        return [step_id(x) for x in seq]
    except Exception as e:
        return f"raised-out:{type(e).__name__}"


def drive(seq, G, hist, calls_of=None):
    """run the history on G generators of `seq`; -> list of [g, event, calls]"""
    gens = [iter(seq) for _ in range(G)]
    out = []
    for g in hist:
        before = len(calls_of.calls) if calls_of is not None else 0
        try:
            item = next(gens[g])
            ev = f"y{step_id(item)}"
        except StopIteration:
            ev = "stop"
        except IndexError:
            ev = "raise"
        except Exception as e:
            ev = f"raised-out:{type(e).__name__}"
        calls = "".join(calls_of.calls[before:]) if calls_of is not None else None
        out.append([g, ev, calls])
    return out


def gen_hist(rng, n):
    style = rng.random()
    if style < 0.45:      # sequential: full and abandoned iterations one after the other
        G = rng.randint(1, 3)
        hist = []
        for g in range(G):
            k = rng.choice([n + 1, n + 2, rng.randint(0, n + 1), rng.randint(0, n + 1), 1])
            hist += [g] * k
        return G, hist, "sequential"
    G = rng.randint(2, 3)
    return G, [rng.randrange(G) for _ in range(rng.randint(1, 2 * n + 5))], "interleaved"


def oracle_sequential(n, G, hist):
    """property: every (sequentially used) generator yields 0,1,…,n-1 and then stops"""
    out = []
    for g, grp in itertools.groupby(hist):
        k = len(list(grp))
        for q in range(k):
            out.append([g, f"y{q}" if q < n else "stop"])
    return out


def check_iter(ctx, case, got, rep, with_calls):
    n = case["n"]
    if rep is not None:
        if "model" not in rep:
            ctx.inconsistent(case, str(rep), "bad-op")
        else:
            evs, cur = rep["model"].split(";")
            model = [] if evs == "-" else [e.split(":") for e in evs.split(",")]
            model = [[int(g), ev, c] for g, ev, c in model]
            view_i = [[g, ev] + ([c] if with_calls else []) for g, ev, c in got]
            view_m = [[g, ev] + ([c] if with_calls else []) for g, ev, c in model]
            if view_i != view_m:
                ctx.mismatch(case, view_i, view_m, "FieldDataSequence.__iter__ history vs Fc.runHist")
            if case.get("final_cur") is not None and int(cur) != case["final_cur"]:
                ctx.mismatch(case, case["final_cur"], int(cur), "source cursor after the history")
    groups = [g for g, _ in itertools.groupby(case["hist"])]
    if len(set(groups)) == len(groups) and n >= 1:      # no generator is resumed after another one was advanced
        exp = oracle_sequential(n, case["G"], case["hist"])
        if [[g, ev] for g, ev, _ in got] != exp:
            ctx.violation(case, [[g, ev] for g, ev, _ in got], exp, cls=None,
                          what="an iteration does not yield the steps 0..n-1 each once in order")


def part_I(ctx, files):
    rng = ctx.rng
    import fieldcompare.io as fio
    from fieldcompare import FieldDataSequence
    from fieldcompare.io.vtk import PVDReader
    cases, gots, withc = [], [], []
    for _ in range(ctx.scale(2000, 40000)):
        n = rng.choice([1, 1, 2, 3, 4, 5, 6, 7, 8, 0])
        cur0 = rng.choice([0, 0, 1, n, n + 3, rng.randint(0, n + 1)])
        G, hist, style = gen_hist(rng, n)
        src = RecSource(n, cur0)
        seq = FieldDataSequence(src)
        got = drive(seq, G, hist, calls_of=src)
        case = {"part": "I", "carrier": "custom", "n": n, "cur0": cur0, "G": G, "hist": hist, "style": style,
                "final_cur": src._i}
        if seq.number_of_steps != n:
            ctx.violation(case, seq.number_of_steps, n, what="number_of_steps")
        cases.append(case); gots.append(got); withc.append(True)
    for k in range(ctx.scale(300, 4000)):
        n = rng.choice([1, 2, 3, 4, 5, 6, 7, 8])
        G, hist, style = gen_hist(rng, n)
        path = files.pvd([(s, 0) for s in range(n)])
        seq = fio.read(path) if k % 2 == 0 else PVDReader(path).read()
        got = drive(seq, G, hist)
        case = {"part": "I", "carrier": "pvd", "n": n, "cur0": 0, "G": G, "hist": hist, "style": style,
                "final_cur": None}
        if seq.number_of_steps != n:
            ctx.violation(case, seq.number_of_steps, n, what="number_of_steps of a .pvd")
        if k % 7 == 0:
            # observe_at: list(read(pvd)) twice
            l1 = safe_steps(seq)
            l2 = safe_steps(seq)
            if l1 != list(range(n)) or l2 != l1:
                ctx.violation(case, [l1, l2], list(range(n)), what="list(read(pvd)) repeated")
        cases.append(case); gots.append(got); withc.append(False)
    lines = [f"c15iter {c['n']} {c['cur0']} {c['G']} {len(c['hist'])} " + " ".join(map(str, c["hist"])) for c in cases]
    lines = [l.strip() for l in lines]
    reps = ctx.lean(lines) if ctx.driver_ok else [None] * len(cases)
    for c, got, rep, wc, line in zip(cases, gots, reps, withc, lines):
        ctx.case(("I", c["carrier"], line), nontrivial=c["n"] >= 1 and len(c["hist"]) > 1,
                 tags=["I-" + c["carrier"], "I-" + c["style"], f"n={c['n']}"],
                 sample={"case": c, "impl": got[:6], "lean": rep})
        check_iter(ctx, c, got, rep, wc)


# ------------------------------------------------------------------ IX: iteration machine on real XDMF time series

def run_xdmf_hist(xfiles, case):
    """-> (events, content problems, number_of_steps, [list() results]) for one history on ONE freshly read object"""
    import fieldcompare.io as fio
    from fcv import xdmfseq_p5c as X
    seq = fio.read(xfiles.path(case["fmt"], case["n"]))
    nsteps = seq.number_of_steps
    got, probs = X.drive(seq, case["G"], case["hist"], step_id)
    lists = [safe_steps(seq) for _ in range(case.get("lists", 0))]      # the same object, after the history
    return got, probs, nsteps, lists


def check_xdmf(ctx, case, got, probs, nsteps, lists, rep):
    n = case["n"]
    if nsteps != n:
        ctx.violation(case, nsteps, n, what="number_of_steps of an XDMF time series")
    check_iter(ctx, case, got, rep, False)
    for p in probs[:1]:
        ctx.violation(case, p, "the fields written for that step",
                      what="a step yielded by an XDMF sequence does not carry the data written for it")
    if any(l != list(range(n)) for l in lists):
        ctx.violation(case, lists, [list(range(n))] * len(lists),
                      what="list(sequence) repeated on the same XDMF sequence object (after the call history)")


def part_IX(ctx):
    from fcv import xdmfseq_p5c as X
    fmts = X.available_formats()
    if not fmts:
        ctx.notes.append("meshio not importable: XDMF iteration part skipped")
        return
    if "HDF" not in fmts:
        ctx.notes.append("h5py not importable: XDMF time series with HDF5 heavy data not covered")
    rng = ctx.rng
    cases, results = [], []
    xfiles = X.XdmfFiles()      # (the process works inside the temporary directory until close())
    try:
        for fmt in fmts:
            for n in range(1, ctx.scale(5, 8) + 1):
                hists = X.directed_histories(n)
                for _ in range(ctx.scale(2, 20)):
                    hists.append(gen_hist(rng, n))
                for k, (G, hist, style) in enumerate(hists):
                    case = {"part": "I", "carrier": "xdmf", "fmt": fmt, "n": n, "cur0": 0, "G": G, "hist": hist,
                            "style": style, "final_cur": None, "lists": 2 if k % 3 == 0 else 0}
                    cases.append(case)
                    results.append(run_xdmf_hist(xfiles, case))
    finally:
        xfiles.close()
    lines = [f"c15iter {c['n']} 0 {c['G']} {len(c['hist'])} " + " ".join(map(str, c["hist"])) for c in cases]
    lines = [l.strip() for l in lines]
    reps = ctx.lean(lines) if ctx.driver_ok else [None] * len(cases)
    for c, (got, probs, nsteps, lists), rep, line in zip(cases, results, reps, lines):
        ctx.case(("IX", c["fmt"], c["lists"], line), nontrivial=len(c["hist"]) > 1,
                 tags=["I-xdmf", "I-xdmf-" + c["fmt"], "IX-" + c["style"], f"n={c['n']}"],
                 sample={"case": c, "impl": got[:8], "lean": rep})
        check_xdmf(ctx, c, got, probs, nsteps, lists, rep)


# ------------------------------------------------------------------ M: merging with prescribed step suites

def run_compare_stub(case):
    """FileComparison._compare_field_sequences on custom sources, `_compare_field_data` -> table"""
    from fieldcompare import FieldDataSequence
    from fieldcompare._cli._file_comparison import FileComparison, FileComparisonOptions
    from fieldcompare._cli._logger import CLILogger
    suites = case["suites"]
    pairs = []

    class Stub(FileComparison):
        def _compare_field_data(self, res_fields, ref_fields):
            i, j = res_fields.i, ref_fields.i
            pairs.append([i, j])
            return make_suite(suites[i] if (i == j and i < len(suites)) else POISON)

    out = io.StringIO()
    opts = FileComparisonOptions(ignore_missing_sequence_steps=case["ignore"], force_sequence_comparison=case["force"])
    comp = Stub(opts, CLILogger(verbosity_level=1, output_stream=out))
    res = FieldDataSequence(RecSource(case["nres"], case["cres"]))
    ref = FieldDataSequence(RecSource(case["nref"], case["cref"]))
    try:
        suite = comp._compare_field_sequences(res, ref)
    except IndexError:
        return {"kind": "R", "pairs": pairs}
    except Exception as e:
        return {"kind": f"raised-out:{type(e).__name__}", "pairs": pairs}
    return {"kind": "S", "bool": bool(suite), "status": suite.status.name, "tests": [t.status.name for t in suite],
            "pairs": pairs}


def enc_cmp(case) -> str:
    toks = [int(case["ignore"]), int(case["force"]), case["nres"], case["cres"], case["nref"], case["cref"],
            len(case["suites"])]
    return " ".join(map(str, toks)) + "".join(" " + enc_suite(s) for s in case["suites"])


def oracle_cmp(case):
    nres, nref = case["nres"], case["nref"]
    m = min(nres, nref)
    if nres != nref and not case["ignore"] and not case["force"]:
        pairs = []
    else:
        pairs = [[i, i] for i in range(m)]
    verdict = (nres == nref or case["ignore"]) and all(suite_bool(case["suites"][i]) for i in range(m))
    return {"bool": verdict, "pairs": pairs}


def gen_suite(rng, real_shape):
    if real_shape:
        if rng.random() < 0.15:
            return {"status": "failed", "tests": []}
        k = rng.randint(0, 3)
        return {"status": "none", "tests": [rng.choice(["passed", "passed", "passed", "skipped", "failed", "error"])
                                            for _ in range(k)]}
    return {"status": rng.choice(["none"] + TS_NAMES), "tests": [rng.choice(TS_NAMES) for _ in range(rng.randint(0, 2))]}


def gen_cmp_case(rng):
    nres = rng.choice([1, 2, 3, 4, 5, 6, 7, 8])
    r = rng.random()
    nref = nres if r < 0.5 else rng.choice([1, 2, 3, 4, 5, 6, 7, 8])
    if rng.random() < 0.03:
        nres = 0 if rng.random() < 0.5 else nres
        nref = 0 if rng.random() < 0.6 else nref
    m = min(nres, nref)
    real_shape = rng.random() < 0.6
    style = rng.random()
    if style < 0.45 and m > 0:      # all pass except one deviating step
        suites = [{"status": "none", "tests": ["passed"] * rng.randint(0, 2)} for _ in range(m)]
        p = rng.choice([0, m - 1, rng.randrange(m)])
        suites[p] = rng.choice([{"status": "none", "tests": ["passed", "failed"]}, {"status": "failed", "tests": []},
                                {"status": "none", "tests": ["error"]}] +
                               ([] if real_shape else [{"status": "error", "tests": []}, {"status": "skipped", "tests": ["passed"]}]))
        tag = "one-deviating"
    elif style < 0.6:
        suites = [{"status": "none", "tests": [rng.choice(["passed", "skipped"]) for _ in range(rng.randint(0, 2))]}
                  for _ in range(m)]
        tag = "all-pass"
    else:
        suites = [gen_suite(rng, real_shape) for _ in range(m)]
        tag = "random"
    return {"part": "M", "ignore": rng.random() < 0.4, "force": rng.random() < 0.4, "nres": nres, "nref": nref,
            "cres": rng.choice([0, 0, nres, 3]), "cref": rng.choice([0, 0, nref, 1]), "suites": suites}, tag


def check_cmp(ctx, case, got, rep):
    cons = all(consistent(s) for s in case["suites"])
    if rep is not None:
        if "model" not in rep:
            ctx.inconsistent(case, str(rep), "bad-op")
        else:
            kind, b, st, tests, pairs = rep["model"].split(";")
            if kind == "R":
                model = {"kind": "R"}
                impl = {"kind": got["kind"]}
            else:
                model = {"kind": "S", "bool": b == "1", "status": st, "tests": [] if tests == "-" else tests.split(","),
                         "pairs": [] if pairs == "-" else [[int(x) for x in p.split(":")] for p in pairs.split(",")]}
                impl = {k: got.get(k) for k in ("kind", "bool", "status", "tests", "pairs")}
            if impl != model:
                ctx.mismatch(case, impl, model, "_compare_field_sequences vs Fc.compareSequences")
            if rep.get("hyp") == "1":
                sb, sp = rep["spec"].split(";")
                spec = {"bool": sb == "1", "pairs": [] if sp == "-" else [[int(x) for x in p.split(":")] for p in sp.split(",")]}
                if kind != "S" or spec["bool"] != model["bool"] or spec["pairs"] != model["pairs"]:
                    ctx.inconsistent(case, model, spec)
                orc = oracle_cmp(case)
                if spec != orc:
                    ctx.inconsistent(case, {"lean-spec": spec}, {"python-oracle": orc})
    if case["nres"] >= 1 and case["nref"] >= 1:
        orc = oracle_cmp(case)
        if got["kind"] != "S":
            ctx.violation(case, got, orc, what="exception escaped from the sequence comparison of non-empty sequences")
            return
        if got["pairs"] != orc["pairs"]:
            ctx.violation(case, got["pairs"], orc["pairs"], what="compared (result step, reference step) pairs")
        if cons and got["bool"] != orc["bool"]:
            ctx.violation(case, got["bool"], orc["bool"], what="sequence verdict differs from: lengths equal-or-ignored and all common steps pass")


def part_M(ctx):
    rng = ctx.rng
    cases, tags = [], []
    for _ in range(ctx.scale(5000, 100000)):
        c, t = gen_cmp_case(rng)
        cases.append(c); tags.append(t)
    # systematic: deviating step at every position, every length, every option combination
    for n in range(1, 9 if ctx.tier == "thorough" else 7):
        for p in range(n):
            for ign, force in itertools.product([False, True], repeat=2):
                for dev in ({"status": "none", "tests": ["passed", "failed"]}, {"status": "failed", "tests": []}):
                    suites = [{"status": "none", "tests": ["passed"]} for _ in range(n)]
                    suites[p] = dev
                    cases.append({"part": "M", "ignore": ign, "force": force, "nres": n, "nref": n, "cres": 0, "cref": 0,
                                  "suites": suites})
                    tags.append("systematic-position")
    lines = ["c15cmp " + enc_cmp(c) for c in cases]
    reps = ctx.lean(lines) if ctx.driver_ok else [None] * len(cases)
    for c, t, rep, line in zip(cases, tags, reps, lines):
        got = run_compare_stub(c)
        ctx.case(("M", line), nontrivial=min(c["nres"], c["nref"]) >= 1,
                 tags=["M-" + t, f"M-ignore={int(c['ignore'])}", f"M-force={int(c['force'])}",
                       "M-len-" + ("eq" if c["nres"] == c["nref"] else "ne"), "M-verdict-" + str(got.get("bool"))],
                 sample={"case": c, "impl": got, "lean": rep})
        check_cmp(ctx, c, got, rep)
    # merge table: every pair of small suites through one real merge step (first step of a 1-step comparison)
    specs = [{"status": st, "tests": list(ts)} for st in ["none"] + TS_NAMES for k in range(2)
             for ts in itertools.product(TS_NAMES, repeat=k)]
    # (initial suite is fixed by the code; the second operand ranges over all small suites, lengths decide the first)
    mcases = []
    for s in specs:
        for nres, nref, force in ((1, 1, False), (1, 2, True), (2, 1, True)):
            mcases.append({"part": "M", "ignore": False, "force": force, "nres": nres, "nref": nref, "cres": 0, "cref": 0,
                           "suites": [s]})
    lines = ["c15cmp " + enc_cmp(c) for c in mcases]
    reps = ctx.lean(lines) if ctx.driver_ok else [None] * len(mcases)
    for c, rep, line in zip(mcases, reps, lines):
        got = run_compare_stub(c)
        ctx.case(("M", line), nontrivial=True, tags=["M-merge-table"])
        check_cmp(ctx, c, got, rep)


# ------------------------------------------------------------------ F: files + CLI

def vtu_text(step: int, variant: int) -> str:
    """tiny ASCII .vtu: one quad, point fields u (depends on the step) and w, cell field 'step' = step index.
    variant 0 base; 1 one value of u changed; 2 a point moved (mesh differs); 3 field w absent"""
    x1 = 1.0 if variant != 2 else 1.5
    u = [step + 0.25 * k for k in range(4)]
    if variant == 1:
        u[2] += 0.5
    extra = "" if variant == 3 else '<DataArray type="Float64" Name="w" format="ascii">1 2 3 4</DataArray>'
    return f'''<?xml version="1.0"?>
<VTKFile type="UnstructuredGrid" version="0.1" byte_order="LittleEndian">
<UnstructuredGrid><Piece NumberOfPoints="4" NumberOfCells="1">
<Points><DataArray type="Float64" NumberOfComponents="3" format="ascii">0 0 0 {x1} 0 0 {x1} 1 0 0 1 0</DataArray></Points>
<Cells><DataArray type="Int64" Name="connectivity" format="ascii">0 1 2 3</DataArray>
<DataArray type="Int64" Name="offsets" format="ascii">4</DataArray>
<DataArray type="UInt8" Name="types" format="ascii">9</DataArray></Cells>
<PointData><DataArray type="Float64" Name="u" format="ascii">{" ".join(map(str, u))}</DataArray>{extra}</PointData>
<CellData><DataArray type="Float64" Name="step" format="ascii">{step}</DataArray></CellData>
</Piece></UnstructuredGrid></VTKFile>
'''


class Files:
    """temporary directory with the step files s<step>_v<variant>.vtu and per-scenario .pvd files"""

    def __init__(self, max_steps=8):
        self.dir = tempfile.mkdtemp(prefix="fcv_c15_")
        self.k = 0
        for s in range(max_steps):
            for v in range(4):
                with open(self.step(s, v), "w") as fh:
                    fh.write(vtu_text(s, v))

    def step(self, s, v):
        return os.path.join(self.dir, f"s{s}_v{v}.vtu")

    def pvd(self, steps, absolute=False):
        """steps = [(step index, variant)]"""
        self.k += 1
        p = os.path.join(self.dir, f"seq{self.k}.pvd")
        names = [self.step(s, v) if absolute else os.path.basename(self.step(s, v)) for s, v in steps]
        with open(p, "w") as fh:
            fh.write('<?xml version="1.0"?>\n<VTKFile type="Collection" version="0.1">\n<Collection>\n'
                     + "".join(f'<DataSet timestep="{i}" part="0" file="{f}"/>\n' for i, f in enumerate(names))
                     + "</Collection>\n</VTKFile>\n")
        return p

    def close(self):
        shutil.rmtree(self.dir, ignore_errors=True)


def run_cli(argv):
    """-> (exit code, indices of the step comparisons performed, in order).  The steps are observed as calls of
    `FileComparison._compare_field_data` made from `_compare_field_sequences` (the same seam part M stubs), never
    through the wording of the log (log text is outside every claim, DESIGN §5 item 5)."""
    from fieldcompare._cli import main
    from fieldcompare._cli._logger import CLILogger
    from fieldcompare._cli._file_comparison import FileComparison
    out = io.StringIO()
    steps, depth = [], [0]
    orig_seq, orig_data = FileComparison._compare_field_sequences, FileComparison._compare_field_data

    def seq(self, *a, **kw):
        depth[0] += 1
        try:
            return orig_seq(self, *a, **kw)
        finally:
            depth[0] -= 1

    def data(self, *a, **kw):
        if depth[0]:
            steps.append(len(steps))
        return orig_data(self, *a, **kw)

    FileComparison._compare_field_sequences, FileComparison._compare_field_data = seq, data
    try:
        rc = main(argv, logger=CLILogger(output_stream=out))
    except SystemExit as e:      # argparse
        rc = f"SystemExit({e.code})"
    except Exception as e:
        rc = f"raised-out:{type(e).__name__}"
    finally:
        FileComparison._compare_field_sequences, FileComparison._compare_field_data = orig_seq, orig_data
    return rc, steps


_step_cache = {}


def step_passes(files, vr, vf) -> bool:
    """external fact: does the single-file comparison of a step with result variant vr and reference variant vf pass
    (measured once per variant pair with the real CLI on step 0)"""
    key = (vr, vf)
    if key not in _step_cache:
        rc, _ = run_cli(["file", files.step(0, vr), files.step(0, vf)])
        _step_cache[key] = (rc == 0)
    return _step_cache[key]


def gen_file_case(rng, maxn):
    nres = rng.randint(1, maxn)
    nref = nres if rng.random() < 0.5 else rng.randint(1, maxn)
    res = [0] * nres
    ref = [0] * nref
    m = min(nres, nref)
    style = rng.random()
    if style < 0.55:
        p = rng.choice([0, m - 1, rng.randrange(m)])
        v = rng.choice([1, 2, 3])
        if rng.random() < 0.5:
            res[p] = v
        else:
            ref[p] = v
        tag = "one-deviating"
    elif style < 0.7:
        tag = "identical"
    elif style < 0.8 and max(nres, nref) > m:
        # deviation only in a step beyond the common range
        if nres > m:
            res[rng.randrange(m, nres)] = 1
        else:
            ref[rng.randrange(m, nref)] = 1
        tag = "deviation-beyond-common"
    else:
        res = [rng.choice([0, 0, 0, 1, 2, 3]) for _ in range(nres)]
        ref = [rng.choice([0, 0, 0, 1]) for _ in range(nref)]
        tag = "random"
    return {"part": "F", "res": res, "ref": ref, "ignore": rng.random() < 0.4, "force": rng.random() < 0.4,
            "absolute": rng.random() < 0.2}, tag


def run_file_case(files, case):
    a = files.pvd(list(enumerate(case["res"])), case.get("absolute", False))
    b = files.pvd(list(enumerate(case["ref"])), case.get("absolute", False))
    argv = ["file", a, b] + ([OPT_FLAGS["ignore"]] if case["ignore"] else []) + ([OPT_FLAGS["force"]] if case["force"] else [])
    rc, steps = run_cli(argv)
    for p in (a, b):
        os.remove(p)
    return {"exit": rc, "steps": steps}


def file_facts(files, case):
    m = min(len(case["res"]), len(case["ref"]))
    return [step_passes(files, case["res"][i], case["ref"][i]) for i in range(m)]


def enc_file(case, facts, kres="seq", kref="seq", single=True) -> str:
    suites = [{"status": "none", "tests": ["passed" if ok else "failed"]} for ok in facts]
    c = {"ignore": case["ignore"], "force": case["force"], "nres": len(case["res"]), "cres": 0,
         "nref": len(case["ref"]), "cref": 0, "suites": suites}
    return f"c15file {kres} {kref} {int(single)} " + enc_cmp(c)


def check_file(ctx, case, got, facts, rep):
    nres, nref = len(case["res"]), len(case["ref"])
    m = min(nres, nref)
    early = nres != nref and not case["ignore"] and not case["force"]
    exp_steps = [] if early else list(range(m))
    exp_exit = 0 if ((nres == nref or case["ignore"]) and all(facts)) else 1
    if rep is not None:
        if rep.get("model") != str(got["exit"]):
            ctx.mismatch(case, got["exit"], rep.get("model", str(rep)), "CLI exit code vs Fc.fileModeExit")
    if nres >= 1 and nref >= 1:
        if got["exit"] != exp_exit:
            ctx.violation(case, got, {"exit": exp_exit, "steps": exp_steps}, what="exit code of `fieldcompare file a.pvd b.pvd`")
        elif got["steps"] != exp_steps:
            ctx.violation(case, got, {"exit": exp_exit, "steps": exp_steps}, what="step comparisons performed by the CLI")


def part_F(ctx, files):
    rng = ctx.rng
    maxn = 8
    cases, tags = [], []
    for _ in range(ctx.scale(500, 12000)):
        c, t = gen_file_case(rng, maxn)
        cases.append(c); tags.append(t)
    # systematic: equal lengths 1..8, the deviating step at every position (value deviation), no options
    for n in range(1, maxn + 1):
        for p in range(n):
            res = [0] * n
            res[p] = 1
            cases.append({"part": "F", "res": res, "ref": [0] * n, "ignore": False, "force": False})
            tags.append("systematic-position")
    # length mismatch x every option combination
    for ign, force in itertools.product([False, True], repeat=2):
        for nres, nref in ((2, 3), (3, 2), (1, 4)):
            cases.append({"part": "F", "res": [0] * nres, "ref": [0] * nref, "ignore": ign, "force": force})
            tags.append("systematic-options")
    # model sanity for the poison convention: facts must make sense
    for v in (1, 2, 3):
        if step_passes(files, v, 0) or step_passes(files, 0, v) or not step_passes(files, v, v):
            ctx.notes.append(f"step variant {v} does not behave as a deviation in the single-file comparison")
    gots = [run_file_case(files, c) for c in cases]
    factsl = [file_facts(files, c) for c in cases]
    lines = [enc_file(c, f) for c, f in zip(cases, factsl)]
    reps = ctx.lean(lines) if ctx.driver_ok else [None] * len(cases)
    for c, t, got, facts, rep, line in zip(cases, tags, gots, factsl, reps, lines):
        ctx.case(("F", line, tuple(c["res"]), tuple(c["ref"])), nontrivial=True,
                 tags=["F-" + t, f"F-ignore={int(c['ignore'])}", f"F-force={int(c['force'])}",
                       "F-len-" + ("eq" if len(c["res"]) == len(c["ref"]) else "ne"), f"F-exit-{got['exit']}"],
                 sample={"case": c, "impl": got, "lean": rep})
        check_file(ctx, c, got, facts, rep)
    # mixed kinds: sequence vs single data set, both orders, with every option
    for n in (1, 2, 5):
        pv = files.pvd([(s, 0) for s in range(n)])
        for order in (0, 1):
            for flags in ([], [OPT_FLAGS["ignore"]], [OPT_FLAGS["force"]], [OPT_FLAGS["ignore"], OPT_FLAGS["force"]]):
                pair = [pv, files.step(0, 0)] if order == 0 else [files.step(0, 0), pv]
                rc, steps = run_cli(["file"] + pair + flags)
                case = {"part": "F-mixed", "n": n, "order": order, "flags": flags}
                kinds = ("seq", "data") if order == 0 else ("data", "seq")
                line = enc_file({"ignore": OPT_FLAGS["ignore"] in flags, "force": OPT_FLAGS["force"] in flags,
                                 "res": [0] * n, "ref": [0] * n}, [True] * n, kinds[0], kinds[1], True)
                rep = ctx.lean([line])[0] if ctx.driver_ok else None
                ctx.case(("F-mixed", n, order, tuple(flags)), nontrivial=True, tags=["F-mixed"])
                if rep is not None and rep.get("model") != str(rc):
                    ctx.mismatch(case, rc, rep.get("model"), "mixed kinds exit code")
                if rc == 0 or steps:
                    ctx.violation(case, {"exit": rc, "steps": steps}, "non-zero exit, no step compared",
                                  what="a sequence compared equal to a single data set")
        os.remove(pv)
    # single vs single sanity (kinds table), and the empty sequence (outside the quantifier; model only)
    rc, _ = run_cli(["file", files.step(0, 0), files.step(0, 0)])
    if rc != 0:
        ctx.notes.append("single-file identity comparison does not exit 0")
    e1, e2 = files.pvd([]), files.pvd([])
    rc, _ = run_cli(["file", e1, e2])
    rep = ctx.lean(["c15file seq seq 1 0 0 0 0 0 0 0"])[0] if ctx.driver_ok else None
    ctx.case(("F-empty",), nontrivial=False, tags=["F-empty-sequence"])
    if rep is not None and rep.get("model") != str(rc):
        ctx.mismatch({"part": "F-empty"}, rc, rep.get("model"), "empty sequences exit code")
    ctx.notes.append(f"empty .pvd vs empty .pvd exits {rc} (IndexError inside the comparison; outside the quantifier, lengths >= 1)")


def part_X(ctx):
    """thorough only: XDMF time series written with meshio, deviating step at every position"""
    try:
        import meshio
        import numpy as np
    except ImportError:
        ctx.notes.append("meshio not importable: XDMF part skipped")
        return
    d = tempfile.mkdtemp(prefix="fcv_c15x_")
    cwd = os.getcwd()
    try:
        os.chdir(d)   # TimeSeriesWriter stores the .h5 name relative to the cwd
        pts = np.array([[0.0, 0.0], [1.0, 0.0], [1.0, 1.0], [0.0, 1.0]])
        cells = [("quad", np.array([[0, 1, 2, 3]]))]

        def write(name, devs, n):
            with meshio.xdmf.TimeSeriesWriter(name) as w:
                w.write_points_cells(pts, cells)
                for s in range(n):
                    u = np.array([s + 0.25 * k for k in range(4)])
                    if s in devs:
                        u[1] += 0.5
                    w.write_data(float(s), point_data={"u": u}, cell_data={"step": [np.array([float(s)])]})
        import fieldcompare.io as fio
        for n in (1, 2, 3, 4):
            write(f"ref{n}.xdmf", set(), n)
            seq = fio.read(f"ref{n}.xdmf")
            l1 = safe_steps(seq)
            l2 = safe_steps(seq)
            ctx.case(("X-iter", n), tags=["X-xdmf-iter"])
            if l1 != list(range(n)) or l2 != l1 or seq.number_of_steps != n:
                ctx.violation({"part": "X", "n": n}, [l1, l2], list(range(n)), what="XDMF sequence iteration")
            for p in list(range(n)) + [None]:
                write(f"res{n}.xdmf", set() if p is None else {p}, n)
                rc, steps = run_cli(["file", f"res{n}.xdmf", f"ref{n}.xdmf"])
                ctx.case(("X", n, p), tags=["X-xdmf-cli"])
                exp = 0 if p is None else 1
                if rc != exp or steps != list(range(n)):
                    ctx.violation({"part": "X", "n": n, "deviating": p}, {"exit": rc, "steps": steps}, {"exit": exp},
                                  what="XDMF time series comparison")
    finally:
        os.chdir(cwd)
        shutil.rmtree(d, ignore_errors=True)


def run(ctx):
    ctx.rule = ("T: every (status, test list <= 2) of TestSuite; I: (carrier custom/pvd/xdmf (HDF5, XML, binary heavy data), n, initial cursor, number of generators, "
                "history of next() calls: sequential full/abandoned iterations or interleaved); M: (options, lengths, initial "
                "cursors, prescribed per-step suites incl. one deviating step at first/last/random position); F: (result and "
                "reference step variants, options) through the CLI on generated .pvd/.vtu files; F2/FX/I2 (phase 6 G): re-written paths, "
                "same file in both roles, n > 10, repeated pieces, piece paths, time values, per-step meshes, XDMF through the CLI, "
                "several live sequence objects with unrelated reads in between; non-trivial = at least one "
                "step is iterated/compared; distinct = distinct model input line (+ carrier / file variants)")
    ctx.assumptions += [
        "per-step comparison outcome (`_compare_field_data`) is an external fact: prescribed (part M) or measured with the "
        "single-file CLI on the same pair of step files (part F)",
        "sources behave like the PVD/XDMF cursor machine (reset/step/get); `get` beyond the end raises IndexError",
        "ElementTree / the VTU reader parse the generated files (tiny ASCII .vtu written by the harness)",
        "two live iterators over the SAME sequence object share its cursor (modelled and compared, but outside the property)",
    ]
    files = Files(8)
    try:
        if ctx.driver_ok:
            part_T(ctx)
        part_I(ctx, files)
        part_IX(ctx)
        part_M(ctx)
        part_F(ctx, files)
        from fcv import c15_seqscen_p6g as P6G      # (phase 6 G) directed batches F2 / FX / I2: notes/PHASE6_G2_C15.md
        import sys
        P6G.run_batches(ctx, sys.modules[__name__])
        if ctx.tier == "thorough":
            part_X(ctx)
    finally:
        files.close()
    ctx.notes.append("n = 0 (empty sequence): iteration raises IndexError, CLI exits 1 — outside the quantifier (DESIGN §8 N3)")
    ctx.spec_viol = ctx.spec_viol[:20]


class _Sink:
    """collects the findings of a replay without touching the run's own bookkeeping"""

    def __init__(self, ctx):
        self.driver_ok, self._ctx = ctx.driver_ok, ctx
        self.corr_mismatch, self.spec_viol, self.internal = [], [], []

    def lean(self, lines):
        return self._ctx.lean(lines)

    def mismatch(self, case, impl, model, what="impl vs model"):
        self.corr_mismatch.append({"what": what, "impl": impl, "model": model})

    def violation(self, case, impl, spec, cls=None, what=""):
        self.spec_viol.append({"what": what, "impl": impl, "spec": spec})

    def inconsistent(self, case, model, spec):
        self.internal.append({"model": model, "spec": spec})


def replay_case(ctx, c):
    """-> list of problem strings"""
    ctx = _Sink(ctx)
    before = (0, 0, 0)
    part = c.get("part")
    files = Files(8)
    try:
        if part == "I":
            from fieldcompare import FieldDataSequence
            import fieldcompare.io as fio
            if c["carrier"] == "xdmf":
                from fcv import xdmfseq_p5c as X
                xfiles = X.XdmfFiles()
                try:
                    got, xprobs, nsteps, lists = run_xdmf_hist(xfiles, c)
                finally:
                    xfiles.close()
                line = f"c15iter {c['n']} 0 {c['G']} {len(c['hist'])} " + " ".join(map(str, c["hist"]))
                rep = ctx.lean([line.strip()])[0] if ctx.driver_ok else None
                print("replay: impl", got, "content problems", xprobs, "list() after the history", lists)
                check_xdmf(ctx, c, got, xprobs, nsteps, lists, rep)
                return [m["what"] for m in ctx.corr_mismatch] + [v["what"] for v in ctx.spec_viol] \
                    + ["model vs spec" for _ in ctx.internal]
            if c["carrier"] == "custom":
                src = RecSource(c["n"], c["cur0"])
                got = drive(FieldDataSequence(src), c["G"], c["hist"], calls_of=src)
                c = dict(c, final_cur=src._i)
                wc = True
            else:
                got = drive(fio.read(files.pvd([(s, 0) for s in range(c["n"])])), c["G"], c["hist"])
                wc = False
                seq = fio.read(files.pvd([(s, 0) for s in range(c["n"])]))
                l1, l2 = safe_steps(seq), safe_steps(seq)
                print("replay: list(read(pvd)) twice:", l1, l2)
                if l1 != list(range(c["n"])) or l2 != l1:
                    ctx.violation(c, [l1, l2], list(range(c["n"])), what="list(read(pvd)) repeated")
            line = f"c15iter {c['n']} {c['cur0']} {c['G']} {len(c['hist'])} " + " ".join(map(str, c["hist"]))
            rep = ctx.lean([line.strip()])[0] if ctx.driver_ok else None
            print("replay: impl", got)
            check_iter(ctx, c, got, rep, wc)
        elif part == "M":
            got = run_compare_stub(c)
            rep = ctx.lean(["c15cmp " + enc_cmp(c)])[0] if ctx.driver_ok else None
            print("replay: impl", got, "lean", rep)
            check_cmp(ctx, c, got, rep)
        elif part == "F":
            got = run_file_case(files, c)
            facts = file_facts(files, c)
            rep = ctx.lean([enc_file(c, facts)])[0] if ctx.driver_ok else None
            print("replay: impl", got, "step facts", facts, "lean", rep)
            check_file(ctx, c, got, facts, rep)
        elif part in ("F2", "FX", "FX-mixed", "I2"):
            from fcv import c15_seqscen_p6g as P6G
            import sys
            P6G.replay_case(ctx, sys.modules[__name__], c)
        elif part == "F-mixed":
            pv = files.pvd([(s, 0) for s in range(c["n"])])
            pair = [pv, files.step(0, 0)] if c["order"] == 0 else [files.step(0, 0), pv]
            rc, steps = run_cli(["file"] + pair + c["flags"])
            print("replay: impl exit", rc, "steps", steps)
            if rc == 0 or steps:
                ctx.violation(c, rc, "non-zero", what="a sequence compared equal to a single data set")
        else:
            print("replay: case without a re-runnable part:", c)
            return ["not re-runnable"]
    finally:
        files.close()
    probs = [m["what"] for m in ctx.corr_mismatch[before[0]:]] + [v["what"] for v in ctx.spec_viol[before[1]:]] \
        + ["model vs spec" for _ in ctx.internal[before[2]:]]
    return probs


def replay_witness(ctx, entry):
    if isinstance(entry["witness"], dict) and "fn" in entry["witness"]:
        from fcv import core
        return core.run_named_witness(entry)
    probs = replay_case(ctx, entry["witness"])
    return bool(probs), probs


def replay(ctx, payload):
    probs = replay_case(ctx, payload["case"])
    if probs:
        for p in probs:
            print("replay:", p)
        print(f"VIOLATION property=C15 replay={payload.get('_path', '<replay>')}")
        return 1
    print("replay: no deviation")
    return 0
