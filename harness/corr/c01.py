"""C01 — fuzzy equality decides exactly the documented tolerance formula.

Correspondence: fieldcompare.predicates.FuzzyEquality vs the Lean model `Fc.fuzzyCheck`.
Search: implementation vs (i) the Lean spec `Fc.Spec.fuzzySpec`, (ii) an independent Python oracle
that evaluates the documented formula with exact rationals rounded once per operation, and
(iii) the exact-arithmetic formula (exact-true must never be impl-false)."""
from __future__ import annotations
import math

import numpy as np

from fcv import predio
from fcv.num import next_up, next_down, rn64
from fractions import Fraction

EXPS = [-1074, -1070, -1040, -1023, -1022, -1021, -600, -150, -127, -60, -20, -3, -1, 0, 1, 2, 10, 40,
        100, 300, 600, 900, 996]   # 2**996 ~ 6.7e299


def rand_float(rng, exps=EXPS) -> float:
    r = rng.random()
    if r < 0.03:
        return 0.0 if rng.random() < 0.5 else -0.0
    e = rng.choice(exps) + rng.randint(-2, 2)
    e = max(-1074, min(996, e))
    kind = rng.random()
    if kind < 0.2:
        m = 1.0
    elif kind < 0.4:
        m = 1.0 + rng.getrandbits(4) / 16.0
    else:
        m = 1.0 + rng.getrandbits(52) / 2.0 ** 52
    x = math.ldexp(m, e)
    return -x if rng.random() < 0.5 else x


RELS = [0.0, 2.0 ** -52, 2.0 ** -53, 1e-15, 1e-12, 1e-9, 1e-8, 1e-6, 1e-3, 0.1, 0.5, 2.0 ** -10, 2.0 ** -20,
        1.0, 3.0, 1e10, 1e300]
ABSS = [0.0, 5e-324, 2.0 ** -1074 * 7, 2.0 ** -1022, 1e-300, 1e-30, 1e-12, 1e-9, 1e-6, 1e-3, 1.0, 2.0 ** 20, 1e100,
        1e299]


def near_boundary_partner(rng, a: float, rel: float, abs_: float) -> float:
    """b such that |a-b| is on / next to the threshold (threshold evaluated once, then b perturbed
    by 0..2 ulp in either direction)"""
    m = abs(a)
    for _ in range(3):   # fixed-point iteration because the threshold depends on max(|a|,|b|)
        t = max(rn64(Fraction(m) * Fraction(rel)), abs_)
        if math.isinf(t):
            t = 1e300
        sgn = 1.0 if rng.random() < 0.5 else -1.0
        b = rn64(Fraction(a) + Fraction(sgn * t))
        if math.isinf(b):
            b = a
        m = max(abs(a), abs(b))
    k = rng.choice([0, 0, 1, 1, 2])
    if k:
        b = next_up(b, k) if rng.random() < 0.5 else next_down(b, k)
    if math.isinf(b) or abs(b) > 1e300 * 4:
        b = a
    return b


def gen_scalar_case(rng):
    a = rand_float(rng)
    rel = rng.choice(RELS)
    abs_ = rng.choice(ABSS)
    r = rng.random()
    if r < 0.75:
        b = near_boundary_partner(rng, a, rel, abs_)
        tag = "boundary"
    elif r < 0.85:
        b = a
        tag = "identical"
    else:
        b = rand_float(rng)
        tag = "random"
    shape = rng.choice([[], [1]])
    relt = ["num", rel] if rng.random() < 0.9 else ["dflt"]
    return {"kind": "fuzzy", "rel": relt, "abs": ["num", abs_],
            "a": {"dt": "f64", "shape": shape, "v": [a]}, "b": {"dt": "f64", "shape": shape, "v": [b]}}, tag


def _prod(s):
    r = 1
    for d in s:
        r *= d
    return r


def gen_array_case(rng, big=False):
    n = rng.choice([0, 1, 2, 3, 5, 17, 40] + ([1000] if big else []))
    k = rng.choice([1, 2, 3])
    form = rng.choice(["n", "nk", "nkk", "n1"])
    shape = {"n": [n], "nk": [n, k], "nkk": [n, k, k], "n1": [n, 1]}[form]
    size = _prod(shape)
    scale = rng.choice(EXPS)
    a = [rand_float(rng, [scale]) for _ in range(size)]
    b = list(a)
    entry = shape[1:]
    rs = max(_prod(entry), 1)
    # tolerances
    tk = rng.random()
    if tk < 0.35:
        rel, abs_ = ["num", rng.choice(RELS)], ["num", rng.choice(ABSS)]
        ttag = "tol-num"
    elif tk < 0.6 and len(shape) >= 2:
        rel = ["arr", entry, [rng.choice(RELS[:12]) for _ in range(rs)]]
        abs_ = ["arr", entry, [rng.choice(ABSS) for _ in range(rs)]] if rng.random() < 0.5 else ["num", rng.choice(ABSS)]
        ttag = "tol-percomp"
    elif tk < 0.75:
        rel, abs_ = ["num", rng.choice(RELS[:12])], ["scaled", rng.choice([1e-12, 1e-6, 2.0 ** -20, 0.0, 0.25])]
        ttag = "tol-scaled"
    elif tk < 0.85:
        rel, abs_ = ["num", rng.choice(RELS[:12])], ["scomp", rng.choice([1e-12, 1e-6, 2.0 ** -20, 0.25])]
        ttag = "tol-scaledcomp"
    elif tk < 0.93:
        rel, abs_ = ["dflt"], ["num", 0.0]
        ttag = "tol-default"
    else:
        rel, abs_ = ["scaled", None], ["num", rng.choice(ABSS)]
        ttag = "tol-scaled-default-rel"
    tags = [ttag, "shape-" + form, f"n={n}"]
    # deviating entry
    if size > 0 and rng.random() < 0.85:
        pos = rng.choice(["first", "last", "interior", "lastcomp"])
        idx = {"first": 0, "last": size - 1, "interior": rng.randrange(size), "lastcomp": min(size - 1, rs - 1)}[pos]
        tags.append("dev-" + pos)
        # threshold at that index
        fa = {"dt": "f64", "shape": shape, "v": a}
        r = predio.oracle_tol_at(rel, fa, fa, shape, idx, 2.0 ** -52)
        t = predio.oracle_tol_at(abs_, fa, fa, shape, idx, 0.0)
        if r is not None and t is not None:
            b[idx] = near_boundary_partner(rng, a[idx], r, t)
        else:
            b[idx] = next_up(a[idx], 3)
    else:
        tags.append("dev-none")
    # second operand's shape: same, or the (n,) ~ (n,1) / (n,1) ~ (n,1,1) mix, or a genuine mismatch
    sb = list(shape)
    sm = rng.random()
    if sm < 0.12 and form == "n":
        sb = [n, 1]; tags.append("mix-n-n1")
    elif sm < 0.2 and form == "n1":
        sb = [n]; tags.append("mix-n1-n")
    elif sm < 0.25 and form == "n1":
        sb = [n, 1, 1]; tags.append("mix-n1-n11")
    elif sm < 0.30 and form == "n" and n > 0:
        sb = [n, 1, 1]; tags.append("mismatch-n-n11")
    elif sm < 0.36 and size > 1 and form in ("nk", "nkk") and k > 1:
        sb = [size]; tags.append("mismatch-flat")
    elif sm < 0.40 and form == "nk" and k > 1 and n > 1 and n != k:
        sb = [k, n]; tags.append("mismatch-transposed")
    swap = rng.random() < 0.5
    A = {"dt": "f64", "shape": shape, "v": a}
    B = {"dt": "f64", "shape": sb, "v": b}
    if swap:
        A, B = B, A
    return {"kind": "fuzzy", "rel": rel, "abs": abs_, "a": A, "b": B}, tags


# ---------------------------------------------------------------- float32 / float16 operands
SMALL = {"f32": (24, -149, 128, 2.0 ** -23), "f16": (11, -24, 16, 2.0 ** -10)}   # precision, log2(min subnormal), emax, eps


def rn_fmt(x: Fraction, dt: str):
    """x rounded to float32 / float16 (round-to-nearest-even, gradual underflow), computed with integers only;
    math.inf = overflow.  Independent of numpy and of the Lean model."""
    if x == 0:
        return Fraction(0)
    sgn = -1 if x < 0 else 1
    x = abs(x)
    prec, qmin, emax, _ = SMALL[dt]
    e = x.numerator.bit_length() - x.denominator.bit_length()
    if Fraction(2) ** e > x:
        e -= 1
    q = max(e - (prec - 1), qmin)
    y = x / Fraction(2) ** q
    n = y.numerator // y.denominator
    r = y - n
    if r > Fraction(1, 2) or (r == Fraction(1, 2) and n % 2 == 1):
        n += 1
    res = n * Fraction(2) ** q
    if res >= Fraction(2) ** emax:
        return sgn * math.inf
    return sgn * res


def weak_formula(dt, a: float, b: float, r, t) -> bool:
    """documented formula evaluated in float32/float16 with tolerances r, t already rounded to that format"""
    d = rn_fmt(abs(Fraction(b) - Fraction(a)), dt)
    p = rn_fmt(max(abs(Fraction(a)), abs(Fraction(b))) * r, dt)
    return d <= max(p, t)


def oracle_weak(c):
    """'T'/'F' demanded for two float32/float16 arrays and Python-float tolerances; None if a tolerance is not weak
    or its rounding overflows (outside the hypothesis of C01_weak_model_eq_spec)"""
    a, b = c["a"], c["b"]
    dt = a["dt"]
    tol = []
    for t, dflt in ((c["rel"], SMALL[dt][3]), (c["abs"], 0.0)):
        if t[0] not in ("num", "int", "dflt"):
            return None
        x = rn_fmt(Fraction(dflt if t[0] == "dflt" else t[1]), dt)
        if x == math.inf:
            return None
        tol.append(x)
    if not predio.shapes_compatible(a["shape"], b["shape"]):
        return "F"
    return "T" if all(weak_formula(dt, float(x), float(y), tol[0], tol[1]) for x, y in zip(a["v"], b["v"])) else "F"


def gen_small_float_case(rng):
    """float32 / float16 arrays of shapes (n,), (n,k), (n,1) with Python-float ('weak': numpy keeps the arithmetic in
    the arrays' format) tolerances, and — less often — float64-array / scaled ('strong') tolerances"""
    import numpy as np
    dt = rng.choice(["f32", "f32", "f16"])
    T = predio.NP_DT[dt]
    prec, qmin, emax, eps = SMALL[dt]
    n = rng.choice([0, 1, 2, 3, 5, 17])
    k = rng.choice([1, 2, 3])
    form = rng.choice(["n", "n", "nk", "nk", "n1"])
    shape = {"n": [n], "nk": [n, k], "n1": [n, 1]}[form]
    size = _prod(shape)
    e = rng.choice([qmin, qmin + 4, qmin + 23, -60, -10, 0, 1, 20, 90, emax - 8, emax - 2])
    e = max(qmin, min(emax - 2, e))

    def rv():
        m = 1.0 + rng.getrandbits(prec - 1) / 2.0 ** (prec - 1)
        x = math.ldexp(m, max(qmin, min(emax - 1, e + rng.randint(-2, 2))))
        with np.errstate(all="ignore"):
            v = float(T(-x if rng.random() < 0.5 else x))
        return v if math.isfinite(v) else 0.0
    a = [rv() for _ in range(size)]
    b = list(a)
    entry = shape[1:]
    rs = max(_prod(entry), 1)
    RELS_S = [0.0, eps, eps / 2, 1e-6, 1e-3, 0.1, 2.0 ** -10, 0.3, 1e-9]
    ABSS_S = [0.0, 1e-45, 6e-8, 1e-38, 1e-30, 1e-6, 1e-3, 1.0, 2.0 ** -20 - 2.0 ** -60]
    tk = rng.random()
    if tk < 0.6:
        rel, abs_ = ["num", rng.choice(RELS_S)], ["num", rng.choice(ABSS_S)]
        ttag = "tol-weak-num"
    elif tk < 0.72:
        rel, abs_ = ["dflt"], ["num", rng.choice([0.0, 0.0, 1e-6])]
        ttag = "tol-weak-default"
    elif tk < 0.84 and len(shape) >= 2:
        rel = ["arr", entry, [rng.choice(RELS_S) for _ in range(rs)]]
        abs_ = ["arr", entry, [rng.choice(ABSS_S) for _ in range(rs)]] if rng.random() < 0.5 else ["num", rng.choice(ABSS_S)]
        ttag = "tol-strong-percomp"
    elif tk < 0.94:
        rel, abs_ = ["num", rng.choice(RELS_S)], ["scaled", rng.choice([1e-12, 1e-6, 2.0 ** -20, 0.25])]
        ttag = "tol-strong-scaled"
    else:
        rel, abs_ = ["num", rng.choice(RELS_S)], ["scomp", rng.choice([1e-6, 2.0 ** -20, 0.25])]
        ttag = "tol-strong-scaledcomp"
    tags = [dt, dt + "-shape-" + form, ttag]
    if size > 0 and rng.random() < 0.9:
        i = rng.choice([0, size - 1, rng.randrange(size)])
        fa = {"dt": dt, "shape": shape, "v": a}
        r = predio.oracle_tol_at(rel, fa, fa, shape, i, eps)
        t = predio.oracle_tol_at(abs_, fa, fa, shape, i, 0.0)
        with np.errstate(all="ignore"):
            if r is not None and t is not None:
                thr = max(float(T(T(abs(a[i])) * T(r))), float(T(t)))
                bb = T(T(a[i]) + T(thr if rng.random() < 0.5 else -thr))
                for _ in range(rng.choice([0, 0, 1, 2])):
                    bb = np.nextafter(bb, T(np.inf) if rng.random() < 0.5 else T(-np.inf))
                if np.isfinite(bb):
                    b[i] = float(bb)
    sb = list(shape)
    sm = rng.random()
    if sm < 0.1 and form == "n":
        sb = [n, 1]; tags.append("mix-n-n1")
    elif sm < 0.15 and form == "nk" and k > 1 and size > 1:
        sb = [size]; tags.append("mismatch-flat")
    A = {"dt": dt, "shape": shape, "v": a}
    B = {"dt": dt, "shape": sb, "v": b}
    if rng.random() < 0.5:
        A, B = B, A
    return {"kind": "fuzzy", "rel": rel, "abs": abs_, "a": A, "b": B}, tags


def is_nontrivial(case) -> bool:
    return case["a"]["v"] != case["b"]["v"] or case["a"]["shape"] != case["b"]["shape"]


def evaluate(ctx, cases, tagsl):
    lines = [predio.enc_pred(c["kind"], c["rel"], c["abs"], c["a"], c["b"]) for c in cases]
    replies = ctx.lean(lines) if ctx.driver_ok else [None] * len(cases)
    for c, tags, rep in zip(cases, tagsl, replies):
        impl = predio.run_impl(c["kind"], c["rel"], c["abs"], c["a"], c["b"])
        if c["a"]["dt"] in SMALL:
            # float32 / float16.  hyp (hk=weak): theorem C01_weak_model_eq_spec — model = spec = documented formula
            # evaluated in the arrays' format with the format-rounded tolerances (cross-checked with the integer-only
            # Python oracle `oracle_weak`).  mhyp: the model is meant to reproduce the code (strong route included).
            hyp = rep is not None and rep.get("hyp") == "1"
            ctx.case((c["rel"], c["abs"], c["a"], c["b"]), nontrivial=is_nontrivial(c),
                     tags=list(tags) + ["verdict-" + impl, "small-hyp" if hyp else "small-nohyp"], sample=None)
            if rep is not None and "model" not in rep:
                ctx.inconsistent(c, str(rep), "bad-op")
                continue
            if rep is not None and (hyp or rep.get("mhyp") == "1") and rep["model"] != impl:
                ctx.mismatch(c, impl, rep["model"], what=c["a"]["dt"] + ": impl vs model")
            if hyp:
                orc = oracle_weak(c)
                if rep["spec"] != rep["model"]:
                    ctx.inconsistent(c, rep["model"], rep["spec"])
                if orc is None or rep["spec"] != orc:
                    ctx.inconsistent(c, "lean-spec=" + rep["spec"], "python-oracle=" + str(orc))
            continue
        orc = predio.oracle_fuzzy_f64(c["rel"], c["abs"], c["a"], c["b"])
        exact = predio.oracle_fuzzy_f64(c["rel"], c["abs"], c["a"], c["b"], formula=predio.exact_formula)
        tags = list(tags) + ["verdict-" + impl]
        ctx.case(lines[cases.index(c)] if False else (c["rel"], c["abs"], c["a"], c["b"]),
                 nontrivial=is_nontrivial(c), tags=tags,
                 sample={"case": c, "impl": impl, "oracle": orc, "lean": rep})
        if rep is not None and "hyp" in rep:
            if rep["hyp"] == "1":
                if rep["model"] != impl:
                    ctx.mismatch(c, impl, rep["model"])
                if rep["spec"] != rep["model"]:
                    ctx.inconsistent(c, rep["model"], rep["spec"])
                if rep["spec"] != orc:
                    ctx.inconsistent(c, "lean-spec=" + rep["spec"], "python-oracle=" + orc)
        elif rep is not None:
            ctx.inconsistent(c, str(rep), "bad-op")
        # search: implementation against the property's formula
        if orc in ("T", "F") and impl != orc:
            ctx.violation(c, impl, orc, cls=None, what="FuzzyEquality verdict differs from the documented formula")
        elif exact == "T" and impl == "F":
            ctx.violation(c, impl, "T", cls=None, what="exact formula holds but FuzzyEquality rejects")


def shrink(c):
    """reduce an array case to a single scalar pair when that still shows a disagreement"""
    if "history" in c or c.get("kind") in ("cli-tol", "long", "long-tol") or c.get("mixed_float") or "mixed_precision" in c:
        return c
    a, b = c["a"], c["b"]
    if a["shape"] != b["shape"] or len(a["v"]) <= 1:
        return c
    if c["rel"][0] not in ("num", "dflt") or c["abs"][0] not in ("num", "dflt"):
        return c
    for x, y in zip(a["v"], b["v"]):
        c2 = dict(c, a={"dt": a["dt"], "shape": [1], "v": [x]}, b={"dt": b["dt"], "shape": [1], "v": [y]})
        if predio.run_impl(c2["kind"], c2["rel"], c2["abs"], c2["a"], c2["b"]) != \
                predio.oracle_fuzzy_f64(c2["rel"], c2["abs"], c2["a"], c2["b"]):
            return c2
    return c


def reused_dynamic_tolerances(ctx, n):
    """tolerances 'computed from the data' (ScaledTolerance) held by ONE predicate object that is evaluated on several
    fields of different magnitude, as the CLI does with `-atol <t>*max`: every single verdict must still be the
    documented formula with t * max|.| of THAT pair"""
    rng = ctx.rng
    for _ in range(n):
        base = rng.choice([1e-12, 1e-6, 2.0 ** -20, 1e-3, 0.25])
        rel = rng.choice(RELS[:12])
        comp = rng.random() < 0.3
        abs_t = ["scomp", base] if comp else ["scaled", base]
        pred = predio.make_pred("fuzzy", ["num", rel], abs_t)
        hist = []
        for k in range(rng.randint(2, 4)):
            c, tags = gen_array_case(rng)
            # keep shapes that the per-component mode accepts; operands must be non-empty for a dynamic tolerance
            if not c["a"]["v"] or c["a"]["shape"] != c["b"]["shape"]:
                continue
            c = dict(c, rel=["num", rel], abs=abs_t)
            impl = predio.run_impl("fuzzy", c["rel"], c["abs"], c["a"], c["b"], pred=pred)
            hist.append({"a": c["a"], "b": c["b"]})
            orc = predio.oracle_fuzzy_f64(c["rel"], c["abs"], c["a"], c["b"])
            ctx.case(("reuse", k, c["rel"], c["abs"], c["a"], c["b"]), nontrivial=is_nontrivial(c),
                     tags=["reused-dynamic-tol", f"use-{k}", "verdict-" + impl], sample=None)
            if orc in ("T", "F") and impl != orc:
                ctx.violation(dict(c, reused_predicate_use=k, history=list(hist)), impl, orc, cls=None,
                              what="verdict of a REUSED predicate with a data-computed tolerance differs from the "
                                   "documented formula (use number %d of the same object)" % k)


# ---------------------------------------------------------------- command-line route ("tolerances given as numbers")

CLI_WHAT = ("`fieldcompare file` exit status differs from the documented formula evaluated with the tolerances that the "
            "documented option semantics select (NAME:V overrides the general V; absent: rel = eps, abs = 0)")


def _cli_payload(ct, c, e, out):
    return dict(c, argv_options=ct.option_argv(c["sc"]), exit=out, fields=ct.describe(e))


def cli_route(ctx, n_vtu_pairs, rounds):
    """the route by which tolerances GIVEN AS NUMBERS reach the predicate for a command-line user: generated CSV / .vtu
    files with float64 fields, compared by `fieldcompare._cli.main(["file", …])` under every pair of (-rtol layout,
    -atol layout) of `clitol_p5a.LAYOUTS` — general and per-field values in either order, explicit zeros in every
    position — with one entry placed on / one ulp inside / one ulp outside the threshold.  The tolerances of every field
    are decided here from the documented option semantics; arrays + tolerances go to the Lean model of the predicate
    exactly like the API cases; the exit code must be 0 iff every compared field is model-equal (hyp: theorem
    C01_model_eq_spec, all float64 arrays and tolerance kinds)."""
    from fcv import clitol_p5a as ct, cli_scen as cs
    items = ct.layout_cases(ctx.rng, n_vtu_pairs, rounds)
    wd = cs.Workdir()
    try:
        CH = 250
        for i in range(0, len(items), CH):
            chunk = items[i:i + CH]
            exps = ct.expected(ctx, [c["sc"] for c, _ in chunk])
            for (c, tags), e in zip(chunk, exps):
                sc = c["sc"]
                r = ct.run_files(sc, wd, [("res", "ref", sc["rtol"], sc["atol"])])
                out = r["outs"][0]
                key = ("cli", tuple(ct.option_argv(sc)), repr(cs.data_fields(sc["res"])), repr(cs.data_fields(sc["ref"])))
                if not r["readok"] or e["pairs"] is None:
                    # the generated file does not read back to the intended data: outside what is modelled
                    ctx.case(key, nontrivial=False, tags=list(tags) + ["cli-discarded-reader-sidecheck"])
                    continue
                dev = c.get("deviation")
                ctx.case(key, nontrivial=bool(dev and dev["from"] != dev["to"]), tags=list(tags) + ["cli-exit-" + out],
                         sample={"argv_options": ct.option_argv(sc), "exit": out, "fields": ct.describe(e)})
                wp = ct.want_exit(e["py"])
                if e["bad"] is not None:
                    ctx.inconsistent(c, str(e["bad"]), "bad-op")
                elif e["model"] is not None and e["hyp"]:
                    wm, ws = ct.want_exit(e["model"]), ct.want_exit(e["spec"])
                    if not ct.agrees(out, wm):
                        ctx.mismatch(_cli_payload(ct, c, e, out), "exit=" + out, "exit " + str(wm),
                                     what="CLI exit status vs model verdicts of the compared fields")
                    if e["spec"] != e["model"]:
                        ctx.inconsistent(c, str(e["model"]), str(e["spec"]))
                    if e["spec"] != e["py"]:
                        ctx.inconsistent(c, "lean-spec=" + str(e["spec"]), "python-oracle=" + str(e["py"]))
                    if not ct.agrees(out, ws):
                        ctx.violation(_cli_payload(ct, c, e, out), "exit=" + out,
                                      "exit 0" if ws == "0" else "non-zero exit", cls=None, what=CLI_WHAT)
                        continue
                if not ct.agrees(out, wp):
                    ctx.violation(_cli_payload(ct, c, e, out), "exit=" + out, "exit 0" if wp == "0" else "non-zero exit",
                                  cls=None, what=CLI_WHAT + " (python oracle)")
    finally:
        wd.close()


def replay_cli(ctx, c):
    from fcv import clitol_p5a as ct
    sc = c["sc"]
    e = ct.expected(ctx, [sc])[0]
    out = ct.run_scenario(sc)["outs"][0]
    want = ct.want_exit(e["spec"]) if (e["spec"] is not None and e["hyp"]) else ct.want_exit(e["py"])
    print(f"replay: fieldcompare file <res> <ref> {' '.join(ct.option_argv(sc))} -> exit class {out}; "
          f"demanded: {want}; fields: {ct.describe(e)}")
    return not ct.agrees(out, want)


# ---------------------------------------------------------------- long arrays (deviation hidden far from the start)
LONG_QUICK = [4097, 65537, 100001, 131073]
LONG_THOROUGH = LONG_QUICK + [16385, 32769, 262145, 524289, 1000003, 1048577]


def _long_arrays(c):
    """literal description -> (A, B) case dicts; a = the pattern repeated, b = a with ONE entry replaced"""
    n, k, pat = c["n"], c["k"], c["pattern"]
    size = n * k
    a = (pat * (size // len(pat) + 1))[:size]
    b = list(a)
    b[c["dev_index"]] = c["dev_value"]
    shape = [n] if k == 1 else [n, k]
    return {"dt": "f64", "shape": shape, "v": a}, {"dt": "f64", "shape": shape, "v": b}


def long_arrays(ctx, sizes):
    """n far beyond anything a test visits: one deviating entry at the last row, at the first row after the largest
    power of two below n, at a middle row — once 1 ulp inside and once 1 ulp outside the threshold.  The expected
    verdict is the formula at the deviating entry (all other entries are identical, |x-x| = 0 <= any threshold)."""
    rng = ctx.rng
    todo = []
    for n in sizes:
        for k in ([1, 3] if n <= 140000 else [1]):
            pat = [rand_float(rng, [0]) for _ in range(7)]
            p2 = 1 << ((n - 1).bit_length() - 1)
            for row in (n - 1, p2, n // 2):
                col = rng.randrange(k)
                idx = row * k + col
                a_i = (pat * 2)[idx % len(pat)]
                rel, abs_ = rng.choice([1e-6, 2.0 ** -20, 1e-9]), rng.choice([0.0, 1e-12])
                thr_b = near_boundary_partner(rng, a_i, rel, abs_)
                for dev in (thr_b, a_i * (1 + 8 * rel) + 1e-9):
                    todo.append({"kind": "long", "n": n, "k": k, "pattern": pat, "dev_index": idx, "dev_row": row,
                                 "dev_value": dev, "rel": ["num", rel], "abs": ["num", abs_]})
    # the Lean model is evaluated on the shortest size only (the driver needs ~0.3 ms per entry); for the longer ones the
    # expectation is the documented formula at the single deviating entry, computed in Python (exact rationals)
    lines, lidx = [], []
    for j, c in enumerate(todo):
        if c["n"] <= 4097 and c["k"] == 1 and c["dev_row"] != c["n"] // 2:
            A, B = _long_arrays(c)
            lines.append(predio.enc_pred("fuzzy", c["rel"], c["abs"], A, B)); lidx.append(j)
    reps = [None] * len(todo)
    if ctx.driver_ok and lines:
        for j, r in zip(lidx, ctx.lean(lines)):
            reps[j] = r
    for c, rep in zip(todo, reps):
        A, B = _long_arrays(c)
        impl = predio.run_impl("fuzzy", c["rel"], c["abs"], A, B)
        i = c["dev_index"]
        orc = "T" if predio.float_formula(A["v"][i], B["v"][i], c["rel"][1], c["abs"][1]) else "F"
        where = "last" if c["dev_row"] == c["n"] - 1 else ("mid" if c["dev_row"] == c["n"] // 2 else "after-pow2")
        ctx.case(("long", c["n"], c["k"], i, c["dev_value"], c["rel"][1], c["abs"][1]), nontrivial=True,
                 tags=["long-array", f"long-n={c['n']}", "long-dev-" + where, "verdict-" + impl], sample=None)
        if rep is not None and rep.get("hyp") == "1":
            if rep["model"] != impl:
                ctx.mismatch(c, impl, rep["model"], what="long array: impl vs model")
            if rep["spec"] != rep["model"] or rep["spec"] != orc:
                ctx.inconsistent(c, rep.get("model"), f"spec={rep.get('spec')} oracle={orc}")
        if impl != orc:
            ctx.violation(c, impl, orc, cls=None,
                          what=f"FuzzyEquality verdict differs from the documented formula: arrays of {c['n']} rows, "
                               f"single deviating entry in row {c['dev_row']}")


def replay_long(ctx, c):
    A, B = _long_arrays(c)
    impl = predio.run_impl("fuzzy", c["rel"], c["abs"], A, B)
    i = c["dev_index"]
    orc = "T" if predio.float_formula(A["v"][i], B["v"][i], c["rel"][1], c["abs"][1]) else "F"
    print(f"replay long array n={c['n']} k={c['k']} deviating row {c['dev_row']}: impl={impl} formula={orc}")
    return impl != orc


def mixed_precision(ctx, n):
    """one operand float32 (or float16), the other float64, in either argument order: numpy promotes to float64, so the
    verdict must be the documented formula evaluated in binary64 on the (exactly representable) values — whichever
    operand comes first.  Not covered by the Lean model (one float format per evaluation): implementation against the
    Python rational / binary64 oracle only."""
    rng = ctx.rng
    for _ in range(n):
        small = rng.choice(["f32", "f32", "f16"])
        npdt = predio.NP_DT[small]
        nrow = rng.choice([1, 2, 5, 17])
        k = rng.choice([1, 1, 3])
        shape = [nrow] if k == 1 else [nrow, k]
        size = nrow * k
        exps = [e for e in EXPS if -4 <= e <= 4] if small == "f16" else [e for e in EXPS if -30 <= e <= 30]
        scale = rng.choice(exps)
        a = [float(npdt(rand_float(rng, [scale]))) for _ in range(size)]
        a = [x if np.isfinite(x) else 1.5 for x in a]
        b = list(a)
        rel, abs_ = rng.choice(RELS[:13]), rng.choice(ABSS[:6])
        for _ in range(rng.choice([0, 1, 1, 2])):
            i = rng.randrange(size)
            b[i] = near_boundary_partner(rng, a[i], rel, abs_) if rng.random() < 0.7 else rand_float(rng, [scale])
        A = {"dt": small, "shape": shape, "v": a}
        B = {"dt": "f64", "shape": shape, "v": b}
        A64 = dict(A, dt="f64")
        orc = predio.oracle_fuzzy_f64(["num", rel], ["num", abs_], A64, B)
        for first, second, order in ((A, B, "small-first"), (B, A, "f64-first")):
            impl = predio.run_impl("fuzzy", ["num", rel], ["num", abs_], first, second)
            c = {"kind": "fuzzy", "rel": ["num", rel], "abs": ["num", abs_], "a": first, "b": second, "mixed_precision": order}
            ctx.case(("mixed", small, order, rel, abs_, tuple(a), tuple(b)), nontrivial=(a != b),
                     tags=["mixed-precision", "mixed-" + small, "mixed-" + order, "verdict-" + impl], sample=None)
            if impl != orc:
                ctx.violation(c, impl, orc, cls=None,
                              what=f"FuzzyEquality on a {small} array against a float64 array ({order}) differs from the documented "
                                   "formula evaluated on the promoted (binary64) values")
# ---------------------------------------------------------------- phase 6 G1: dimensions of the quantifier sampled at one point only
import os as _os
P6G_OFF = _os.environ.get("FCV_P6G_OFF") == "1"      # mutation experiments only: run the check WITHOUT the phase-6-G1 batches


def _intlike(t):
    return t[0] == "num" and float(t[1]) == int(t[1]) and abs(t[1]) < 2 ** 53


def gen_representation_cases(rng, n):
    """the SAME logical operands handed over in another memory layout / container: Fortran order, strided / reversed /
    offset views, big-endian storage, read-only arrays (what `np.frombuffer` in the file readers produces), nested Python
    lists / tuples; tolerances handed over as Python int / numpy.float64 instead of float.  Expectation, Lean line and
    oracle are those of the plain case (they only look at the logical values)."""
    cases, tagsl = [], []
    while len(cases) < n:
        q = rng.random()
        if q < 0.55:
            c, t = gen_array_case(rng)
            t = ["array"] + t
        elif q < 0.7:
            c, tg = gen_scalar_case(rng)
            t = ["scalar", tg]
        else:
            c, t = gen_small_float_case(rng)
        tags = list(t) + ["p6-representation"]
        changed = False
        for side in ("a", "b"):
            if rng.random() < 0.75:
                reps = [r for r in predio.REPS_ARRAY + predio.REPS_PY if predio.rep_applicable(c[side], r)]
                if reps:
                    r = rng.choice(reps)
                    c[side] = dict(c[side], rep=r)
                    tags.append(f"rep-{side}-{r}")
                    changed = True
        small = c["a"]["dt"] in SMALL
        for key in ("rel", "abs"):
            if _intlike(c[key]) and rng.random() < 0.6:
                c[key] = ["int", int(c[key][1])]; tags.append("tol-as-python-int"); changed = True
            elif c[key][0] == "num" and not small and rng.random() < 0.25:
                # numpy.float64 tolerance: only next to float64 operands (next to float32 it would be a STRONG scalar and
                # change the arithmetic, which the weak-tolerance oracle does not describe)
                c[key] = ["np64", c[key][1]]; tags.append("tol-as-np-float64"); changed = True
        if changed:
            cases.append(c); tagsl.append(tags)
    return cases, tagsl


def mixed_float_types(ctx, n):
    """float32 / float16 operand next to a float64 operand (either role): numpy promotes to float64 exactly, so the
    verdict demanded is the float64 formula on the values (default rel_tol = eps of the PROMOTED type = 2^-52).  The Lean
    model is asked with both operands declared f64 (value-preserving promotion is the assumption; DESIGN §5 item 4)."""
    import numpy as np
    rng = ctx.rng
    cases, tags = [], []
    for _ in range(n):
        dt = rng.choice(["f32", "f32", "f16"])
        T = predio.NP_DT[dt]
        prec, qmin, emax, eps = SMALL[dt]
        nrow = rng.choice([1, 2, 3, 17])
        k = rng.choice([1, 2, 3])
        form = rng.choice(["n", "nk", "n1"])
        shape = {"n": [nrow], "nk": [nrow, k], "n1": [nrow, 1]}[form]
        size = _prod(shape)
        e = rng.choice([qmin + 2, -10, 0, 1, 10, emax - 3])
        a = []
        for _i in range(size):
            m = 1.0 + rng.getrandbits(prec - 1) / 2.0 ** (prec - 1)
            x = math.ldexp(m, max(qmin, min(emax - 1, e + rng.randint(-1, 1))))
            a.append(float(T(-x if rng.random() < 0.5 else x)))
        b = list(a)
        q = rng.random()
        if q < 0.3:
            rel, abs_ = ["dflt"], ["num", 0.0]
        elif q < 0.45:
            rel, abs_ = ["dflt"], ["dflt"]
        else:
            rel, abs_ = ["num", rng.choice([0.0, 2.0 ** -52, eps, eps / 2, 1e-9, 1e-6, 1e-3])], ["num", rng.choice([0.0, 1e-12, 1e-6])]
        i = rng.choice([0, size - 1, rng.randrange(size)])
        r = 2.0 ** -52 if rel[0] == "dflt" else rel[1]
        t = 0.0 if abs_[0] == "dflt" else abs_[1]
        dev = rng.choice(["none", "boundary", "boundary", "small-type-ulp"])
        if dev == "boundary":
            b[i] = near_boundary_partner(rng, a[i], r, t)            # a float64 value: b is the float64 operand
        elif dev == "small-type-ulp":
            b[i] = float(np.nextafter(T(a[i]), T(np.inf)))           # one ulp of the SMALL type: far outside eps(float64)
        A = {"dt": dt, "shape": shape, "v": a}
        B = {"dt": "f64", "shape": list(shape), "v": b}
        if form == "n" and rng.random() < 0.15:
            B["shape"] = [nrow, 1]
        tg = ["p6-mixed-float", f"mixed-{dt}/f64", "mixed-dev-" + dev, "mixed-rel-" + rel[0]]
        if rng.random() < 0.5:
            A, B = B, A; tg.append("mixed-small-second")
        else:
            tg.append("mixed-small-first")
        cases.append({"kind": "fuzzy", "rel": rel, "abs": abs_, "a": A, "b": B, "mixed_float": True}); tags.append(tg)
    as64 = [dict(c, a=dict(c["a"], dt="f64"), b=dict(c["b"], dt="f64")) for c in cases]
    lines = [predio.enc_pred("fuzzy", c["rel"], c["abs"], c["a"], c["b"]) for c in as64]
    reps = ctx.lean(lines) if ctx.driver_ok else [None] * len(lines)
    for c, c64, tg, rep in zip(cases, as64, tags, reps):
        impl = predio.run_impl("fuzzy", c["rel"], c["abs"], c["a"], c["b"])
        orc = predio.oracle_fuzzy_f64(c64["rel"], c64["abs"], c64["a"], c64["b"])
        ctx.case(("mixed", c["rel"], c["abs"], c["a"], c["b"]), nontrivial=is_nontrivial(c), tags=tg + ["verdict-" + impl],
                 sample=None)
        if rep is not None and rep.get("hyp") == "1":
            if rep["model"] != impl:
                ctx.mismatch(c, impl, rep["model"], what="float32/16 next to float64: impl vs float64 model on the promoted values")
            if rep["spec"] != rep["model"] or rep["spec"] != orc:
                ctx.inconsistent(c, rep["model"], f"spec={rep['spec']} oracle={orc}")
        elif rep is not None and "hyp" not in rep:
            ctx.inconsistent(c, str(rep), "bad-op")
        if orc in ("T", "F") and impl != orc:
            ctx.violation(c, impl, orc, cls=None, what="FuzzyEquality on a float32/float16 array next to a float64 array differs "
                                                       "from the documented formula on the (exactly promoted) values")


def replay_mixed(ctx, c):
    c64 = dict(c, a=dict(c["a"], dt="f64"), b=dict(c["b"], dt="f64"))
    impl = predio.run_impl("fuzzy", c["rel"], c["abs"], c["a"], c["b"])
    orc = predio.oracle_fuzzy_f64(c64["rel"], c64["abs"], c64["a"], c64["b"])
    print(f"replay mixed float types {c['a']['dt']}/{c['b']['dt']}: impl={impl} documented-formula(float64)={orc}")
    return impl != orc


def gen_wide_component_cases(rng, n):
    """vector / tensor fields with MORE than three components ((n,4), (n,6), (n,9), (n,4,4), (n,2,3) non-square) under
    every tolerance kind, the deviation in the first / last / a middle component of the first / last / a middle row"""
    cases, tagsl = [], []
    for _ in range(n):
        nrow = rng.choice([1, 2, 3, 5, 17])
        entry = rng.choice([[4], [6], [9], [4, 4], [2, 3], [3, 2], [1, 3]])
        shape = [nrow] + entry
        rs = _prod(entry)
        size = nrow * rs
        scale = rng.choice(EXPS[4:-3])
        a = [rand_float(rng, [scale]) for _ in range(size)]
        b = list(a)
        tk = rng.choice(["num", "percomp", "percomp", "scaled", "scomp"])
        if tk == "num":
            rel, abs_ = ["num", rng.choice(RELS[:12])], ["num", rng.choice(ABSS)]
        elif tk == "percomp":
            rel = ["arr", entry, [rng.choice(RELS[:12]) for _ in range(rs)]]
            abs_ = ["arr", entry, [rng.choice(ABSS) for _ in range(rs)]] if rng.random() < 0.6 else ["num", rng.choice(ABSS)]
        elif tk == "scaled":
            rel, abs_ = ["num", rng.choice(RELS[:12])], ["scaled", rng.choice([1e-12, 1e-6, 2.0 ** -20])]
        else:
            rel, abs_ = ["num", rng.choice(RELS[:12])], ["scomp", rng.choice([1e-12, 1e-6, 2.0 ** -20])]
        row = rng.choice([0, nrow - 1, rng.randrange(nrow)])
        comp = rng.choice([0, rs - 1, rng.randrange(rs)])
        idx = row * rs + comp
        fa = {"dt": "f64", "shape": shape, "v": a}
        r = predio.oracle_tol_at(rel, fa, fa, shape, idx, 2.0 ** -52)
        t = predio.oracle_tol_at(abs_, fa, fa, shape, idx, 0.0)
        b[idx] = near_boundary_partner(rng, a[idx], r, t) if (r is not None and t is not None) else next_up(a[idx], 3)
        A, B = {"dt": "f64", "shape": shape, "v": a}, {"dt": "f64", "shape": list(shape), "v": b}
        if rng.random() < 0.5:
            A, B = B, A
        cases.append({"kind": "fuzzy", "rel": rel, "abs": abs_, "a": A, "b": B})
        tagsl.append(["array", "p6-wide-components", "entry-" + "x".join(map(str, entry)), "tol-" + tk,
                      "wide-dev-comp-" + ("first" if comp == 0 else "last" if comp == rs - 1 else "mid")])
    return cases, tagsl


def long_arrays_tolerance_kinds(ctx, sizes):
    """long arrays (the C01 size blind spot) crossed with the OTHER tolerance kinds and shapes: per-component arrays,
    data-computed (scaled / per-component scaled) tolerances, (n,3) and (n,2,2) fields, deviation in the FIRST row, the
    last row, right after the largest power of two.  Expected verdict = documented formula at the single deviating entry
    with the tolerance the documentation selects for that entry (python oracle; all other entries are identical)."""
    rng = ctx.rng
    for n in sizes:
        for entry in ([3], [2, 2]):
            rs = _prod(entry)
            size = n * rs
            pat = [rand_float(rng, [0]) for _ in range(7)]
            a = (pat * (size // 7 + 1))[:size]
            # one dominant entry so that a data-computed tolerance has its maximum in a known far-away row
            big_row = rng.choice([0, n - 1, n // 3])
            a[big_row * rs + rng.randrange(rs)] = rng.choice([-1.0, 1.0]) * 64.0
            shape = [n] + entry
            A = {"dt": "f64", "shape": shape, "v": a}
            xa = predio.np_array(A)
            p2 = 1 << ((n - 1).bit_length() - 1)
            for tk in ("percomp", "scaled", "scomp"):
                if tk == "percomp":
                    rel = ["arr", entry, [rng.choice([1e-9, 1e-6, 2.0 ** -20]) for _ in range(rs)]]
                    abs_ = ["arr", entry, [rng.choice([0.0, 1e-12, 1e-9]) for _ in range(rs)]]
                elif tk == "scaled":
                    rel, abs_ = ["num", rng.choice([0.0, 1e-9])], ["scaled", rng.choice([1e-9, 2.0 ** -20])]
                else:
                    rel, abs_ = ["num", rng.choice([0.0, 1e-9])], ["scomp", rng.choice([1e-9, 2.0 ** -20])]
                for row in (0, n - 1, p2):
                    comp = rng.randrange(rs)
                    idx = row * rs + comp
                    if a[idx] in (64.0, -64.0):
                        idx = row * rs + (comp + 1) % rs
                    r = _tol_np(rel, xa, a[idx], rs, idx, 2.0 ** -52)
                    t = _tol_np(abs_, xa, a[idx], rs, idx, 0.0)
                    for dev in (near_boundary_partner(rng, a[idx], r, t), a[idx] * (1 + 64 * max(r, 1e-9)) + 64 * t + 1e-9):
                        big_i = a.index(64.0) if 64.0 in a else a.index(-64.0)
                        c = {"kind": "long-tol", "n": n, "entry": entry, "pattern": pat, "big_index": big_i, "big_value": a[big_i],
                             "dev_index": idx, "dev_row": row, "dev_value": dev, "rel": rel, "abs": abs_}
                        impl, orc = _eval_long_tol(c, pre=(A, xa))
                        where = "first" if row == 0 else "last" if row == n - 1 else "after-pow2"
                        ctx.case(("long-tol", n, tuple(entry), idx, dev, str(rel), str(abs_)), nontrivial=True,
                                 tags=["p6-long-tolkinds", f"long-n={n}", "long-tol-" + tk, "long-dev-" + where,
                                       "long-entry-" + "x".join(map(str, entry)), "verdict-" + impl], sample=None)
                        if orc in ("T", "F") and impl != orc:
                            ctx.violation(c, impl, orc, cls=None,
                                          what=f"FuzzyEquality ({tk} tolerances) differs from the documented formula: field of {n} rows "
                                               f"x {entry}, single deviating entry in row {row}")


def _long_tol_arrays(c):
    n, entry, pat = c["n"], c["entry"], c["pattern"]
    size = n * _prod(entry)
    a = (pat * (size // len(pat) + 1))[:size]
    a[c["big_index"]] = c["big_value"]
    b = list(a)
    b[c["dev_index"]] = c["dev_value"]
    shape = [n] + list(entry)
    return {"dt": "f64", "shape": shape, "v": a}, {"dt": "f64", "shape": shape, "v": b}


def _eval_long_tol(c, pre=None):
    """(impl verdict, demanded verdict).  `pre` = (A, ndarray of A) already built by the batch (speed only; the replay
    rebuilds everything from the literal description)"""
    import numpy as np
    if pre is None:
        A, _B = _long_tol_arrays(c)
        xa = predio.np_array(A)
    else:
        A, xa = pre
    i = c["dev_index"]
    xb = xa.copy()
    xb.reshape(-1)[i] = c["dev_value"]
    p = predio.make_pred("fuzzy", c["rel"], c["abs"])
    try:
        with np.errstate(all="ignore"):
            impl = "T" if bool(p(xa, xb)) else "F"
    except Exception as e:  # noqa: BLE001
        impl = "E" if type(e).__name__ == "PredicateError" else "X:" + type(e).__name__
    # tolerance the documentation selects for entry i: only the deviating entry of b differs from a, so every maximum
    # over "either field" is the maximum over a and the one changed value
    rs = _prod(c["entry"])
    x, y = A["v"][i], c["dev_value"]
    r, t = _tol_np(c["rel"], xa, y, rs, i, 2.0 ** -52), _tol_np(c["abs"], xa, y, rs, i, 0.0)
    return impl, ("T" if predio.float_formula(x, y, r, t) else "F")


def _tol_np(t, xa, y, rs, i, dflt):
    """tolerance the documentation selects for flat entry i of (a, a-with-entry-i-replaced-by-y); maxima by numpy (speed)"""
    import numpy as np
    if t[0] == "num":
        return float(t[1])
    if t[0] == "arr":
        return float(t[2][i % rs])
    if t[0] == "scaled":
        return rn64(Fraction(t[1]) * Fraction(max(float(np.max(np.abs(xa))), abs(y))))
    if t[0] == "scomp":
        return rn64(Fraction(max(float(np.max(np.abs(xa.reshape(-1, rs)[:, i % rs]))), abs(y))) * Fraction(t[1]))
    return dflt


def reused_array_tolerances(ctx, n):
    """per-component tolerances given as ndarrays: ONE ndarray object shared by two predicate objects (rel_tol of one,
    abs_tol of the other is its own array), each evaluated on several fields, interleaved; afterwards every verdict must
    still be the documented formula with the ORIGINAL tolerance values (the harness keeps them as literals).  Also the
    operand ndarrays themselves are reused: (a,b) then (b,a) then (a,b) again on the same objects."""
    import numpy as np
    rng = ctx.rng
    from fieldcompare.predicates import FuzzyEquality
    for _ in range(n):
        k = rng.choice([2, 3])
        entry = [k] if rng.random() < 0.7 else [k, k]
        rs = _prod(entry)
        relv = [rng.choice(RELS[1:12]) for _ in range(rs)]
        absv = [rng.choice(ABSS[1:]) for _ in range(rs)]
        rel, abs_ = ["arr", entry, relv], ["arr", entry, absv]
        rel_obj = np.array(relv, dtype=np.float64).reshape(entry)
        abs_obj = np.array(absv, dtype=np.float64).reshape(entry)
        p1 = FuzzyEquality(rel_tol=rel_obj, abs_tol=abs_obj)
        p2 = FuzzyEquality(rel_tol=rel_obj, abs_tol=abs_obj)          # shares BOTH tolerance objects with p1
        hist = []
        for use in range(rng.randint(2, 4)):
            nrow = rng.choice([1, 2, 5])
            shape = [nrow] + entry
            size = nrow * rs
            scale = rng.choice(EXPS[4:-3])
            a = [rand_float(rng, [scale]) for _ in range(size)]
            b = list(a)
            idx = rng.randrange(size)
            b[idx] = near_boundary_partner(rng, a[idx], relv[idx % rs], absv[idx % rs])
            A, B = {"dt": "f64", "shape": shape, "v": a}, {"dt": "f64", "shape": shape, "v": b}
            xa, xb = predio.np_array(A), predio.np_array(B)
            orc = predio.oracle_fuzzy_f64(rel, abs_, A, B)
            for who, (p, x, y) in (("p1-ab", (p1, xa, xb)), ("p2-ba", (p2, xb, xa)), ("p1-ab-again", (p1, xa, xb))):
                try:
                    with np.errstate(all="ignore"):
                        impl = "T" if bool(p(x, y)) else "F"
                except Exception as e:  # noqa: BLE001
                    impl = "X:" + type(e).__name__
                hist.append({"a": A, "b": B, "by": who})
                ctx.case(("reuse-arr", use, who, str(rel), str(abs_), A, B), nontrivial=is_nontrivial({"a": A, "b": B}),
                         tags=["p6-reused-array-tol", f"use-{use}", "reuse-" + who, "verdict-" + impl], sample=None)
                if orc in ("T", "F") and impl != orc:
                    ctx.violation({"kind": "fuzzy", "rel": rel, "abs": abs_, "a": A, "b": B, "shared_array_tolerances": True,
                                   "history": list(hist)}, impl, orc, cls=None,
                                  what="verdict differs from the documented formula with the per-component tolerances AS GIVEN, after "
                                       "the tolerance / operand ndarray objects had been used by earlier evaluations (%s, field %d)" % (who, use))
                    break


def replay_shared_arrays(ctx, c):
    import numpy as np
    from fieldcompare.predicates import FuzzyEquality
    rel_obj = np.array(c["rel"][2], dtype=np.float64).reshape(c["rel"][1])
    abs_obj = np.array(c["abs"][2], dtype=np.float64).reshape(c["abs"][1])
    p = {"p1": FuzzyEquality(rel_tol=rel_obj, abs_tol=abs_obj), "p2": FuzzyEquality(rel_tol=rel_obj, abs_tol=abs_obj)}
    objs, impl = {}, None
    for h in c["history"]:
        key = repr((h["a"], h["b"]))
        if key not in objs:
            objs[key] = (predio.np_array(h["a"]), predio.np_array(h["b"]))
        xa, xb = objs[key]
        x, y = (xb, xa) if h["by"].startswith("p2-ba") else (xa, xb)
        try:
            with np.errstate(all="ignore"):
                impl = "T" if bool(p[h["by"][:2]](x, y)) else "F"
        except Exception as e:  # noqa: BLE001
            impl = "X:" + type(e).__name__
    orc = predio.oracle_fuzzy_f64(c["rel"], c["abs"], c["a"], c["b"])
    print(f"replay (shared tolerance / operand ndarrays, {len(c['history'])} evaluations): impl={impl} documented-formula={orc}")
    return impl != orc


def run(ctx):
    ctx.rule = ("cases = (tolerances, a, b) for FuzzyEquality on float64 arrays; scalar pairs with b placed on the "
                "threshold +-0..2 ulp over magnitudes subnormal..1e300, arrays of shapes (n,),(n,k),(n,k,k),(n,1) with one "
                "deviating entry at first/interior/last/last-component position (n up to 1000; plus long arrays of 4097..131073 "
                "rows [thorough: ..1048577] with the deviation in the last row / right after the largest power of two / in the "
                "middle, 1 ulp inside and clearly outside the threshold), scalar / per-component / scaled / default "
                "tolerances, (n,)~(n,1) mixes and genuine shape mismatches; plus float32/float16 arrays of shapes (n,),(n,k),(n,1) "
                "with Python-float (weak) and array/scaled (strong) tolerances; plus the command-line route: CSV / .vtu files with "
                "float64 fields under every pair of -rtol / -atol argument layouts (general / per-field values, either order, "
                "explicit zeros in every position), one entry on / one ulp inside / one ulp outside the selected threshold, "
                "exit code vs model verdicts of the fields; non-trivial = operands differ in a value or in "
                "shape; distinct = distinct (tolerances, a, b) resp. (options, file contents)")
    ctx.assumptions += ["numpy float64 arithmetic is IEEE round-to-nearest-even (model: Fc.rndMag, compared on every case)",
                        "CPython int/int true division is correctly rounded (python-side oracle)",
                        "command-line route: the text / VTU readers return the float64 data the files were written from "
                        "(side-check on every generated file; failing ones are discarded and counted), and the exit code is 0 "
                        "iff every compared field passes (C04); option semantics as documented by `fieldcompare file --help`"]
    rng = ctx.rng
    n_scalar = ctx.scale(6000, 400000)
    n_array = ctx.scale(1500, 60000)
    cases, tagsl = [], []
    for _ in range(n_scalar):
        c, t = gen_scalar_case(rng)
        cases.append(c); tagsl.append(["scalar", t])
    for i in range(n_array):
        c, t = gen_array_case(rng, big=(i % 50 == 0))
        cases.append(c); tagsl.append(["array"] + t)
    for _ in range(ctx.scale(1500, 60000)):
        c, t = gen_small_float_case(rng)
        cases.append(c); tagsl.append(t)
    if not P6G_OFF:
        for gc, gt in (gen_representation_cases(rng, ctx.scale(700, 20000)), gen_wide_component_cases(rng, ctx.scale(150, 6000))):
            cases += gc; tagsl += gt
    CH = 5000
    for i in range(0, len(cases), CH):
        evaluate(ctx, cases[i:i + CH], tagsl[i:i + CH])
    long_arrays(ctx, LONG_QUICK if ctx.tier == 'quick' else LONG_THOROUGH)
    mixed_precision(ctx, ctx.scale(120, 3000))
    reused_dynamic_tolerances(ctx, ctx.scale(150, 6000))
    if not P6G_OFF:
        mixed_float_types(ctx, ctx.scale(400, 15000))
        long_arrays_tolerance_kinds(ctx, [1500, 70001] if ctx.tier == 'quick' else [1001, 1500, 4097, 70001, 300007])
        reused_array_tolerances(ctx, ctx.scale(60, 3000))
    cli_route(ctx, n_vtu_pairs=ctx.scale(40, 169), rounds=ctx.scale(1, 10))
    ctx.spec_viol = [dict(v, case=shrink(v["case"])) for v in ctx.spec_viol[:50]]


def replay_witness(ctx, entry):
    c = entry["witness"]
    impl = predio.run_impl(c["kind"], c["rel"], c["abs"], c["a"], c["b"])
    orc = predio.oracle_fuzzy_f64(c["rel"], c["abs"], c["a"], c["b"])
    return impl != orc, {"impl": impl, "oracle": orc}


def replay(ctx, payload):
    c = payload["case"]
    if c.get("kind") == "cli-tol":
        if replay_cli(ctx, c):
            print(f"VIOLATION property=C01 replay={payload.get('_path', '<replay>')}")
            return 1
        return 0
    if c.get("kind") == "long-tol":
        impl, orc = _eval_long_tol(c)
        print(f"replay long array n={c['n']} x {c['entry']} deviating row {c['dev_row']}: impl={impl} formula={orc}")
        if impl != orc:
            print(f"VIOLATION property=C01 replay={payload.get('_path', '<replay>')}")
            return 1
        return 0
    if c.get("mixed_float"):
        if replay_mixed(ctx, c):
            print(f"VIOLATION property=C01 replay={payload.get('_path', '<replay>')}")
            return 1
        return 0
    if c.get("shared_array_tolerances"):
        if replay_shared_arrays(ctx, c):
            print(f"VIOLATION property=C01 replay={payload.get('_path', '<replay>')}")
            return 1
        return 0
    if c.get("kind") == "long":
        if replay_long(ctx, c):
            print(f"VIOLATION property=C01 replay={payload.get('_path', '<replay>')}")
            return 1
        return 0
    if "history" in c:
        # one predicate object evaluated on the recorded fields in order; the last verdict is the one in question
        pred = predio.make_pred(c["kind"], c["rel"], c["abs"])
        impl = None
        for h in c["history"]:
            impl = predio.run_impl(c["kind"], c["rel"], c["abs"], h["a"], h["b"], pred=pred)
        orc = predio.oracle_fuzzy_f64(c["rel"], c["abs"], c["a"], c["b"])
        print(f"replay (reused predicate, {len(c['history'])} evaluations): impl={impl} documented-formula={orc}")
        if impl != orc:
            print(f"VIOLATION property=C01 replay={payload.get('_path', '<replay>')}")
            return 1
        return 0
    impl = predio.run_impl(c["kind"], c["rel"], c["abs"], c["a"], c["b"])
    orc = predio.oracle_fuzzy_f64(c["rel"], c["abs"], c["a"], c["b"])
    print(f"replay: impl={impl} documented-formula={orc}")
    if impl != orc:
        print(f"VIOLATION property=C01 replay={payload.get('_path', '<replay>')}")
        return 1
    return 0
