"""C13 — written files read back to exactly the data that was written.

Correspondence
  * VTU: `fieldcompare.io.write(fields, base)` on generated mesh field data (all ten numeric dtypes, scalar /
    vector / tensor fields, 1-3 coordinate columns, several cell types, plain and transformed: sort, sort_points,
    sort_cells, strip_orphan_points, extend_space_dimension_to, merge, diff_to).  The data the writer sees through
    the public accessors is sent to the Lean model (`Fc.W.writeVtu`); the model's data-array elements
    (Name, type, NumberOfComponents, base64 text) must equal the elements of the file the implementation wrote,
    byte for byte, and `fieldcompare.io.read_field_data` of that file must equal the Lean spec `normalise`.
  * CSV: `_write_table` output must equal the token-level model's text (`Fc.W.csvWrite`) and the reader
    (`delimiter=","`, `use_names=True`) must return the names / bit-identical float64 / integer / string values.
Search
  * implementation vs an independent Python oracle (`normalise_py`) on the same cases and on cases outside the
    model's hypothesis (float32 points with fewer than three columns, empty cell-type blocks, XML-special and
    non-ASCII field names), and adversarial tables (names / cells the CSV text cannot carry).
All comparisons are on bit patterns (unsigned views of the arrays), never on decimal text."""
from __future__ import annotations
import copy
import math
import os
import shutil
import tempfile
import warnings
from xml.etree import ElementTree

import numpy as np

from fcv import core, meshgen

NPDT = ["int8", "int16", "int32", "int64", "uint8", "uint16", "uint32", "uint64", "float32", "float64"]
SIZE = {"int8": 1, "uint8": 1, "int16": 2, "uint16": 2, "int32": 4, "uint32": 4, "float32": 4,
        "int64": 8, "uint64": 8, "float64": 8}


# ------------------------------------------------------------------ bits <-> arrays

def bits_of(arr: np.ndarray) -> list[int]:
    a = np.ascontiguousarray(arr).reshape(-1)
    return a.view(np.dtype(f"<u{a.dtype.itemsize}")).tolist()


def arr_of(dt: str, shape, bits) -> np.ndarray:
    return np.array(bits, dtype=np.dtype(f"<u{SIZE[dt]}")).view(np.dtype(dt)).reshape(shape)


def _finite(dt: str, b: int) -> bool:
    if dt == "float64":
        return (b >> 52) & 0x7FF != 0x7FF
    if dt == "float32":
        return (b >> 23) & 0xFF != 0xFF
    return True


def rand_bits(rng, dt: str, count: int, distinct_hint: int = 0) -> list[int]:
    """bit patterns of finite values: extremes of the type, small values, uniformly random patterns"""
    n = 8 * SIZE[dt]
    ext = [0, 1, (1 << n) - 1, 1 << (n - 1), (1 << (n - 1)) - 1, (1 << (n - 1)) + 1]
    if dt == "float64":
        ext = [0, 1 << 63, 1, (1 << 63) | 1, 0x7FEFFFFFFFFFFFFF, 0xFFEFFFFFFFFFFFFF, 0x0010000000000000,
               0x000FFFFFFFFFFFFF, 0x3FF0000000000000, 0x3FB999999999999A, 0x4340000000000000]
    if dt == "float32":
        ext = [0, 1 << 31, 1, 0x7F7FFFFF, 0xFF7FFFFF, 0x00800000, 0x007FFFFF, 0x3F800000, 0x3DCCCCCD]
    out = []
    for i in range(count):
        r = rng.random()
        if r < 0.25:
            b = rng.choice(ext)
        elif r < 0.45:
            b = (distinct_hint + i) & ((1 << n) - 1)
            if dt.startswith("float"):
                b = bits_of(np.array([distinct_hint + i + 0.5], dtype=dt))[0]
        else:
            b = rng.getrandbits(n)
        if not _finite(dt, b):
            b &= ~(1 << (n - 2))      # clear one exponent bit: finite
        out.append(b)
    return out


# ------------------------------------------------------------------ cases

def prodl(l):
    r = 1
    for d in l:
        r *= d
    return r


def gen_vtu_case(rng, name_pool=None):
    """a logical data set with bit-pattern fields: dict (see `to_obj`), tags"""
    style = rng.choice([None, None, "mixed2", "mixed3"])
    dims = {None: (1, 2, 3), "mixed2": (2, 3), "mixed3": (3,)}[style]
    lm, tags = meshgen.gen_mesh(rng, max_cells_per_dir=3, dims=dims, fields=False, types=style)
    npnt = len(lm["points"])
    d = lm["dim"]
    pts = [bits_of(np.array(p, dtype=np.float64)) for p in lm["points"]]
    case = {"dim": d, "ptype": "float64", "points": pts, "conntype": rng.choice(["int64", "int64", "int64", "int32"]),
            "cells": [[t, [list(r) for r in rows]] for t, rows in lm["cells"]], "pf": [], "cf": []}
    names = name_pool or (lambda kind, k: f"{kind}{k}")
    for k in range(rng.randint(0, 3)):
        dt = rng.choice(NPDT)
        tail = rng.choice([[], [], [d], [3], [d, d], [1], [2, 3]])
        case["pf"].append({"name": names("p", k), "dt": dt, "rows": npnt, "tail": tail,
                           "bits": rand_bits(rng, dt, npnt * prodl(tail), rng.randint(1, 1000))})
    for k in range(rng.randint(0, 2)):
        dt = rng.choice(NPDT)
        tail = rng.choice([[], [], [d], [d, d], [3, 3]])
        for t, rows in case["cells"]:
            case["cf"].append({"name": names("c", k), "ctype": t, "dt": dt, "rows": len(rows), "tail": tail,
                               "bits": rand_bits(rng, dt, len(rows) * prodl(tail), rng.randint(1, 1000))})
    tags = dict(tags)
    tags["ntypes"] = len(case["cells"])
    # memory layout of the arrays handed to the library: same logical content, C-contiguous / Fortran order /
    # transposed view (the writer must serialise the LOGICAL row-major order whatever the strides are)
    case["layout"] = rng.choice(["C", "C", "F", "T"])
    tags["layout"] = case["layout"]
    return case, tags


def relayout(a: np.ndarray, lay: str) -> np.ndarray:
    """same shape, dtype and logical entries; different strides"""
    if lay in P6G_LAYOUTS:
        return relayout_p6g(a, lay)
    if a.ndim < 2 or a.size == 0 or lay == "C":
        return a
    if lay == "F":
        return np.asfortranarray(a)
    axes = list(range(a.ndim))
    axes[-1], axes[-2] = axes[-2], axes[-1]
    return np.ascontiguousarray(a.transpose(axes)).transpose(axes)


P6G_LAYOUTS = ("RO", "S", "CS", "N", "U")


def relayout_p6g(a: np.ndarray, lay: str) -> np.ndarray:
    """phase 6 (package G): same shape, dtype and logical entries; read-only copy (RO), every second row of a larger
    buffer (S), every second column of a larger buffer (CS), negative strides on the first and last axis (N),
    unaligned read-only view into a byte string at offset 1 — what arrays decoded from files look like (U)"""
    if a.size == 0:
        return a
    if lay == "RO":
        b = a.copy()
        b.flags.writeable = False
        return b
    if lay == "S":
        big = np.zeros((2 * a.shape[0] + 1,) + a.shape[1:], dtype=a.dtype)
        big[1::2] = a
        return big[1::2]
    if lay == "CS":
        if a.ndim < 2:
            return relayout_p6g(a, "S")
        big = np.zeros(a.shape[:-1] + (2 * a.shape[-1],), dtype=a.dtype)
        big[..., ::2] = a
        return big[..., ::2]
    if lay == "N":
        b = np.ascontiguousarray(a[::-1])[::-1]
        if a.ndim >= 2:
            b = np.ascontiguousarray(b[..., ::-1])[..., ::-1]
        return b
    if lay == "U":
        buf = b"\x00" + np.ascontiguousarray(a).tobytes()
        return np.frombuffer(buf, dtype=a.dtype, offset=1).reshape(a.shape)
    raise ValueError(lay)


def to_obj(case):
    """case -> fieldcompare.mesh.MeshFields (fresh arrays)"""
    from fieldcompare.mesh import Mesh, MeshFields, CellType
    pts = arr_of(case["ptype"], (len(case["points"]), case["dim"]), [b for p in case["points"] for b in p])
    conn = []
    for t, rows in case["cells"]:
        k = len(rows[0]) if rows else (meshgen.NCORNERS.get(t) or 0)
        conn.append((CellType.from_name(t), np.array(rows, dtype=np.dtype(case["conntype"])).reshape(len(rows), k)))
    lay = case.get("layout", "C")
    pts = relayout(pts, lay)
    conn = [(ct, relayout(c, lay)) for ct, c in conn]
    mesh = Mesh(pts, conn)
    pd = {f["name"]: relayout(arr_of(f["dt"], [f["rows"]] + f["tail"], f["bits"]), lay) for f in case["pf"]}
    cd = {}
    for f in case["cf"]:
        cd.setdefault(f["name"], {})[f["ctype"]] = relayout(arr_of(f["dt"], [f["rows"]] + f["tail"], f["bits"]), lay)
    cdl = {n: [per[t] for t, _ in case["cells"]] for n, per in cd.items()}
    return MeshFields(mesh, pd, cdl)


def extract(fields):
    """what the public accessors of a MeshFields-like object expose, as a case dict (bit patterns)"""
    from fieldcompare.mesh._mesh_fields import remove_cell_type_suffix
    dom = fields.domain
    pts = np.asarray(dom.points)
    if pts.ndim == 1:
        pts = pts.reshape(len(pts), 1)
    case = {"dim": int(pts.shape[1]), "ptype": pts.dtype.name, "points": [bits_of(p) for p in pts],
            "conntype": None, "cells": [], "pf": [], "cf": []}
    ctypes = set()
    for ct in dom.cell_types:
        conn = np.asarray(dom.connectivity(ct))
        ctypes.add(conn.dtype.name)
        case["cells"].append([ct.name, [[int(i) for i in row] for row in conn]])
    case["conntype"] = ctypes.pop() if len(ctypes) == 1 else ("int64" if not ctypes else "mixed")
    for f in fields.point_fields:
        v = np.asarray(f.values)
        case["pf"].append({"name": f.name, "dt": v.dtype.name, "rows": int(v.shape[0]), "tail": list(v.shape[1:]),
                           "bits": bits_of(v)})
    for f, ct in fields.cell_fields_types:
        v = np.asarray(f.values)
        case["cf"].append({"name": remove_cell_type_suffix(ct, f.name), "ctype": ct.name, "dt": v.dtype.name,
                           "rows": int(v.shape[0]), "tail": list(v.shape[1:]), "bits": bits_of(v)})
    return case


TRANSFORMS = ["plain", "plain", "sort", "sort_points", "sort_cells", "strip", "extend", "merge", "merge_nodedup", "diff"]


def shifted_copy(rng, case):
    """the same mesh translated along the first axis by its own extent (boundaries may coincide),
    with fresh field values of the same dtypes/shapes"""
    c = copy.deepcopy(case)
    pts = arr_of("float64", (len(c["points"]), c["dim"]), [b for p in c["points"] for b in p]).copy()
    ext = float(pts[:, 0].max() - pts[:, 0].min()) if len(pts) else 1.0
    pts[:, 0] += ext if ext > 0 else 1.0
    c["points"] = [bits_of(p) for p in pts]
    for f in c["pf"] + c["cf"]:
        f["bits"] = rand_bits(rng, f["dt"], len(f["bits"]), rng.randint(1, 1000))
    return c


def apply_transform(rng, kind, case):
    from fieldcompare import mesh as fm
    obj = to_obj(case)
    if kind == "plain":
        return obj
    if kind == "sort":
        return fm.sort(obj)
    if kind == "sort_points":
        return fm.sort_points(obj)
    if kind == "sort_cells":
        return fm.sort_cells(obj)
    if kind == "strip":
        return fm.strip_orphan_points(obj)
    if kind == "extend":
        return fm.extend_space_dimension_to(3, obj)
    if kind in ("merge", "merge_nodedup"):
        other = to_obj(shifted_copy(rng, case))
        return fm.merge(obj, other, remove_duplicate_points=(kind == "merge"))
    if kind == "diff":
        # same mesh, other values: diff_to is defined for float fields; keep it to float dtypes
        c2 = copy.deepcopy(case)
        for c in (case, c2):
            c["pf"] = [f for f in c["pf"] if f["dt"].startswith("float")]
            c["cf"] = [f for f in c["cf"] if f["dt"].startswith("float")]
        for f in c2["pf"] + c2["cf"]:
            f["bits"] = rand_bits(rng, f["dt"], len(f["bits"]), 3)
        with np.errstate(all="ignore"):
            return to_obj(case).diff_to(to_obj(c2))
    raise ValueError(kind)


# ------------------------------------------------------------------ oracle: what must be read back

def normalise_py(case):
    """independent statement of the property: canonical content that read_field_data must return"""
    d = case["dim"]
    n = len(case["points"])
    if d == 3:
        ptype = case["ptype"]
        pbits = [b for p in case["points"] for b in p]
    else:
        ptype = "float64"
        vals = arr_of(case["ptype"], (n, d), [b for p in case["points"] for b in p]).astype(np.float64)
        full = np.zeros((n, 3), dtype=np.float64)
        full[:, :d] = vals
        pbits = bits_of(full)
    cells = {t: [list(r) for r in rows] for t, rows in case["cells"] if rows}
    pf = {f["name"]: (f["dt"], prodl(f["tail"]), list(f["bits"])) for f in case["pf"]}
    cf = {}
    for f in case["cf"]:
        if f["rows"] == 0:
            continue
        cf.setdefault(f["name"], {})[f["ctype"]] = (f["dt"], prodl(f["tail"]), list(f["bits"]))
    return {"ptype": ptype, "pts": pbits, "cells": cells, "pf": pf, "cf": cf}


def canon_readback(fields):
    c = extract(fields)
    assert c["dim"] == 3
    out = {"ptype": c["ptype"], "pts": [b for p in c["points"] for b in p],
           "cells": {t: rows for t, rows in c["cells"]},
           "pf": {f["name"]: (f["dt"], prodl(f["tail"]), f["bits"]) for f in c["pf"]}, "cf": {}}
    for f in c["cf"]:
        out["cf"].setdefault(f["name"], {})[f["ctype"]] = (f["dt"], prodl(f["tail"]), f["bits"])
    return out


def file_elements(path):
    """(NumberOfPoints, NumberOfCells, {(section, Name): (type, NumberOfComponents, text)}) of a written file"""
    root = ElementTree.parse(path).getroot()
    piece = root.find("UnstructuredGrid/Piece")
    sec = {"PointData": "P", "CellData": "C", "Points": "X", "Cells": "K"}
    el = {}
    for s in piece:
        for a in s:
            el[(sec[s.tag], a.attrib["Name"])] = (a.attrib["type"], int(a.attrib["NumberOfComponents"]),
                                                  (a.text or "").strip(), a.attrib.get("format"))
    hdr = dict(root.attrib)
    return int(piece.attrib["NumberOfPoints"]), int(piece.attrib["NumberOfCells"]), el, hdr


# ------------------------------------------------------------------ Lean protocol

def _tok(name: str) -> str:
    return name


def _enc_arr(f) -> str:
    return " ".join([f["dt"], str(f["rows"]), str(len(f["tail"]))] + [str(x) for x in f["tail"]]
                    + [str(len(f["bits"]))] + [str(b) for b in f["bits"]])


def enc_case(case) -> str:
    toks = ["c13vtu", str(case["dim"]), case["ptype"], str(len(case["points"]))]
    toks += [str(b) for p in case["points"] for b in p]
    toks += [case["conntype"], str(len(case["cells"]))]
    for t, rows in case["cells"]:
        k = len(rows[0]) if rows else (meshgen.NCORNERS.get(t) or 0)
        toks += [t, str(len(rows)), str(k)] + [str(i) for r in rows for i in r]
    toks.append(str(len(case["pf"])))
    for f in case["pf"]:
        toks += [_tok(f["name"]), _enc_arr(f)]
    toks.append(str(len(case["cf"])))
    for f in case["cf"]:
        toks += [_tok(f["name"]), f["ctype"], _enc_arr(f)]
    return " ".join(toks)


def _nats(s):
    return [] if s == "-" else [int(x) for x in s.split(",")]


def parse_digest(s):
    if s == "none":
        return None
    parts = dict(p.split("=", 1) for p in s.split(";"))
    ptype, pts = parts["pts"].split(":")
    out = {"ptype": ptype, "pts": _nats(pts), "cells": {}, "pf": {}, "cf": {}}
    if parts["cells"] != "-":
        for b in parts["cells"].split("/"):
            t, rows = b.split(":")
            out["cells"][t] = [] if rows == "-" else [_nats(r) for r in rows.split("_")]
    if parts["pf"] != "-":
        for e in parts["pf"].split("/"):
            n, dt, nc, items = e.split(":")
            out["pf"][n] = (dt, int(nc), _nats(items))
    if parts["cf"] != "-":
        for e in parts["cf"].split("/"):
            n, dt, nc, per = e.split(":")
            out["cf"][n] = {}
            if per != "-":
                for p in per.split("+"):
                    t, items = p.split("=")
                    out["cf"][n][t] = (dt, int(nc), _nats(items))
    return out


def parse_file(s):
    if s == "none":
        return None
    el = {}
    n = None
    for e in s.split(";"):
        f = e.split("|")
        if f[0] == "N":
            n = (int(f[1]), int(f[2]))
        else:
            el[(f[0], f[1])] = (f[2], int(f[3]), "" if f[4] == "-" else f[4])
    return n, el


def _canon_eq(a, b):
    """compare canonical contents (tuples vs lists insensitive)"""
    def norm(x):
        if isinstance(x, dict):
            return {k: norm(v) for k, v in x.items()}
        if isinstance(x, (list, tuple)):
            return [norm(v) for v in x]
        return x
    return norm(a) == norm(b)


def safe_for_protocol(case) -> bool:
    names = [f["name"] for f in case["pf"] + case["cf"]]
    return case["conntype"] != "mixed" and all(n.isalnum() and n.isascii() for n in names)


# ------------------------------------------------------------------ running the implementation

class Work:
    def __init__(self):
        self.dir = tempfile.mkdtemp(prefix="fcv_c13_")
        self.k = 0

    def base(self):
        self.k += 1
        return os.path.join(self.dir, f"f{self.k}")

    def close(self):
        shutil.rmtree(self.dir, ignore_errors=True)


def impl_vtu(work, obj):
    """write + read back: ('ok', file elements, canonical readback) or ('exc', type name, message)"""
    from fieldcompare.io import write, read_field_data
    base = work.base()
    try:
        with warnings.catch_warnings():
            warnings.simplefilter("ignore")
            path = write(obj, base)
            els = file_elements(path)
            back = read_field_data(path)
            res = ("ok", els, canon_readback(back))
    except Exception as e:  # noqa: BLE001
        res = ("exc", type(e).__name__, str(e)[:200])
    for ext in (".vtu",):
        try:
            os.remove(base + ext)
        except OSError:
            pass
    return res


def describe_diff(exp, got):
    if got is None:
        return "nothing read"
    for k in ("ptype", "pts", "cells", "pf", "cf"):
        if not _canon_eq(exp[k], got[k]):
            if isinstance(exp[k], dict):
                ek, gk = set(exp[k]), set(got[k])
                if ek != gk:
                    return f"{k}: keys {sorted(ek)} vs {sorted(gk)}"
                for n in exp[k]:
                    if not _canon_eq(exp[k][n], got[k][n]):
                        return f"{k}[{n}] differs: expected {str(exp[k][n])[:120]} got {str(got[k][n])[:120]}"
            return f"{k} differs: expected {str(exp[k])[:120]} got {str(got[k])[:120]}"
    return "equal"


def check_vtu(ctx, work, written_case, tags, rep, in_model=True):
    """written_case = accessor content of the object handed to `write`; rep = Lean reply or None"""
    obj = tags["obj"]
    res = impl_vtu(work, obj)
    exp = normalise_py(written_case)
    nontrivial = bool(written_case["pf"] or written_case["cf"]) and len(written_case["cells"]) >= 1
    key = ("vtu", enc_case(written_case) if safe_for_protocol(written_case) else repr(written_case))
    tg = [f"tr-{tags['transform']}", f"dim={written_case['dim']}", f"ntypes={len(written_case['cells'])}"]
    tg += sorted({"dt-" + f["dt"] for f in written_case["pf"] + written_case["cf"]})
    tg += sorted({"tail-" + "x".join(map(str, f["tail"])) if f["tail"] else "tail-scalar"
                  for f in written_case["pf"] + written_case["cf"]})
    tg.append("impl-" + res[0])
    tg += tags.get("chain_tags", [])
    if tags["transform"].startswith("p6g-"):
        tg.append("p6g-vtu")
    small = {"dim": written_case["dim"], "npoints": len(written_case["points"]),
             "cells": [[t, len(r)] for t, r in written_case["cells"]],
             "fields": [[f["name"], f["dt"], f["tail"]] for f in written_case["pf"] + written_case["cf"]],
             "transform": tags["transform"]}
    ctx.case(key, nontrivial=nontrivial, tags=tg,
             sample={"case": small, "impl": res[0], "lean_hyp": (rep or {}).get("hyp")})
    slim = {"kind": "vtu", "case": written_case}
    if res[0] == "exc":
        ctx.violation(slim, f"exception {res[1]}: {res[2]}", "file written and read back",
                      what="write/read_field_data raised on well-formed mesh field data")
        return
    (npnts, ncells, els, hdr), back = res[1], res[2]
    if not _canon_eq(exp, back):
        ctx.violation(slim, describe_diff(exp, back), "read back = data written (normalised)",
                      what="VTU round trip changed the data")
    if hdr.get("header_type") != "UInt64" or hdr.get("byte_order") != "LittleEndian" or "compressor" in hdr \
            or any(e[3] != "binary" for e in els.values()):
        ctx.mismatch(slim, str(hdr), "header_type=UInt64 byte_order=LittleEndian format=binary, no compressor",
                     what="file header attributes differ from the modelled writer configuration")
    if rep is None or not in_model:
        return
    if "hyp" not in rep:
        ctx.inconsistent(slim, str(rep), "bad-op")
        return
    if rep["hyp"] != "1":
        ctx.dist["outside-hyp"] += 1
        return
    ctx.dist["vtu-compared-with-model"] += 1
    if rep["back"] != rep["spec"]:
        ctx.inconsistent(slim, rep["back"][:300], rep["spec"][:300])
    spec = parse_digest(rep["spec"])
    if spec is None or not _canon_eq(spec, exp):
        ctx.inconsistent(slim, "lean-spec=" + rep["spec"][:300], "python-oracle differs: " + describe_diff(exp, spec))
    if spec is not None and not _canon_eq(spec, back):
        ctx.mismatch(slim, describe_diff(spec, back), "lean spec", what="implementation read-back differs from Fc.W.Spec.normalise")
    # the model's own read-back of the model-written file (`readVtu (writeVtu F)`, full digest) against the
    # implementation's read-back of the implementation-written file
    mback = parse_digest(rep["back"])
    if mback is None or not _canon_eq(mback, back):
        ctx.mismatch(slim, describe_diff(mback, back) if mback is not None else "model read-back fails",
                     "Fc.W.readVtu (Fc.W.writeVtu F)",
                     what="implementation read-back differs from the model's read-back of the model-written file")
    elif list(mback["cells"]) != list(back["cells"]):
        # the ORDER of the cell types of the read mesh is not part of the property (compared as a mapping above),
        # but the model fixes it (`np.unique` = ascending VTK id, theorem C13_unique_order): keep model and code tied
        ctx.mismatch(slim, list(back["cells"]), list(mback["cells"]),
                     what="order of the cell types of the read mesh differs from the model (np.unique order)")
    ctx.dist["vtu-readback-compared-with-model-readback"] += 1
    mf = parse_file(rep["file"])
    if mf is None:
        ctx.mismatch(slim, "file written", "model writer fails", what="model writer raises inside hyp")
        return
    (mn, mels) = mf
    iels = {k: (v[0], v[1], v[2]) for k, v in els.items()}
    if (npnts, ncells) != mn:
        ctx.mismatch(slim, [npnts, ncells], list(mn), what="NumberOfPoints / NumberOfCells differ from the model writer")
    if iels != mels:
        bad = [k for k in set(iels) | set(mels) if iels.get(k) != mels.get(k)]
        k0 = sorted(bad)[0]
        ctx.mismatch(slim, {"element": k0, "impl": str(iels.get(k0))[:200]}, {"model": str(mels.get(k0))[:200]},
                     what="written data-array element differs from the model writer (name/type/components/base64 text)")


# ------------------------------------------------------------------ CSV

SAFE_FIRST = "abcdefghklmopqsuvwxyzABCDEGHKLMOPQSUVWXYZ"
SAFE_REST = "abcdefghijklmnopqrstuvwxyzABCDEFGHIJKLMNOPQRSTUVWXYZ0123456789_"
RESERVED = {"return", "file", "print", "nan", "inf", "infinity", "true", "false", "j", "none"}


def safe_word(rng, minlen=2, maxlen=7):
    while True:
        w = rng.choice(SAFE_FIRST) + "".join(rng.choice(SAFE_REST) for _ in range(rng.randint(minlen - 1, maxlen - 1)))
        if w.lower() not in RESERVED:
            return w


def gen_table(rng):
    ncols = rng.randint(1, 5)
    nrows = rng.choice([1, 1, 2, 3, 5, 8, 13])
    names = []
    while len(names) < ncols:
        w = safe_word(rng, 1, 6) if rng.random() < 0.8 else rng.choice(SAFE_FIRST)
        if w not in names and w.lower() not in RESERVED:
            names.append(w)
    cols = []
    for _ in range(ncols):
        kind = rng.choice(["f", "f", "i", "s"])
        if kind == "f":
            cols.append({"kind": "f", "dt": "float64", "bits": rand_bits(rng, "float64", nrows, rng.randint(1, 99))})
        elif kind == "i":
            dt = rng.choice(["int64", "int64", "int32", "int16", "int8", "uint8", "uint16", "uint32"])
            cols.append({"kind": "i", "dt": dt, "bits": rand_bits(rng, dt, nrows, rng.randint(1, 99))})
        else:
            cols.append({"kind": "s", "vals": [safe_word(rng) for _ in range(nrows)]})
    idx = None
    if rng.random() < 0.25:
        idx = list(range(nrows))      # a transformed table: the index map must keep the number of rows
        rng.shuffle(idx)
    return {"names": names, "cols": cols, "nrows": nrows, "idx": idx}


def table_obj(t):
    from fieldcompare.tabular import Table, TabularFields
    fields = {}
    for n, c in zip(t["names"], t["cols"]):
        fields[n] = np.array(c["vals"], dtype=str) if c["kind"] == "s" else arr_of(c["dt"], (t["nrows"],), c["bits"])
    if t.get("idx") is not None:
        # a transformed table: rows selected / reordered through an index map
        from fieldcompare.tabular import transform
        return transform(TabularFields(Table(num_rows=t["nrows"]), fields),
                         lambda _: Table(idx_map=np.array(t["idx"], dtype=np.int64)))
    return TabularFields(Table(num_rows=t["nrows"]), fields)


def table_expected(t):
    """names and per-column canonical values that must be read back"""
    rows = t["idx"] if t.get("idx") is not None else list(range(t["nrows"]))
    out = []
    for n, c in zip(t["names"], t["cols"]):
        if c["kind"] == "s":
            out.append((n, "s", [c["vals"][r] for r in rows]))
        elif c["kind"] == "f":
            out.append((n, "f", [c["bits"][r] for r in rows]))
        else:
            vals = arr_of(c["dt"], (t["nrows"],), c["bits"]).tolist()
            out.append((n, "i", [int(vals[r]) for r in rows]))
    return out


def table_tokens(t):
    """str(value) per cell — CPython/numpy number formatting is trusted, the layout is the model's"""
    rows = t["idx"] if t.get("idx") is not None else list(range(t["nrows"]))
    cols = []
    for c in t["cols"]:
        if c["kind"] == "s":
            cols.append([str(np.str_(v)) for v in c["vals"]])
        else:
            a = arr_of(c["dt"], (t["nrows"],), c["bits"])
            cols.append([str(a[r]) for r in range(t["nrows"])])
    return [[col[r] for col in cols] for r in rows]


def canon_table(fields):
    out = []
    for f in fields:
        v = np.asarray(f.values)
        if v.dtype.kind == "f" and v.dtype.itemsize == 8:
            out.append((f.name, "f", bits_of(v)))
        elif v.dtype.kind in "iu":
            out.append((f.name, "i", [int(x) for x in v.tolist()]))
        elif v.dtype.kind == "U":
            out.append((f.name, "s", [str(x) for x in v.tolist()]))
        else:
            out.append((f.name, "other:" + v.dtype.name, [repr(x) for x in v.tolist()]))
    return out


def impl_csv(work, t):
    from fieldcompare.io import write, read_field_data
    base = work.base()
    try:
        with warnings.catch_warnings():
            warnings.simplefilter("ignore")
            path = write(table_obj(t), base)
            text = open(path, "rb").read()
            back = read_field_data(path, {"dsv": {"delimiter": ",", "use_names": True}})
            res = ("ok", text, canon_table(back))
    except Exception as e:  # noqa: BLE001
        res = ("exc", type(e).__name__, str(e)[:200])
    try:
        os.remove(base + ".csv")
    except OSError:
        pass
    return res


def _hex(s: str) -> str:
    b = s.encode("utf-8")
    return b.hex() if b else "-"


def enc_table(t) -> str:
    toks = table_tokens(t)
    out = ["c13csv", str(len(t["names"]))] + [_hex(n) for n in t["names"]] + [str(len(toks))]
    for r in toks:
        out += [_hex(x) for x in r]
    return " ".join(out)


def csv_unsafe(t) -> bool:
    """class predicate of finding F14: the table contains something plain CSV text / numpy's reader cannot carry:
    a column name outside [A-Za-z_][A-Za-z0-9_]* or reserved by numpy, an unsigned integer >= 2**63, or a string
    cell that is empty, contains a delimiter / quote / comment / blank / newline character or parses as a number"""
    import re
    for n in t["names"]:
        if not re.fullmatch(r"[A-Za-z_][A-Za-z0-9_]*", n) or n in ("return", "file", "print"):
            return True
    for c in t["cols"]:
        if c["kind"] == "i" and c["dt"] == "uint64" and any(b >= 2 ** 63 for b in c["bits"]):
            return True
        if c["kind"] == "s":
            for v in c["vals"]:
                if not re.fullmatch(r"[A-Za-z_][A-Za-z0-9_]*", v) or v.lower() in RESERVED:
                    return True
    return False


def check_csv(ctx, work, t, rep, tags):
    res = impl_csv(work, t)
    exp = table_expected(t)
    unsafe = csv_unsafe(t)
    kinds = sorted({c["kind"] for c in t["cols"]})
    ctx.case(("csv", repr(t)), nontrivial=t["nrows"] >= 1,
             tags=tags + ["csv-cols-" + "".join(kinds), f"csv-rows={min(t['nrows'], 9)}", "csv-impl-" + res[0]]
             + (["csv-indexmap"] if t.get("idx") is not None else []) + (["csv-unsafe"] if unsafe else []),
             sample={"case": {"names": t["names"], "nrows": t["nrows"], "kinds": [c["kind"] for c in t["cols"]]},
                     "impl": res[0]})
    slim = {"kind": "csv", "table": t}
    cls = "F14" if unsafe else None
    if res[0] == "exc":
        ctx.violation(slim, f"exception {res[1]}: {res[2]}", "table written and read back", cls=cls,
                      what="write/read_field_data raised on a table")
        return
    text, back = res[1], res[2]
    if t["nrows"] == 0:
        back = [(n, "any", v) for n, _, v in back]
        exp = [(n, "any", v) for n, _, v in exp]
    if [list(x) for x in back] != [list(x) for x in exp]:
        bad = [(e, b) for e, b in zip(exp, back) if list(e) != list(b)]
        d = f"expected {str(bad[0][0])[:150]} got {str(bad[0][1])[:150]}" if bad else f"{len(exp)} columns vs {len(back)}"
        ctx.violation(slim, d, "same names, bit-identical float64 / integer / string values", cls=cls,
                      what="CSV round trip changed the table")
    if rep is None or unsafe:
        return
    if "hyp" not in rep:
        ctx.inconsistent(slim, str(rep), "bad-op")
        return
    if rep["hyp"] != "1":
        ctx.dist["csv-outside-hyp"] += 1
        return
    ctx.dist["csv-compared-with-model"] += 1
    mtext = b"" if rep["text"] == "-" else bytes.fromhex(rep["text"])
    if mtext != text:
        ctx.mismatch(slim, text[:200].decode("utf-8", "replace"), mtext[:200].decode("utf-8", "replace"),
                     what="_write_table output differs from Fc.W.csvWrite")
    want = "/".join(",".join(_hex(x) for x in row) for row in [t["names"]] + table_tokens(t))
    if rep["back"] != want:
        ctx.inconsistent(slim, rep["back"][:200], want[:200])


ADVERSARIAL_TABLES = [
    {"names": ["a-b"], "cols": [{"kind": "f", "dt": "float64", "bits": [0x3FF0000000000000]}], "nrows": 1, "idx": None},
    {"names": ["c d", "e"], "cols": [{"kind": "i", "dt": "int64", "bits": [2]}, {"kind": "i", "dt": "int64", "bits": [3]}],
     "nrows": 1, "idx": None},
    {"names": ["return"], "cols": [{"kind": "i", "dt": "int64", "bits": [3, 4]}], "nrows": 2, "idx": None},
    {"names": ["p.x"], "cols": [{"kind": "f", "dt": "float64", "bits": [0x3FF8000000000000, 0]}], "nrows": 2, "idx": None},
    {"names": ["u"], "cols": [{"kind": "i", "dt": "uint64", "bits": [2 ** 64 - 1, 1]}], "nrows": 2, "idx": None},
    {"names": ["s"], "cols": [{"kind": "s", "vals": ["12", "13"]}], "nrows": 2, "idx": None},
    {"names": ["s", "t"], "cols": [{"kind": "s", "vals": ["a,b", "c"]}, {"kind": "i", "dt": "int64", "bits": [1, 2]}],
     "nrows": 2, "idx": None},
    {"names": ["s"], "cols": [{"kind": "s", "vals": ["x#y", "zz"]}], "nrows": 2, "idx": None},
    {"names": ["s"], "cols": [{"kind": "s", "vals": ["j", "j"]}], "nrows": 2, "idx": None},
]


# ------------------------------------------------------------------ adversarial VTU cases (outside the model's hyp)

def adversarial_vtu(rng):
    out = []
    # XML-special and non-ASCII names
    c, tags = gen_vtu_case(rng, name_pool=lambda kind, k: ["a<b", "q&r", 'x"y', "é", "with space", "a|b;c"][k % 6] + kind)
    out.append((c, "names-xml"))
    # float32 points with fewer than three columns (padded array becomes float64)
    for _ in range(3):
        c, tags = gen_vtu_case(rng)
        n, d = len(c["points"]), c["dim"]
        p32 = arr_of("float64", (n, d), [b for p in c["points"] for b in p]).astype(np.float32)
        c["ptype"] = "float32"
        c["points"] = [bits_of(p) for p in p32]
        out.append((c, f"points-float32-dim{d}"))
    # an empty cell-type block next to a non-empty one
    c, tags = gen_vtu_case(rng)
    present = {t for t, _ in c["cells"]}
    extra = next(t for t in ("TRIANGLE", "QUAD", "LINE", "TETRA") if t not in present)
    c["cells"].append([extra, []])
    names = []
    for f in c["cf"]:
        if f["name"] not in names:
            names.append(f["name"])
    for n in names:
        f0 = next(f for f in c["cf"] if f["name"] == n)
        c["cf"].append({"name": n, "ctype": extra, "dt": f0["dt"], "rows": 0, "tail": f0["tail"], "bits": []})
    out.append((c, "empty-type-block"))
    # unsigned 64-bit connectivity
    c, tags = gen_vtu_case(rng)
    c["conntype"] = "uint64"
    out.append((c, "conn-uint64"))
    return out


# ------------------------------------------------------------------ phase 6 (package G): directed batches

CHAIN_FIRST = ["sort", "sort_points", "sort_cells", "strip", "extend", "merge", "merge_nodedup", "reread"]
CHAIN_NEXT = ["sort", "sort_points", "sort_cells", "strip", "extend", "reread"]


def chain_step(work, kind, obj):
    from fieldcompare import mesh as fm
    if kind == "sort":
        return fm.sort(obj)
    if kind == "sort_points":
        return fm.sort_points(obj)
    if kind == "sort_cells":
        return fm.sort_cells(obj)
    if kind == "strip":
        return fm.strip_orphan_points(obj)
    if kind == "extend":
        return fm.extend_space_dimension_to(3, obj)
    if kind == "reread":
        # what a file reader hands out: read-only arrays decoded from a buffer
        from fieldcompare.io import write, read_field_data
        base = work.base()
        path = write(obj, base)
        back = read_field_data(path)
        os.remove(path)
        return back
    raise ValueError(kind)


def apply_chain(rng, work, kinds, case):
    """several transformations applied one after the other (the first may be a merge)"""
    from fieldcompare import mesh as fm
    if kinds[0] in ("merge", "merge_nodedup"):
        obj = fm.merge(to_obj(case), to_obj(shifted_copy(rng, case)), remove_duplicate_points=(kinds[0] == "merge"))
    else:
        obj = chain_step(work, kinds[0], to_obj(case))
    for k in kinds[1:]:
        obj = chain_step(work, k, obj)
    return obj


def p6g_vtu_cases(ctx, rng, work, todo):
    """appends (case, tags) to `todo`; the cases go through `check_vtu` like the random ones (Lean model where the
    protocol carries the case and the case is inside `hyp`, Python oracle always)"""
    from fcv import c13_directed_p6g as dg
    sizes = [1, 2, 17, 1000, 1001, 1366, 4097] + ctx.scale([], [3, 255, 256, 257, 2731, 8191, 8193, 21846])
    directed = dg.size_cases(rng, rand_bits, sizes)
    # beyond 2**16 rows / 2**16..2**18 payload bytes: oracle only (the protocol line would be megabytes)
    big = dg.size_cases(rng, rand_bits, [10923, 65537] + ctx.scale([], [65536, 87382, 131073]))
    directed += dg.type_cases(rng, rand_bits) + dg.tail_cases(rng, rand_bits) + dg.conn_cases(rng, rand_bits)
    directed += dg.point_cases(rng, rand_bits)
    directed += [(c, l) for c, l in dg.name_cases(rng, rand_bits)]
    directed += dg.layout_cases(rng, gen_vtu_case)
    for c, label in directed:
        todo.append((c, {"transform": "p6g-" + label, "obj": to_obj(c), "adv": True}))
    for c, label in big:
        todo.append((c, {"transform": "p6g-" + label + "-oracle", "obj": to_obj(c), "adv": True, "noproto": True}))
    # new memory layouts under the single transformations, and chains of transformations
    for i in range(ctx.scale(40, 1000)):
        case, _ = gen_vtu_case(rng)
        case["layout"] = P6G_LAYOUTS[i % len(P6G_LAYOUTS)]
        kind = TRANSFORMS[2 + i % (len(TRANSFORMS) - 2)]
        try:
            with warnings.catch_warnings():
                warnings.simplefilter("ignore")
                obj = apply_transform(rng, kind, case)
                written = extract(obj)
        except Exception as e:  # noqa: BLE001
            ctx.dist[f"transform-raised-{kind}-{type(e).__name__}"] += 1
            continue
        todo.append((written, {"transform": f"p6g-lay{case['layout']}", "obj": obj, "chain_tags": ["p6g-lay-under-" + kind]}))
    for i in range(ctx.scale(120, 3000)):
        case, _ = gen_vtu_case(rng)
        kinds = [CHAIN_FIRST[i % len(CHAIN_FIRST)]] + [rng.choice(CHAIN_NEXT) for _ in range(rng.randint(1, 2))]
        try:
            with warnings.catch_warnings():
                warnings.simplefilter("ignore")
                obj = apply_chain(rng, work, kinds, case)
                written = extract(obj)
        except Exception as e:  # noqa: BLE001
            ctx.dist[f"transform-raised-chain-{type(e).__name__}"] += 1
            continue
        todo.append((written, {"transform": "p6g-chain", "obj": obj,
                               "chain_tags": ["p6g-chain", "p6g-chain-len=%d" % len(kinds)]
                               + ["p6g-chain-has-" + k for k in sorted(set(kinds))]}))


def _seq_objs(rng, cases, objs):
    built = []
    for ci, tr in objs:
        with warnings.catch_warnings():
            warnings.simplefilter("ignore")
            o = to_obj(cases[ci]) if tr == "plain" else apply_transform(rng, tr, copy.deepcopy(cases[ci]))
            built.append((o, extract(o)))
    return built


def run_vtu_seq(work, built, steps):
    """-> None or (step number, description): write objects (built once, reused) to files that are reused as well;
    after every step every file must read back to what was written to it last (Python oracle: search)"""
    from fieldcompare.io import write, read_field_data
    bases = {}
    last = {}
    try:
        for k, (oi, fi) in enumerate(steps):
            bases.setdefault(fi, work.base())
            obj, _ = built[oi]
            try:
                with warnings.catch_warnings():
                    warnings.simplefilter("ignore")
                    write(obj, bases[fi])
            except Exception as e:  # noqa: BLE001
                return k, f"write raised {type(e).__name__}: {str(e)[:150]}"
            last[fi] = oi
            for f, o in last.items():
                exp = normalise_py(built[o][1])
                try:
                    with warnings.catch_warnings():
                        warnings.simplefilter("ignore")
                        back = canon_readback(read_field_data(bases[f] + ".vtu"))
                except Exception as e:  # noqa: BLE001
                    return k, f"reading file {f} raised {type(e).__name__}: {str(e)[:150]}"
                if not _canon_eq(exp, back):
                    return k, f"file {f} (object {o} written last): " + describe_diff(exp, back)
        return None
    finally:
        for b in bases.values():
            try:
                os.remove(b + ".vtu")
            except OSError:
                pass


def run_csv_seq(work, tables, steps):
    from fieldcompare.io import write, read_field_data
    bases, last = {}, {}
    objs = [table_obj(t) for t in tables]
    try:
        for k, (ti, fi) in enumerate(steps):
            bases.setdefault(fi, work.base())
            try:
                with warnings.catch_warnings():
                    warnings.simplefilter("ignore")
                    write(objs[ti], bases[fi])
                last[fi] = ti
                for f, t in last.items():
                    back = canon_table(read_field_data(bases[f] + ".csv", {"dsv": {"delimiter": ",", "use_names": True}}))
                    exp = table_expected(tables[t])
                    if [list(x) for x in back] != [list(x) for x in exp]:
                        return k, f"file {f} (table {t} written last): read back {str(back)[:200]} expected {str(exp)[:200]}"
            except Exception as e:  # noqa: BLE001
                return k, f"raised {type(e).__name__}: {str(e)[:150]}"
        return None
    finally:
        for b in bases.values():
            try:
                os.remove(b + ".csv")
            except OSError:
                pass


def p6g_sequences(ctx, rng, work):
    from fcv import c13_directed_p6g as dg
    for rep in range(ctx.scale(1, 20)):
        for cases, objs, steps, label in dg.vtu_sequences(rng, rand_bits, gen_vtu_case):
            try:
                built = _seq_objs(rng, cases, objs)
            except Exception as e:  # noqa: BLE001
                ctx.dist[f"transform-raised-seq-{type(e).__name__}"] += 1
                continue
            bad = run_vtu_seq(work, built, steps)
            ctx.case(("vtuseq", repr((cases, objs, steps))), nontrivial=True, tags=["p6g-" + label, "p6g-vtuseq"],
                     sample={"case": {"label": label, "steps": steps}, "impl": "ok" if bad is None else "bad"})
            if bad is not None:
                ctx.violation({"kind": "vtuseq", "cases": cases, "objs": [list(o) for o in objs],
                               "steps": [list(x) for x in steps]},
                              f"step {bad[0]}: {bad[1]}", "every file reads back to what was written to it last",
                              what="repeated / overwriting VTU writes changed the data")
        for tables, steps, label in dg.csv_sequences(rng, rand_bits):
            bad = run_csv_seq(work, tables, steps)
            ctx.case(("csvseq", repr((tables, steps))), nontrivial=True, tags=["p6g-" + label, "p6g-csvseq"],
                     sample={"case": {"label": label, "steps": steps}, "impl": "ok" if bad is None else "bad"})
            if bad is not None:
                ctx.violation({"kind": "csvseq", "tables": tables, "steps": [list(x) for x in steps]},
                              f"step {bad[0]}: {bad[1]}", "every file reads back to the table written to it last",
                              what="repeated / overwriting CSV writes changed the table")


def build_big(spec):
    """spec (c13_directed_p6g.array_bytes_specs) -> (points, quads, point data, cell data) as numpy arrays, built directly"""
    n = int(spec["npoints"])
    m = n // 2
    pts = np.zeros((n, 3), dtype=np.float64)
    pts[:2 * m, 0] = np.tile(np.arange(m, dtype=np.float64), 2) * 0.5
    pts[m:2 * m, 1] = 1.0
    if n % 2:
        pts[-1] = [-1.0, -1.0, 0.25]         # one unconnected point
    i = np.arange(m - 1, dtype=np.int64)
    quads = np.stack([i, i + 1, m + i + 1, m + i], axis=1)
    pd, cd = {}, {}
    for k, (where, name, dt, tail) in enumerate(spec["fields"]):
        rows = n if where == "p" else len(quads)
        count = rows * prodl(tail)
        bits = 8 * SIZE[dt]
        with np.errstate(over="ignore"):
            u = (np.arange(count, dtype=np.uint64) * np.uint64(0x9E3779B97F4A7C15) + np.uint64(int(spec["salt"]) * 1000003 + k)) \
                >> np.uint64(64 - bits)
        u = u.astype(np.dtype(f"<u{SIZE[dt]}"))
        if dt.startswith("float"):
            expo = (0x7FF << 52) if dt == "float64" else (0xFF << 23)
            nonfinite = (u & u.dtype.type(expo)) == u.dtype.type(expo)
            u[nonfinite] &= u.dtype.type(~(1 << (bits - 2)) & ((1 << bits) - 1))     # finite values only
        a = u.view(np.dtype(dt)).reshape([rows] + list(tail))
        (pd if where == "p" else cd)[name] = a
    return pts, quads, pd, cd


def run_big(work, spec):
    """-> None or a description of the first difference (numpy, bit patterns): independent Python expectation (search)"""
    from fieldcompare.mesh import Mesh, MeshFields, CellType
    from fieldcompare.io import write, read_field_data
    pts, quads, pd, cd = build_big(spec)
    base = work.base()
    try:
        with warnings.catch_warnings():
            warnings.simplefilter("ignore")
            obj = MeshFields(Mesh(pts, [(CellType.from_name("QUAD"), quads)]), dict(pd), {k: [v] for k, v in cd.items()})
            path = write(obj, base)
            back = read_field_data(path)
            bp = np.asarray(back.domain.points)
            if bp.dtype != pts.dtype or bp.shape != pts.shape or not np.array_equal(bp.view(np.uint64), pts.view(np.uint64)):
                return "points differ"
            cts = [ct.name for ct in back.domain.cell_types]
            if cts != ["QUAD"] or not np.array_equal(np.asarray(back.domain.connectivity(CellType.from_name("QUAD"))), quads):
                return f"cells differ (types {cts})"
            got = {f.name: np.asarray(f.values) for f in back}
            want = dict(pd)
            want.update({f"{k} @ QUAD": v for k, v in cd.items()})
            if len(got) != len(pd) + len(cd):
                return f"field names {sorted(got)} vs {sorted(pd) + sorted(cd)}"
            for name, v in pd.items():
                if name not in got:
                    return f"point field {name} missing (have {sorted(got)})"
            for name, v in list(pd.items()) + list(cd.items()):
                g = got.get(name)
                if g is None:
                    cand = [x for k2, x in got.items() if k2.startswith(name + " ") or k2.startswith(name + "_")]
                    g = cand[0] if len(cand) == 1 else None
                if g is None:
                    return f"field {name} missing (have {sorted(got)})"
                e = v.reshape(len(v), -1) if v.ndim > 1 else v
                if g.dtype != e.dtype or g.shape != e.shape:
                    return f"field {name}: dtype/shape {g.dtype}{g.shape} vs {e.dtype}{e.shape}"
                ub = np.dtype(f"<u{e.dtype.itemsize}")
                if not np.array_equal(np.ascontiguousarray(g).view(ub), np.ascontiguousarray(e).view(ub)):
                    bad = int(np.flatnonzero(np.ascontiguousarray(g).view(ub).reshape(-1) != np.ascontiguousarray(e).view(ub).reshape(-1))[0])
                    return f"field {name}: first differing scalar at flat index {bad} of {e.size}"
        return None
    except Exception as e:  # noqa: BLE001
        return f"raised {type(e).__name__}: {str(e)[:150]}"
    finally:
        try:
            os.remove(base + ".vtu")
        except OSError:
            pass


def p6g_array_bytes(ctx, work):
    from fcv import c13_directed_p6g as dg
    for spec in dg.array_bytes_specs(ctx.tier == "thorough"):
        bad = run_big(work, spec)
        sizes = []
        for where, name, dt, tail in spec["fields"]:
            rows = spec["npoints"] if where == "p" else spec["npoints"] // 2 - 1
            sizes.append(8 + rows * SIZE[dt] * prodl(tail))
        top = max(sizes + [8 + 24 * spec["npoints"]])
        ctx.case(("vtubig", repr(spec)), nontrivial=True,
                 tags=[spec["label"], "p6g-array-bytes", "p6g-array-bytes>1MiB" if max(sizes) > 2 ** 20 else
                       ("p6g-array-bytes~2^20" if max(sizes) > 2 ** 19 else "p6g-array-bytes~2^16")],
                 sample={"case": {"label": spec["label"], "npoints": spec["npoints"], "field_array_bytes": sizes,
                                  "largest_array_bytes": top}, "impl": "ok" if bad is None else "bad"})
        if bad is not None:
            ctx.violation({"kind": "vtubig", "spec": spec}, bad, "read back bit-identical (numpy comparison)",
                          what="VTU round trip of a large data array changed the data")


def p6g_csv(ctx, rng, work):
    from fcv import c13_directed_p6g as dg
    tabs = dg.csv_tables(rng, rand_bits, [0, 2, 17, 1000, 1001, 4097] + ctx.scale([], [255, 256, 65536, 65537]))
    # index maps that repeat / drop rows (a transformed table need not be a permutation)
    for _ in range(ctx.scale(30, 600)):
        t = gen_table(rng)
        n = t["nrows"]
        t["idx"] = [rng.randrange(n) for _ in range(n)]     # (the table domain fixes the number of rows)
        tabs.append((t, "csv-indexmap-nonperm"))
    small = [(t, l) for t, l in tabs if t["nrows"] <= 1001 and t["nrows"] > 0]
    lines = [enc_table(t) for t, _ in small] if ctx.driver_ok else []
    reps = dict(zip([id(t) for t, _ in small], ctx.lean(lines))) if lines else {}
    for t, label in tabs:
        check_csv(ctx, work, t, reps.get(id(t)), ["csv", "p6g-" + label])
    for t, label in dg.csv_tables(rng, rand_bits, [70001]):
        if label.startswith("csv-size-"):
            check_csv(ctx, work, t, None, ["csv", "p6g-" + label])


# ------------------------------------------------------------------ run

def run(ctx):
    ctx.rule = ("VTU case = accessor content (points, cells per type, point/cell fields as bit patterns) of the object "
                "handed to io.write, after one of plain/sort/sort_points/sort_cells/strip/extend/merge/diff; CSV case = "
                "table (names, float64/int/str columns, optional index map). Non-trivial: VTU with at least one field and "
                "one cell block; CSV with at least one row. Distinct = distinct literal content.")
    ctx.assumptions += [
        "ElementTree serialises/parses the element tree faithfully (the XML layer is not modelled; elements are compared)",
        "numpy tobytes/frombuffer/reshape are row-major little-endian on this host (compared on every case)",
        "CPython str(float)/float(str) round-trip and numpy.genfromtxt number parsing (CSV numeric identity)",
        "stdlib base64 = Fc.W.b64enc / Fc.W.b64dec (compared on every written element and on random strings)",
    ]
    rng = ctx.rng
    work = Work()
    try:
        _run(ctx, rng, work)
    finally:
        work.close()


def _run(ctx, rng, work):
    # ---- VTU
    n_vtu = ctx.scale(1200, 30000)
    todo = []
    for i in range(n_vtu):
        case, tags = gen_vtu_case(rng)
        kind = TRANSFORMS[i % len(TRANSFORMS)] if i < 3 * len(TRANSFORMS) else rng.choice(TRANSFORMS)
        try:
            with warnings.catch_warnings():
                warnings.simplefilter("ignore")
                obj = apply_transform(rng, kind, case)
                written = extract(obj)
        except Exception as e:  # noqa: BLE001  (a transformation refusing a mesh is not this property's business)
            ctx.dist[f"transform-raised-{kind}-{type(e).__name__}"] += 1
            continue
        todo.append((written, {"transform": kind, "obj": obj}))
    for c, label in adversarial_vtu(rng):
        try:
            todo.append((c, {"transform": "adv-" + label, "obj": to_obj(c), "adv": True}))
        except Exception as e:  # noqa: BLE001
            ctx.notes.append(f"adversarial case {label} could not be constructed: {e!r}")
    p6g_vtu_cases(ctx, rng, work, todo)
    CH = 400
    for i in range(0, len(todo), CH):
        chunk = todo[i:i + CH]
        lines, idx = [], []
        for j, (c, tg) in enumerate(chunk):
            if ctx.driver_ok and safe_for_protocol(c) and c["conntype"] in SIZE and c["ptype"] in SIZE \
                    and not tg.get("noproto"):
                idx.append(j)
                lines.append(enc_case(c))
        reps = dict(zip(idx, ctx.lean(lines))) if lines else {}
        for j, (c, tg) in enumerate(chunk):
            check_vtu(ctx, work, c, tg, reps.get(j))
    # ---- base64 model vs stdlib on arbitrary strings (the decoder's leniency matters for C18)
    if ctx.driver_ok:
        import base64
        import binascii
        lines, want = [], []
        for n in list(range(0, 14)) + [rng.randint(14, 200) for _ in range(ctx.scale(40, 2000))]:
            b = bytes(rng.getrandbits(8) for _ in range(n))
            lines.append("c13b64 " + (b.hex() or "-"))
            want.append((base64.b64encode(b).decode() or "-", b.hex() or "-"))
        alphabet = "ABCDEFGHIJKLMNOPQRSTUVWXYZabcdefghijklmnopqrstuvwxyz0123456789+/"
        dl, dw = [], []
        for _ in range(ctx.scale(300, 20000)):
            k = rng.randint(0, 24)
            s = "".join(rng.choice(alphabet + "==_-.!") for _ in range(k))
            try:
                d = base64.b64decode(s.encode()).hex() or "-"
            except binascii.Error:
                d = "none"
            dl.append("c13dec " + (s or "-"))
            dw.append(d)
        reps = ctx.lean(lines + dl)
        for ln, (we, wd), r in zip(lines, want, reps[:len(lines)]):
            ctx.case(("b64", ln), nontrivial=True, tags=["b64-enc"])
            if r.get("enc") != we or r.get("dec") != wd:
                ctx.mismatch({"kind": "b64", "line": ln}, {"enc": we, "dec": wd}, r, what="base64 model differs from the stdlib")
        for ln, wd, r in zip(dl, dw, reps[len(lines):]):
            ctx.case(("b64dec", ln), nontrivial=True, tags=["b64-dec-" + ("err" if wd == "none" else "ok")])
            if r.get("dec") != wd:
                ctx.mismatch({"kind": "b64dec", "line": ln}, wd, r, what="lenient base64 decoder model differs from binascii")
    # ---- CSV
    n_csv = ctx.scale(800, 20000)
    tables = [gen_table(rng) for _ in range(n_csv)]
    tables.append({"names": ["a"], "cols": [{"kind": "f", "dt": "float64", "bits": []}], "nrows": 0, "idx": None})
    lines = [enc_table(t) for t in tables] if ctx.driver_ok else []
    reps = ctx.lean(lines) if lines else [None] * len(tables)
    for t, r in zip(tables, reps):
        check_csv(ctx, work, t, r, ["csv"])
    for t in ADVERSARIAL_TABLES:
        check_csv(ctx, work, t, None, ["csv-adversarial"])
    p6g_sequences(ctx, rng, work)
    p6g_array_bytes(ctx, work)
    p6g_csv(ctx, rng, work)
    ctx.spec_viol = [shrink(v) for v in ctx.spec_viol[:40]]


def shrink(v):
    """drop fields that are not needed to reproduce a VTU round-trip difference"""
    c = v["case"]
    if c.get("kind") != "vtu":
        return v
    work = Work()
    try:
        case = c["case"]
        changed = True
        while changed:
            changed = False
            for key in ("pf", "cf"):
                names = []
                for f in case[key]:
                    if f["name"] not in names:
                        names.append(f["name"])
                for n in names:
                    trial = dict(case, **{key: [f for f in case[key] if f["name"] != n]})
                    try:
                        res = impl_vtu(work, to_obj(trial))
                    except Exception:  # noqa: BLE001
                        continue
                    if res[0] == "exc" or not _canon_eq(normalise_py(trial), res[2]):
                        case = trial
                        changed = True
                        break
        return dict(v, case={"kind": "vtu", "case": case})
    finally:
        work.close()


# ------------------------------------------------------------------ known findings / replay

def replay_witness(ctx, entry):
    return core.run_named_witness(entry)


def replay(ctx, payload) -> int:
    c = payload["case"]
    work = Work()
    try:
        if c.get("kind") == "vtu":
            res = impl_vtu(work, to_obj(c["case"]))
            exp = normalise_py(c["case"])
            ok = res[0] == "ok" and _canon_eq(exp, res[2])
            print("replay: " + ("round trip exact" if ok else
                                (f"raised {res[1]}: {res[2]}" if res[0] == "exc" else describe_diff(exp, res[2]))))
        elif c.get("kind") == "vtuseq":
            bad = run_vtu_seq(work, _seq_objs(__import__("random").Random(0), c["cases"], [tuple(o) for o in c["objs"]]),
                              [tuple(x) for x in c["steps"]])
            ok = bad is None
            print("replay: " + ("every file reads back to what was written last" if ok else f"step {bad[0]}: {bad[1]}"))
        elif c.get("kind") == "vtubig":
            bad = run_big(work, c["spec"])
            ok = bad is None
            print("replay: " + ("round trip exact" if ok else bad))
        elif c.get("kind") == "csvseq":
            bad = run_csv_seq(work, c["tables"], [tuple(x) for x in c["steps"]])
            ok = bad is None
            print("replay: " + ("every file reads back to what was written last" if ok else f"step {bad[0]}: {bad[1]}"))
        elif c.get("kind") == "csv":
            res = impl_csv(work, c["table"])
            exp = table_expected(c["table"])
            ok = res[0] == "ok" and [list(x) for x in res[2]] == [list(x) for x in exp]
            print("replay: " + ("round trip exact" if ok else f"read back {str(res[1:])[:300]} expected {str(exp)[:300]}"))
        else:
            print("replay: correspondence item without an implementation-side failing input:", str(c)[:300])
            ok = True
    finally:
        work.close()
    if not ok:
        print(f"VIOLATION property=C13 replay={payload.get('_path', '<replay>')}")
        return 1
    return 0
