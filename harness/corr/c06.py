"""C06 — a partitioned (parallel) data set reads as the whole data set.

Unstructured
  cases    = (whole logical mesh, list of pieces in listing order); pieces are built by assigning every cell of a
             conforming meshgen mesh (optionally restricted to a subset of its cells) to one of 1..5 pieces
             (contiguous / scattered / singleton cells / a last piece without a new point [class F3]), local
             point numbering shuffled, listing order shuffled.
  impl     = (i) fieldcompare.mesh.merge(*pieces) in memory, (ii) pieces written with fieldcompare.io.write as .vtu
             + a hand-written .pvtu, read with fieldcompare.io.read_field_data.
  model    = Fc.mergeAll (driver op c06u) on the same pieces (for (ii): on the pieces as read back from their files).
  spec     = geometric content + field dtypes of the whole data set (python oracle meshgen.content, and the Lean
             spec Fc.Spec.readsAsWhole evaluated by the driver on the model's result).
Structured
  every lattice shape with <= 3 (thorough: 4) cells per axis x every axis-aligned decomposition:
  (iii) StructuredFieldMerger.merge_point_fields / merge_cell_fields vs Fc.mergeStructured / pieceEntityIndices
        (single-valued fields -> must equal the whole field; multi-valued point fields -> writer order must match),
  (iv)  .vti/.vtr/.vts pieces + .pvti/.pvtr/.pvts (ascii, hand-written, shuffled listing order, shifted extents,
        .vti optionally with a Direction attribute) read back vs the whole file, vs Fc.pvtkMergeField (entity ids),
        Fc.pvtrOrdinates, and vs Fc.pvtkReadStructured = the whole `_merge_structured` (op c06rd: mesh object incl. the
        image origin / spacing / basis, every data array with dtype and shape).
"""
from __future__ import annotations
import copy
import itertools
import os
import shutil
import tempfile
import warnings

import numpy as np

from fcv import meshgen, core
from fcv.predio import NP_DT

VTK_TYPE = {"f64": "Float64", "f32": "Float32", "i32": "Int32", "i64": "Int64", "i8": "Int8", "i16": "Int16",
            "u8": "UInt8", "u16": "UInt16", "u32": "UInt32", "u64": "UInt64"}


# =================================================================== helpers: logical meshes

def canon(lm):
    """content + schema with fields ordered by name (the merged cell-field order comes from a Python set)"""
    lm2 = dict(lm, pf=sorted(lm["pf"], key=lambda f: f["name"]),
               cf=sorted(lm["cf"], key=lambda f: (f["name"], f["ctype"])))
    pitems, citems = meshgen.content(lm2)
    schema = (tuple(sorted({(f["name"], f["dt"], tuple(f["tail"])) for f in lm["pf"]})),
              tuple(sorted({(f["name"], f["dt"], tuple(f["tail"])) for f in lm["cf"]})))
    return {"points": pitems, "cells": citems, "schema": schema}


def summarize(c):
    return {"n_point_items": len(c["points"]), "n_cell_items": len(c["cells"]), "schema": c["schema"]}


def diff_summary(a, b):
    """short, JSON-able description of how two canonical contents differ"""
    out = {"a": summarize(a), "b": summarize(b)}
    if a["cells"] != b["cells"]:
        sa, sb = list(a["cells"]), list(b["cells"])
        for x in sb:
            if x in sa:
                sa.remove(x)
        out["cells_only_in_a"] = len(sa)
    if a["points"] != b["points"]:
        out["points_differ"] = True
    if a["schema"] != b["schema"]:
        out["schema_differ"] = True
    return out


def restrict(lm, cell_sel, point_order=None, extra_points=()):
    """sub-mesh of `lm` with the selected cells (cell_sel[block] = list of cell indices) and exactly the points they
    use (+ extra_points), numbered by `point_order` (a list of old indices) or ascending"""
    used = set(extra_points)
    for bi, (t, rows) in enumerate(lm["cells"]):
        for c in cell_sel[bi]:
            used.update(rows[c])
    order = sorted(used) if point_order is None else [p for p in point_order if p in used]
    inv = {old: new for new, old in enumerate(order)}
    out = {"dim": lm["dim"], "points": [list(lm["points"][o]) for o in order], "cells": [], "pf": [], "cf": []}
    for bi, (t, rows) in enumerate(lm["cells"]):
        if cell_sel[bi]:
            out["cells"].append([t, [[inv[p] for p in rows[c]] for c in cell_sel[bi]]])
    for f in lm["pf"]:
        rs = meshgen._rowsize(f["tail"])
        out["pf"].append(dict(f, v=[x for o in order for x in f["v"][o * rs:(o + 1) * rs]]))
    types = [t for t, _ in lm["cells"]]
    for f in lm["cf"]:
        bi = types.index(f["ctype"])
        if cell_sel[bi]:
            rs = meshgen._rowsize(f["tail"])
            out["cf"].append(dict(f, v=[x for c in cell_sel[bi] for x in f["v"][c * rs:(c + 1) * rs]]))
    return out


def all_cells(lm):
    return [(bi, c) for bi, (t, rows) in enumerate(lm["cells"]) for c in range(len(rows))]


def sel_from(lm, cells):
    sel = [[] for _ in lm["cells"]]
    for bi, c in cells:
        sel[bi].append(c)
    return sel


def point_key(p):
    return tuple(meshgen.f2u(c) for c in p)


def whole_has_no_orphans(lm):
    used = {p for _, rows in lm["cells"] for r in rows for p in r}
    return len(used) == len(lm["points"])


def is_f3(pieces):
    """class predicate of finding F3: some later piece has no point that is not already in an earlier piece"""
    seen = set()
    for i, p in enumerate(pieces):
        keys = {point_key(x) for x in p["points"]}
        if i > 0 and keys <= seen:
            return True
        seen |= keys
    return False


def _fit_dtype(lm):
    """values of 8-bit integer fields wrapped into the range of the type (the shared generator hands out values up to
    a few thousand)"""
    for f in lm["pf"] + lm["cf"]:
        m = {"u8": 251, "i8": 127}.get(f["dt"])
        if m:
            f["v"] = [int(x) % m for x in f["v"]]
    return lm


def gen_partition(rng, max_cells=3, dtypes=None, scale=None):
    """-> (whole, pieces, tags); dtypes: numeric types of the fields (default: the shared generator's f64/f32/i32/i64);
    scale: lattice spacing handed to the shared generator (default: its own random choice 1e-6 .. 1e6)"""
    for _ in range(20):
        kw = {"dtypes": tuple(dtypes)} if dtypes else {}
        if scale is not None:
            kw["scale"] = scale
        lm, tags = meshgen.gen_mesh(rng, max_cells_per_dir=max_cells, allow_duplicates=False,
                                    allow_orphans=(rng.random() < 0.2), **kw)
        _fit_dtype(lm)
        ncells = sum(len(rows) for _, rows in lm["cells"])
        # line meshes and one-cell meshes are over-represented by the shared generator: thin them out
        if (tags["topo"] > 1 or rng.random() < 0.25) and (ncells > 1 or rng.random() < 0.1):
            break
    tags = ["style-" + str(tags["style"]), "dim%d" % tags["dim"]] + (["orphans"] if "orphans" in tags else [])
    cells = all_cells(lm)
    connected = {p for t, rows in lm["cells"] for r in rows for p in r}
    orphans = [p for p in range(len(lm["points"])) if p not in connected]
    # optionally keep only a subset of the cells: disconnected parts, cells touching in corners only
    if len(cells) > 2 and rng.random() < 0.3:
        keep = [c for c in cells if rng.random() < 0.55] or cells[:1]
        lm = restrict(lm, sel_from(lm, keep), extra_points=orphans)
        cells = all_cells(lm)
        connected = {p for t, rows in lm["cells"] for r in rows for p in r}
        orphans = [p for p in range(len(lm["points"])) if p not in connected]
        tags.append("subset")
    n = len(cells)
    k = min(n, rng.choice([1, 2, 2, 3, 3, 4, 5]))
    strategy = rng.choice(["contiguous", "scattered", "scattered", "singletons", "f3"])
    groups = None
    if strategy == "f3":
        # a cell all of whose points also belong to other cells becomes the last piece
        use = {}
        for bi, c in cells:
            for p in lm["cells"][bi][1][c]:
                use[p] = use.get(p, 0) + 1
        cand = [(bi, c) for bi, c in cells if all(use[p] > 1 for p in lm["cells"][bi][1][c])]
        if cand and n > 1:
            last = rng.choice(cand)
            others = [c for c in cells if c != last]
            rng.shuffle(others)
            cut = rng.randint(1, len(others)) if rng.random() < 0.5 else len(others)
            groups = [g for g in (others[:cut], others[cut:]) if g]
            pos = rng.randint(1, len(groups))
            groups.insert(pos, [last])
        else:
            strategy = "scattered"
    if groups is None:
        if strategy == "contiguous":
            cuts = sorted(rng.sample(range(1, n), k - 1)) if k > 1 else []
            groups = [cells[a:b] for a, b in zip([0] + cuts, cuts + [n])]
        elif strategy == "singletons":
            sub = list(cells)
            rng.shuffle(sub)
            k = min(n, 5)
            groups = [[c] for c in sub[:k - 1]] + [sub[k - 1:]]
        else:
            assign = [rng.randrange(k) for _ in cells]
            for i in range(k):   # no empty piece
                assign[rng.randrange(n)] = i if i not in assign else assign[rng.randrange(n)]
            groups = [[c for c, a in zip(cells, assign) if a == i] for i in range(k)]
            groups = [g for g in groups if g]
        if strategy != "f3":
            rng.shuffle(groups)
    tags.append("strategy-" + strategy)
    pieces = []
    owner = {o: rng.randrange(len(groups)) for o in orphans}
    for gi, g in enumerate(groups):
        order = list(range(len(lm["points"])))
        if rng.random() < 0.6:
            rng.shuffle(order)
        pieces.append(restrict(lm, sel_from(lm, g), point_order=order,
                               extra_points=[o for o in orphans if owner[o] == gi]))
    tags.append("k=%d" % len(pieces))
    return lm, pieces, tags


# =================================================================== protocol

def enc_c06u(whole, pieces) -> str:
    return " ".join(["c06u", meshgen.enc_fields(whole), str(len(pieces))] + [meshgen.enc_fields(p) for p in pieces])


def dec_fields(s: str):
    """inverse of the driver's encFields (values stay integers: unit counts / ints)"""
    t = s.split(",")
    pos = [0]

    def nxt():
        pos[0] += 1
        return t[pos[0] - 1]

    def arr():
        dt = nxt()
        nd = int(nxt())
        shape = [int(nxt()) for _ in range(nd)]
        n = int(nxt())
        return dt, shape, [int(nxt()) for _ in range(n)]
    dim = int(nxt())
    npnt = int(nxt())
    pts = [[int(nxt()) for _ in range(dim)] for _ in range(npnt)]
    cells = []
    for _ in range(int(nxt())):
        ct = nxt()
        nc = int(nxt())
        k = int(nxt())
        cells.append([ct, [[int(nxt()) for _ in range(k)] for _ in range(nc)]])
    pf, cf = [], []
    for _ in range(int(nxt())):
        name = nxt()
        dt, shape, v = arr()
        pf.append({"name": name, "dt": dt, "tail": shape[1:], "v": v, "n": shape[0]})
    for _ in range(int(nxt())):
        name = nxt()
        ct = nxt()
        dt, shape, v = arr()
        cf.append({"name": name, "ctype": ct, "dt": dt, "tail": shape[1:], "v": v, "n": shape[0]})
    return {"dim": dim, "points": pts, "cells": cells, "pf": pf, "cf": cf}


def canon_units(um):
    """canon() for a mesh whose numbers are already unit counts / ints (decoded model output)"""
    connected = set()
    for _, rows in um["cells"]:
        for r in rows:
            connected.update(r)
    coords = [tuple(p) for p in um["points"]]
    pfs = sorted(um["pf"], key=lambda f: f["name"])
    cfs = sorted(um["cf"], key=lambda f: (f["name"], f["ctype"]))
    pitems = []
    for p in sorted(connected):
        vals = []
        for f in pfs:
            rs = meshgen._rowsize(f["tail"])
            vals.append((f["name"], f["dt"], tuple(f["v"][p * rs:(p + 1) * rs])))
        pitems.append((coords[p] if p < len(coords) else (), tuple(vals)))
    citems = []
    for t, rows in um["cells"]:
        for c, r in enumerate(rows):
            vals = []
            for f in cfs:
                if f["ctype"] != t:
                    continue
                rs = meshgen._rowsize(f["tail"])
                vals.append((f["name"], f["dt"], tuple(f["v"][c * rs:(c + 1) * rs])))
            citems.append((t, tuple(coords[i] if i < len(coords) else () for i in r), tuple(vals)))
    schema = (tuple(sorted({(f["name"], f["dt"], tuple(f["tail"])) for f in um["pf"]})),
              tuple(sorted({(f["name"], f["dt"], tuple(f["tail"])) for f in um["cf"]})))
    return {"points": sorted(pitems), "cells": sorted(citems), "schema": schema}


# =================================================================== implementation runners (unstructured)

def impl_merge_mem(pieces):
    from fieldcompare.mesh import merge
    with warnings.catch_warnings():
        warnings.simplefilter("ignore")
        res = merge(*[meshgen.to_fc(p) for p in pieces])
    return res


def well_separated(lm) -> bool:
    """the comparator's own hypothesis (DESIGN section 6-C `Sep`): distinct coordinate values of a column differ by
    much more than the mesh tolerance max|coordinate| * 1e-8; otherwise its verdict says nothing about C06"""
    pts = lm["points"]
    if not pts:
        return True
    tol = 8.0 * 1e-8 * max(abs(c) for p in pts for c in p)
    for k in range(lm["dim"]):
        col = sorted({p[k] for p in pts})
        if any(b - a <= tol for a, b in zip(col, col[1:])):
            return False
    return True


def comparator_verdict(a, b) -> str:
    from fieldcompare.mesh import MeshFieldsComparator
    try:
        with warnings.catch_warnings():
            warnings.simplefilter("ignore")
            return "pass" if bool(MeshFieldsComparator(a, b)(fieldcomp_callback=lambda *_, **__: None)) else "fail"
    except Exception as e:  # noqa: BLE001
        return "X:" + type(e).__name__


def write_pvtu(d, name, piece_files, whole_lm):
    pdata = "".join(f'<PDataArray Name="{f["name"]}" type="{VTK_TYPE[f["dt"]]}" '
                    f'NumberOfComponents="{meshgen._rowsize(f["tail"])}"/>' for f in whole_lm["pf"])
    names = []
    for f in whole_lm["cf"]:
        if f["name"] not in [n["name"] for n in names]:
            names.append(f)
    cdata = "".join(f'<PDataArray Name="{f["name"]}" type="{VTK_TYPE[f["dt"]]}" '
                    f'NumberOfComponents="{meshgen._rowsize(f["tail"])}"/>' for f in names)
    pieces = "".join(f'<Piece Source="{os.path.basename(p)}"/>' for p in piece_files)
    xml = ('<?xml version="1.0"?>\n<VTKFile type="PUnstructuredGrid">\n<PUnstructuredGrid>'
           f'<PPointData>{pdata}</PPointData><PCellData>{cdata}</PCellData>'
           '<PPoints><PDataArray NumberOfComponents="3" type="Float64"/></PPoints>'
           f'{pieces}</PUnstructuredGrid>\n</VTKFile>\n')
    p = os.path.join(d, name + ".pvtu")
    with open(p, "w") as fh:
        fh.write(xml)
    return p


def impl_merge_files(d, whole, pieces, tag):
    """-> (parallel MeshFields, whole MeshFields as read back, pieces as read back [lm])"""
    from fieldcompare.io import write, read_field_data
    with warnings.catch_warnings():
        warnings.simplefilter("ignore")
        files = [write(meshgen.to_fc(p), os.path.join(d, f"{tag}-{i}")) for i, p in enumerate(pieces)]
        wfile = write(meshgen.to_fc(whole), os.path.join(d, f"{tag}-whole"))
        pfile = write_pvtu(d, tag, files, whole)
        par = read_field_data(pfile)
        seq = read_field_data(wfile)
        back = [meshgen.from_fc(read_field_data(f)) for f in files]
    for f in files + [wfile, pfile]:
        os.remove(f)
    return par, seq, back


# =================================================================== unstructured evaluation

def eval_unstructured(ctx, batch, tmpdir):
    """batch: list of (whole, pieces, tags, via)"""
    prepared = []
    for whole, pieces, tags, via in batch:
        case = {"kind": "merge", "via": via, "whole": whole, "pieces": pieces}
        f3 = is_f3(pieces)
        if canon(oracle_merge(pieces)) != canon(whole):
            ctx.inconsistent(case, "generator: the pieces are not a splitting of the whole data set", "oracle_merge(pieces) == whole")
            continue
        try:
            if via == "mem":
                res = impl_merge_mem(pieces)
                ref_fc = meshgen.to_fc(whole)
                model_whole, model_pieces = whole, pieces
            else:
                res, ref_fc, back = impl_merge_files(tmpdir, whole, pieces, "u")
                model_whole, model_pieces = meshgen.from_fc(ref_fc), back
            impl_lm = meshgen.from_fc(res)
            impl_c = canon(impl_lm)
            ref_c = canon(meshgen.from_fc(ref_fc))
            verdict = comparator_verdict(res, ref_fc) if well_separated(whole) else "n/a"
            err = None
        except Exception as e:  # noqa: BLE001
            impl_c, ref_c, verdict, err = None, None, None, f"{type(e).__name__}: {e}"
            model_whole, model_pieces = whole, pieces
        prepared.append((case, tags, f3, impl_c, ref_c, verdict, err, model_whole, model_pieces))
    replies = [None] * len(prepared)
    if ctx.driver_ok:
        replies = ctx.lean([enc_c06u(p[7], p[8]) for p in prepared])
    for (case, tags, f3, impl_c, ref_c, verdict, err, mw, mp), rep in zip(prepared, replies):
        nontrivial = len(case["pieces"]) > 1
        tags = list(tags) + ["via-" + case["via"], "f3" if f3 else "no-f3"]
        ctx.case(("u", case["via"], repr(case["whole"]["points"]), repr([p["cells"] for p in case["pieces"]]),
                  repr([p["points"] for p in case["pieces"]])),
                 nontrivial=nontrivial, tags=tags,
                 sample={"via": case["via"], "n_pieces": len(case["pieces"]), "n_cells": len(all_cells(case["whole"])),
                         "f3": f3, "impl_equals_whole": (impl_c == ref_c) if err is None else err,
                         "lean": {k: v for k, v in (rep or {}).items() if k != "model"}})
        if err is not None:
            ctx.violation(case, "exception " + err, "content of the whole data set", cls=("F3" if f3 else None),
                          what="merging the pieces raised")
            continue
        # --- correspondence impl vs model
        if rep is not None:
            if "hyp" not in rep:
                ctx.inconsistent(case, str(rep), "bad-op")
            elif rep["hyp"] == "1":
                model_c = canon_units(dec_fields(rep["model"]))
                if model_c != impl_c:
                    ctx.mismatch(case, diff_summary(impl_c, model_c), "Fc.mergeAll", what="merge: impl vs model content")
                if (rep["f3"] == "1") != f3:
                    ctx.inconsistent(case, "lean f3Class=" + rep["f3"], "python is_f3=%s" % f3)
                if case["via"] == "mem":
                    # runtime re-check of C06_unstructured_hyp_partial (= C06_unstructured_partial + C06_hyp_sound):
                    # hyp + partition + conforming + not F3 => reads as whole
                    if rep["part"] != "1":
                        ctx.inconsistent(case, "Spec.isPartition=0 on a generated partition", "1")
                    if rep["conf"] == "1" and rep["f3"] == "0" and rep["ok"] != "1":
                        ctx.inconsistent(case, "model: merged pieces do not read as the whole", "theorem C06_unstructured_hyp_partial")
                    if whole_has_no_orphans(case["whole"]) and rep.get("okby") != rep["ok"]:
                        ctx.inconsistent(case, "Spec.readsAsWholeBy=" + str(rep.get("okby")), "Spec.readsAsWhole=" + rep["ok"])
                    if (rep["ok"] == "1") != (model_c == ref_c):
                        ctx.inconsistent(case, "lean readsAsWhole=" + rep["ok"], "python content equality=%s" % (model_c == ref_c))
        # --- search: impl vs the property
        if impl_c != ref_c:
            ctx.violation(case, diff_summary(impl_c, ref_c), "content and dtypes of the whole data set",
                          cls=("F3" if f3 else None),
                          what="merged pieces differ from the whole data set (%s)" % case["via"])
        elif verdict not in ("pass", "n/a"):
            ctx.violation(case, "MeshFieldsComparator verdict: " + str(verdict), "pass", cls=None,
                          what="merged pieces have the content of the whole data set but the comparator does not pass")
        if impl_c != ref_c and verdict == "pass":
            ctx.violation(case, "MeshFieldsComparator passes", "fail (content differs)", cls=("F3" if f3 else None),
                          what="merged pieces differ from the whole data set but the comparator passes")


def oracle_merge(pieces):
    """what merging MEANS, written directly: points identified by their coordinates, every cell of every piece once"""
    out = {"dim": pieces[0]["dim"], "points": [], "cells": [], "pf": [copy.deepcopy(dict(f, v=[])) for f in pieces[0]["pf"]],
           "cf": []}
    index = {}
    for p in pieces:
        loc = []
        for i, x in enumerate(p["points"]):
            k = point_key(x)
            if k not in index:
                index[k] = len(out["points"])
                out["points"].append(list(x))
                for f, g in zip(out["pf"], p["pf"]):
                    rs = meshgen._rowsize(g["tail"])
                    f["v"] = f["v"] + g["v"][i * rs:(i + 1) * rs]
            loc.append(index[k])
        for t, rows in p["cells"]:
            blk = [b for b in out["cells"] if b[0] == t]
            if not blk:
                out["cells"].append([t, []])
                blk = [out["cells"][-1]]
            blk[0][1].extend([[loc[q] for q in r] for r in rows])
            for g in p["cf"]:
                if g["ctype"] != t:
                    continue
                tgt = [f for f in out["cf"] if f["name"] == g["name"] and f["ctype"] == t]
                if tgt:
                    tgt[0]["v"] = tgt[0]["v"] + g["v"]
                else:
                    out["cf"].append(copy.deepcopy(g))
    return out


def shrink_unstructured(ctx, v):
    """strip the fields, then drop pieces one at a time (the whole data set is rebuilt from the remaining pieces by
    `oracle_merge`) as long as the in-memory merge still differs from the whole"""
    case = v["case"]
    if case.get("kind") != "merge" or case.get("via") != "mem":
        return v
    whole, pieces = case["whole"], case["pieces"]

    def fails(w, ps):
        try:
            return canon(meshgen.from_fc(impl_merge_mem(ps))) != canon(w)
        except Exception:  # noqa: BLE001
            return True
    best = (whole, pieces)
    for strip in (("pf", "cf"), ("pf",), ("cf",)):
        w2 = copy.deepcopy(best[0])
        p2 = copy.deepcopy(best[1])
        for key in strip:
            w2[key] = []
            for p in p2:
                p[key] = []
        if fails(w2, p2):
            best = (w2, p2)
            break
    changed = True
    while changed and len(best[1]) > 2:
        changed = False
        for i in range(len(best[1]) - 1, -1, -1):
            ps = best[1][:i] + best[1][i + 1:]
            try:
                w2 = oracle_merge(ps)
            except Exception:  # noqa: BLE001
                continue
            if fails(w2, ps):
                best = (w2, ps)
                changed = True
                break
    if best[0] is not whole:
        try:
            impl = diff_summary(canon(meshgen.from_fc(impl_merge_mem(best[1]))), canon(best[0]))
        except Exception as e:  # noqa: BLE001
            impl = f"exception {type(e).__name__}: {e}"
        return dict(v, case=dict(case, whole=best[0], pieces=best[1]), impl=impl,
                    **({"class": "F3"} if v.get("class") == "F3" and is_f3(best[1]) else
                       ({"class": None} if v.get("class") == "F3" else {})))
    return v


# =================================================================== structured: the merger itself

def compositions(n):
    """all ordered ways of writing n as a sum of positive integers"""
    if n == 0:
        return [[]]
    out = []
    for first in range(1, n + 1):
        for rest in compositions(n - first):
            out.append([first] + rest)
    return out


def locations_in(shape):
    """index tuples below `shape`, first index fastest (written independently of the implementation)"""
    res, idx = [], [0] * len(shape)

    def loop(axis):
        if axis < 0:
            res.append(tuple(idx))
            return
        for i in range(shape[axis]):
            idx[axis] = i
            loop(axis - 1)
    loop(len(shape) - 1)     # the LAST axis is the outermost loop
    return res


def oracle_indices(decomp, is_point):
    """global flat indices of every piece (pieces in location order, first direction fastest), computed from
    the geometry: piece b along direction d covers global coordinates off_d(b) .. off_d(b)+n (+1 for points)"""
    add = 1 if is_point else 0
    gshape = [sum(ns) + add for ns in decomp]
    out = []
    for loc in locations_in([len(ns) for ns in decomp]):
        off = [sum(decomp[d][:loc[d]]) for d in range(len(decomp))]
        pshape = [decomp[d][loc[d]] + add for d in range(len(decomp))]
        ids = []
        for it in locations_in(pshape):
            g, mult = 0, 1
            for d in range(len(decomp)):
                g += (it[d] + off[d]) * mult
                mult *= gshape[d]
            ids.append(g)
        out.append(ids)
    n = 1
    for s in gshape:
        n *= s
    return out, n


def enc_decomp(decomp):
    return " ".join([str(len(decomp))] + [" ".join([str(len(ns))] + [str(n) for n in ns]) for ns in decomp])


def run_merger(decomp, is_point, piece_arrays):
    from fieldcompare.mesh import StructuredFieldMerger
    locs = locations_in([len(ns) for ns in decomp])
    table = {loc: a for loc, a in zip(locs, piece_arrays)}
    m = StructuredFieldMerger(tuple(tuple(ns) for ns in decomp))
    cb = lambda loc: table[tuple(int(i) for i in loc)]  # noqa: E731
    return m.merge_point_fields(cb) if is_point else m.merge_cell_fields(cb)


def eval_structured_merger(ctx, decomps, dts=("i32", "i64", "f64", "f32", "i32"), extra_tags=()):
    rng = ctx.rng
    lines, meta = [], []
    for decomp in decomps:
        for is_point in (False, True):
            lines.append(f"c06s {int(is_point)} {enc_decomp(decomp)}")
            meta.append(("idx", decomp, is_point, None))
            if is_point:
                # multi-valued point data: every piece writes its own ids -> writer order is observable
                ids, n = oracle_indices(decomp, True)
                vals = [[1000 * (pi + 1) + k for k in range(len(p))] for pi, p in enumerate(ids)]
                lines.append(f"c06sm 1 {enc_decomp(decomp)} {len(vals)} " +
                             " ".join(" ".join([str(len(v))] + [str(x) for x in v]) for v in vals))
                meta.append(("multi", decomp, True, vals))
    replies = ctx.lean(lines) if ctx.driver_ok else [None] * len(lines)
    for (kind, decomp, is_point, vals), rep in zip(meta, replies):
        ids, n = oracle_indices(decomp, is_point)
        case = {"kind": "smerge", "sub": kind, "decomp": decomp, "is_point": is_point}
        tags = ["smerge-" + kind, "sdim%d" % len(decomp), "point" if is_point else "cell",
                "npieces=%d" % len(ids)] + list(extra_tags)
        ctx.case(("s", kind, repr(decomp), is_point) + tuple(extra_tags), nontrivial=len(ids) > 1, tags=tags,
                 sample={"decomp": decomp, "is_point": is_point, "kind": kind})
        if kind == "idx":
            dt = case.get("dt") or rng.choice(list(dts))
            tail = case["tail"] if "tail" in case else rng.choice([[], [], [2], [3, 3]])
            rs = meshgen._rowsize(tail)
            base = case.get("base") or rng.randint(1, 50)
            wrap = {"u8": 251, "i8": 127}.get(dt, 1 << 15)
            whole = np.array([(base + 3 * g * rs + c) % wrap for g in range(n) for c in range(rs)],
                             dtype=NP_DT[dt]).reshape([n] + tail)
            if extra_tags:
                ctx.dist["p6-smerge-dt-" + dt] += 1
            case.update(dt=dt, tail=tail, base=base)
            try:
                out = run_merger(decomp, is_point, [whole[np.array(p, dtype=int)] for p in ids])
                impl = {"dtype": str(out.dtype), "shape": list(out.shape), "equal": bool(np.array_equal(out, whole))}
            except Exception as e:  # noqa: BLE001
                impl = {"error": f"{type(e).__name__}: {e}"}
            want = {"dtype": str(whole.dtype), "shape": list(whole.shape), "equal": True}
            if impl != want:
                ctx.violation(case, impl, want, cls=None,
                              what="StructuredFieldMerger: merged single-valued field differs from the whole field")
            if rep is not None:
                if rep.get("hyp") != "1":
                    ctx.inconsistent(case, str(rep), "hyp=1")
                    continue
                midx = [[int(x) for x in part.split(",")] if part else [] for part in rep["idx"].split(";")]
                if midx != ids:
                    ctx.inconsistent(case, {"model_idx": midx}, {"oracle_idx": ids})
                if rep["cover"] != "1" or (not is_point and rep["once"] != "1") or int(rep["n"]) != n:
                    ctx.inconsistent(case, {k: rep[k] for k in ("cover", "once", "n")}, "theorem C06_structured_index")
        else:
            # which piece's value survives at a shared point is unspecified ("uses the data from only one of the
            # pieces"): the merged value must be the value of SOME piece covering that point
            cand = [set() for _ in range(n)]
            for p_ids, p_vals in zip(ids, vals):
                for g, x in zip(p_ids, p_vals):
                    cand[g].add(x)
            arrs = [np.array(v, dtype=np.int64) for v in vals]
            try:
                out = [int(x) for x in run_merger(decomp, True, arrs)]
                bad = [g for g in range(n) if g >= len(out) or out[g] not in cand[g]] or (len(out) != n)
            except Exception as e:  # noqa: BLE001
                out, bad = f"{type(e).__name__}: {e}", True
            if bad:
                ctx.violation(case, {"merged": out, "bad_positions": bad}, "every merged point value comes from a piece "
                              "covering that point", cls=None,
                              what="StructuredFieldMerger: multi-valued point data merged to a value of no covering piece")
            if rep is not None and rep.get("hyp") == "1":
                model = [int(x) for x in rep["model"].split(",")]
                if len(model) != n or any(model[g] not in cand[g] for g in range(n)):
                    ctx.inconsistent(case, {"model_merged": model}, "values of covering pieces")
            elif rep is not None:
                ctx.inconsistent(case, str(rep), "hyp=1")


# =================================================================== structured: files

def _fmt_vals(dt, vals):
    if dt in ("f64", "f32"):
        return " ".join(repr(float(x)) for x in vals)
    return " ".join(str(int(x)) for x in vals)


def _data_arrays(fields, sel):
    """fields: list of (name, dt, ncomp, whole ndarray[n, ncomp]); sel = row indices"""
    out = []
    for name, dt, nc, arr in fields:
        vals = arr[np.array(sel, dtype=int)].reshape(-1) if len(sel) else []
        out.append(f'<DataArray type="{VTK_TYPE[dt]}" Name="{name}" NumberOfComponents="{nc}" format="ascii">'
                   f'{_fmt_vals(dt, vals)}</DataArray>')
    return "".join(out)


def _grid_ids(n3, b, e, is_point):
    """global flat ids (within the whole grid of n3 cells per direction) of the entities of the sub-block [b, e],
    VTK order (x fastest).  A flat direction contributes one layer."""
    add = 1 if is_point else 0
    gshape = [(n + add) if (is_point or n > 0) else 1 for n in n3]
    rng_ = []
    for d in range(3):
        if is_point:
            rng_.append(range(b[d], e[d] + 1))
        else:
            rng_.append(range(b[d], e[d]) if n3[d] > 0 else range(0, 1))
    return [i + gshape[0] * (j + gshape[1] * k) for k in rng_[2] for j in rng_[1] for i in rng_[0]]


def write_structured_case(d, case):
    """write whole + pieces + parallel file; returns (parallel path, whole path)"""
    fmt, n3, d3, shift, order = case["fmt"], case["n3"], case["d3"], case["shift"], case["order"]
    npnt = (n3[0] + 1) * (n3[1] + 1) * (n3[2] + 1)
    ncell = max(n3[0], 1) * max(n3[1], 1) * max(n3[2], 1)
    pfields = [(f["name"], f["dt"], f["nc"], np.array(f["v"], dtype=NP_DT[f["dt"]]).reshape(npnt, f["nc"]))
               for f in case["pf"]]
    cfields = [(f["name"], f["dt"], f["nc"], np.array(f["v"], dtype=NP_DT[f["dt"]]).reshape(ncell, f["nc"]))
               for f in case["cf"]]
    coords = np.array(case["coords"], dtype=np.float64).reshape(npnt, 3)     # for vts
    ords = case["ordinates"]                                                # for vtr
    grid = {"vti": "ImageData", "vtr": "RectilinearGrid", "vts": "StructuredGrid"}[fmt]

    def ext_str(b, e):
        return " ".join(f"{b[k] + shift[k]} {e[k] + shift[k]}" for k in range(3))
    whole_b, whole_e = [0, 0, 0], list(n3)
    gattr = f'WholeExtent="{ext_str(whole_b, whole_e)}"'
    if fmt == "vti":
        gattr += (f' Origin="{" ".join(repr(x) for x in case["origin"])}"'
                  f' Spacing="{" ".join(repr(x) for x in case["spacing"])}"')
        if case.get("direction"):
            gattr += f' Direction="{" ".join(repr(float(x)) for row in case["direction"] for x in row)}"'

    def piece_xml(b, e):
        pid = _grid_ids(n3, b, e, True)
        cid = _grid_ids(n3, b, e, False)
        geo = ""
        if fmt == "vts":
            geo = ('<Points><DataArray type="Float64" NumberOfComponents="3" format="ascii">'
                   f'{_fmt_vals("f64", coords[np.array(pid, dtype=int)].reshape(-1))}</DataArray></Points>')
        elif fmt == "vtr":
            geo = "<Coordinates>" + "".join(
                f'<DataArray type="Float64" Name="X_{k}" NumberOfComponents="1" format="ascii">'
                f'{_fmt_vals("f64", ords[k][b[k]:e[k] + 1])}</DataArray>' for k in range(3)) + "</Coordinates>"
        return (f'<Piece Extent="{ext_str(b, e)}"><PointData>{_data_arrays(pfields, pid)}</PointData>'
                f'<CellData>{_data_arrays(cfields, cid)}</CellData>{geo}</Piece>')

    def file_xml(b, e):
        return (f'<?xml version="1.0"?>\n<VTKFile type="{grid}" version="1.0" byte_order="LittleEndian" '
                f'header_type="UInt64">\n<{grid} {gattr}>{piece_xml(b, e)}</{grid}>\n</VTKFile>\n')
    wpath = os.path.join(d, f"s-whole.{fmt}")
    with open(wpath, "w") as fh:
        fh.write(file_xml(whole_b, whole_e))
    # pieces
    locs = list(itertools.product(*[range(len(d3[k])) for k in (2, 1, 0)]))
    locs = [tuple(reversed(t)) for t in locs]
    plist = []
    for loc in locs:
        b = [sum(d3[k][:loc[k]]) for k in range(3)]
        e = [b[k] + d3[k][loc[k]] for k in range(3)]
        plist.append((b, e))
    plist = [plist[i] for i in order]
    piece_lines = []
    paths = [wpath]
    for i, (b, e) in enumerate(plist):
        pp = os.path.join(d, f"s-{i}.{fmt}")
        with open(pp, "w") as fh:
            fh.write(file_xml(b, e))
        paths.append(pp)
        piece_lines.append(f'<Piece Extent="{ext_str(b, e)}" Source="s-{i}.{fmt}"/>')
    ppath = os.path.join(d, f"s.p{fmt}")
    with open(ppath, "w") as fh:
        fh.write(f'<?xml version="1.0"?>\n<VTKFile type="P{grid}">\n<P{grid} {gattr}>'
                 f'{"".join(piece_lines)}</P{grid}>\n</VTKFile>\n')
    paths.append(ppath)
    ext = [[v for k in range(3) for v in (b[k] + shift[k], e[k] + shift[k])] for b, e in plist]
    ids = {"point": [_grid_ids(n3, b, e, True) for b, e in plist], "cell": [_grid_ids(n3, b, e, False) for b, e in plist],
           "blocks": plist, "pfields": pfields, "cfields": cfields, "coords": coords}
    return ppath, wpath, paths, ext, ids


def gen_structured_file_case(rng, fmt, n3, d3, dts=("f64", "f32", "i32", "i64", "f64"), ncs=(1, 1, 3)):
    npnt = (n3[0] + 1) * (n3[1] + 1) * (n3[2] + 1)
    ncell = max(n3[0], 1) * max(n3[1], 1) * max(n3[2], 1)
    npieces = len(d3[0]) * len(d3[1]) * len(d3[2])
    order = list(range(npieces))
    rng.shuffle(order)
    shift = [rng.choice([0, 0, 3, -2]) for _ in range(3)] if rng.random() < 0.5 else [0, 0, 0]
    origin = [rng.choice([0.0, 1.0, -2.5]) for _ in range(3)]
    if rng.random() < 0.5:
        origin = [origin[k] if n3[k] > 0 else 0.0 for k in range(3)]
    spacing = [rng.choice([1.0, 0.5, 2.0]) for _ in range(3)]
    ords = []
    for k in range(3):
        x, o = origin[k], []
        for _ in range(n3[k] + 1):
            o.append(x)
            x += rng.choice([0.5, 1.0, 1.25])
        ords.append(o)
    coords = []
    for kk in range(n3[2] + 1):
        for jj in range(n3[1] + 1):
            for ii in range(n3[0] + 1):
                coords += [ords[0][ii] + 0.1 * jj, ords[1][jj] + 0.05 * ii, ords[2][kk]]

    def field(name, n):
        dt = rng.choice(list(dts))
        nc = rng.choice(list(ncs))
        base = rng.randint(1, 90)
        wrap = {"u8": 251, "i8": 127}.get(dt, 1 << 15)
        return {"name": name, "dt": dt, "nc": nc, "v": [(base + 2 * i) % wrap for i in range(n * nc)]}
    pf = [field(f"p{k}", npnt) for k in range(rng.randint(1, 2))]
    cf = [field(f"c{k}", ncell) for k in range(rng.randint(1, 2))]
    case = {"kind": "sfile", "fmt": fmt, "n3": list(n3), "d3": [list(x) for x in d3], "order": order, "shift": shift,
            "origin": origin, "spacing": spacing, "ordinates": ords, "coords": coords, "pf": pf, "cf": cf}
    if fmt == "vti" and rng.random() < 0.4:
        # a Direction attribute with small dyadic entries (rotation about z / shear + scaling): the origin shift of
        # (P)VTIReader goes through the basis
        case["direction"] = rng.choice([[[0.0, -1.0, 0.0], [1.0, 0.0, 0.0], [0.0, 0.0, 1.0]],
                                        [[1.0, 0.5, 0.0], [0.0, 1.0, 0.0], [0.25, 0.0, 2.0]]])
    return case


def _np_code(dtype):
    for k, v in NP_DT.items():
        if np.dtype(v) == dtype:
            return k
    return str(dtype)


def _enc_np(a, table, grow):
    """numpy array -> protocol array tokens.  The merger only MOVES data values, so they are transported as ids into a
    per-case table of the distinct values (like strings; a float64 as a unit count has ~320 digits); `grow=False` (impl
    output): a value that is not in the table gets a negative id and can never compare equal"""
    a = np.asarray(a)
    dt = _np_code(a.dtype)
    flat = a.reshape(-1)
    keys = [meshgen.f2u(float(x)) for x in flat] if dt in ("f64", "f32", "f16") else [int(x) for x in flat]
    if grow:
        vals = [str(table.setdefault(k, len(table))) for k in keys]
    else:
        vals = [str(table.get(k, -1 - i)) for i, k in enumerate(keys)]
    shape = [str(x) for x in a.shape]
    return " ".join([dt, str(len(shape))] + shape + [str(len(vals))] + vals)


def _units(xs):
    return [meshgen.f2u(float(x)) for x in xs]


def enc_c06rd(case, ext, ids):
    """the listed piece files as the model sees them: extent, geometry, data arrays as the piece reader returns them"""
    toks = ["c06rd", str(len(ext))]
    table = {}
    basis = case.get("direction") or [[1.0, 0.0, 0.0], [0.0, 1.0, 0.0], [0.0, 0.0, 1.0]]
    for i, (b, e) in enumerate(ids["blocks"]):
        toks += [str(x) for x in ext[i]]
        if case["fmt"] == "vti":
            toks += ["I"] + [str(u) for u in _units(case["origin"]) + _units(case["spacing"]) +
                             _units([x for row in basis for x in row])]
        elif case["fmt"] == "vtr":
            toks.append("R")
            for k in range(3):
                po = case["ordinates"][k][b[k]:e[k] + 1]
                toks += [str(len(po))] + [str(u) for u in _units(po)]
        else:
            pts = ids["coords"][np.array(ids["point"][i], dtype=int)]
            toks += ["S", str(len(pts))] + [str(u) for u in _units(pts.reshape(-1))]
        for fields, sel in ((ids["pfields"], ids["point"][i]), (ids["cfields"], ids["cell"][i])):
            toks.append(str(len(fields)))
            for name, dt, nc, arr in fields:
                a = arr[np.array(sel, dtype=int)]
                toks += [name, _enc_np(a.reshape(-1) if nc == 1 else a, table, True)]
    return " ".join(toks), table


def impl_read_observable(par, table):
    """(mesh, point fields, cell fields) of a structured MeshFields in the encoding of the driver's c06rd reply"""
    from fieldcompare.mesh import ImageMesh, RectilinearMesh
    from fieldcompare.mesh._mesh_fields import remove_cell_type_suffix
    m = par.domain
    ext = [str(int(x)) for x in m.extents]
    if isinstance(m, ImageMesh):
        mesh = ["I"] + ext + [str(u) for u in _units(m._origin) + _units(m._spacing) +
                              _units(np.asarray(m._basis).reshape(-1))]
    elif isinstance(m, RectilinearMesh):
        mesh = ["R"] + ext
        for o in m._ordinates:
            mesh += [str(len(o))] + [str(u) for u in _units(o)]
    else:
        pts = np.asarray(m.points)
        mesh = ["S"] + ext + [str(len(pts))] + [str(u) for u in _units(pts.reshape(-1))]

    def arr(a):
        return ",".join(_enc_np(a, table, False).split(" "))
    pf = {f.name: arr(f.values) for f in par.point_fields}
    cf = {remove_cell_type_suffix(ct, f.name): arr(f.values) for f, ct in par.cell_fields_types}
    return ",".join(mesh), pf, cf


def dec_named(s):
    out = {}
    for part in (s.split(";") if s else []):
        name, _, rest = part.partition(",")
        out[name] = rest
    return out


def eval_structured_file(ctx, cases, tmpdir):
    from fieldcompare.io import read_field_data
    lines, meta = [], []
    for case in cases:
        ppath, wpath, paths, ext, ids = write_structured_case(tmpdir, case)
        try:
            with warnings.catch_warnings():
                warnings.simplefilter("ignore")
                par = read_field_data(ppath)
                seq = read_field_data(wpath)
                pc = canon(meshgen.from_fc(par))
                sc = canon(meshgen.from_fc(seq))
                verdict = comparator_verdict(par, seq)
                par_points = [[meshgen.f2u(float(c)) for c in p] for p in np.asarray(par.domain.points)]
                fa = {f.name: np.asarray(f.values) for f in par}
                fb = {f.name: np.asarray(f.values) for f in seq}
                fields_equal = (sorted(fa) == sorted(fb) and
                                all(fa[n].dtype == fb[n].dtype and np.array_equal(fa[n], fb[n]) for n in fa))
            err = None
        except Exception as e:  # noqa: BLE001
            pc = sc = verdict = par_points = par = None
            fields_equal = False
            err = f"{type(e).__name__}: {e}"
        for p in paths:
            os.remove(p)
        npieces = len(ext)
        tags = ["sfile-" + case["fmt"], "npieces=%d" % npieces, "sdim%d" % sum(1 for n in case["n3"] if n > 0),
                "shifted" if any(case["shift"]) else "unshifted"]
        ctx.case(("sf", case["fmt"], repr(case["n3"]), repr(case["d3"]), repr(case["order"]), repr(case["shift"])),
                 nontrivial=npieces > 1, tags=tags,
                 sample={"fmt": case["fmt"], "n3": case["n3"], "d3": case["d3"], "order": case["order"],
                         "equal": (pc == sc) if err is None else err})
        cls = None   # the former PVTR findings F16/F17 are fixed (444374c): such cases are ordinary cases
        if err is not None:
            ctx.violation(case, "exception " + err, "content of the whole file", cls=cls,
                          what="reading the parallel structured file raised")
            continue
        if pc != sc:
            ctx.violation(case, diff_summary(pc, sc), "content and dtypes of the whole file", cls=cls,
                          what="parallel structured file differs from the whole file" +
                               ("" if fields_equal else " (field arrays differ)"))
        elif verdict != "pass":
            ctx.violation(case, "MeshFieldsComparator verdict: " + str(verdict), "pass", cls=None,
                          what="parallel structured file has the content of the whole file but the comparator does not pass")
        # model: Fc.pvtkMergeField on the global entity ids carried by every listed piece
        for kind in ("point", "cell"):
            lines.append(f"c06pv {1 if kind == 'point' else 0} {npieces} " +
                         " ".join(" ".join(str(x) for x in e) for e in ext) + " " +
                         " ".join(" ".join([str(len(v))] + [str(x) for x in v]) for v in ids[kind]))
            meta.append((case, kind))
        # model of the whole `_merge_structured`: mesh object + every data array (dtype, shape, values)
        rd_line, rd_table = enc_c06rd(case, ext, ids)
        lines.append(rd_line)
        meta.append((case, ("read", err, (par, rd_table))))
        if case["fmt"] == "vtr":
            # model of PVTRReader._make_structured_mesh: ordinates of the merged grid
            toks = []
            for b, e in ids["blocks"]:
                for k in range(3):
                    po = case["ordinates"][k][b[k]:e[k] + 1]
                    toks += [str(len(po))] + [str(meshgen.f2u(x)) for x in po]
            lines.append(f"c06pr {npieces} " + " ".join(" ".join(str(x) for x in e) for e in ext) + " " + " ".join(toks))
            meta.append((case, ("ordinates", err, par_points)))
    replies = ctx.lean(lines) if ctx.driver_ok else []
    for (case, kind), rep in zip(meta, replies):
        if isinstance(kind, tuple) and kind[0] == "read":
            _, ierr, (ipar, itable) = kind
            if ierr is None:
                try:
                    iobs = impl_read_observable(ipar, itable)
                except Exception as e:  # noqa: BLE001
                    ierr = f"{type(e).__name__}: {e}"
            if "model" not in rep or rep.get("hyp") != "1":
                ctx.inconsistent(case, str(rep)[:300], "c06rd: hyp=1 on a generated decomposition")
            elif rep["model"] == "E":
                if ierr is None:
                    ctx.mismatch(case, "impl reads the file", "model: _merge_structured raises",
                                 what="structured parallel read: impl vs model")
            elif ierr is not None:
                ctx.mismatch(case, ierr, "model reads the file", what="structured parallel read: impl vs model")
            else:
                mmesh, mpf, mcf = (rep["model"].split("|") + ["", ""])[:3]
                got = (mmesh, dec_named(mpf), dec_named(mcf))
                if hasattr(ctx, "extra"):
                    ctx.extra["structured_whole_reads_compared"] = ctx.extra.get("structured_whole_reads_compared", 0) + 1
                if got != iobs:
                    what = [w for w, a, b in zip(("mesh", "point fields", "cell fields"), got, iobs) if a != b]
                    ctx.mismatch(case, {"differs": what, "impl_mesh": iobs[0][:200]}, {"model_mesh": mmesh[:200]},
                                 what="structured parallel read: impl vs model (" + ", ".join(what) + ")")
            continue
        if isinstance(kind, tuple):
            _, ierr, ipoints = kind
            if "model" not in rep:
                ctx.inconsistent(case, str(rep), "bad-op")
            elif rep["model"] == "E":
                if ierr is None:
                    ctx.mismatch(case, "impl reads the file", "model: PVTRReader raises", what="pvtr ordinates: impl vs model")
            else:
                o = [[int(x) for x in part.split(",")] for part in rep["model"].split("|")]
                mpoints = [[x, y, z] for z in o[2] for y in o[1] for x in o[0]]
                if ierr is not None or mpoints != ipoints:
                    ctx.mismatch(case, ierr or "points differ from the model's ordinates", {"model_ordinates": rep["model"][:300]},
                                 what="pvtr ordinates: impl vs model")
            continue
        if "model" not in rep:
            ctx.inconsistent(case, str(rep), "bad-op")
            continue
        model = [int(x) for x in rep["model"].split(",")]
        if model != list(range(len(model))):
            ctx.inconsistent(case, {"kind": kind, "model_merged_ids": model}, "0..n-1 (theorem C06_structured_fields)")
        want_sizes = "|".join(",".join(str(x) for x in ns) for ns in case["d3"])
        if rep["sizes"] != want_sizes:
            ctx.inconsistent(case, {"sizes": rep["sizes"]}, want_sizes)


def all_structured_decomps(maxn, dims=(1, 2, 3)):
    out = []
    for dim in dims:
        for shape in itertools.product(range(1, maxn + 1), repeat=dim):
            for decomp in itertools.product(*[compositions(n) for n in shape]):
                out.append([list(ns) for ns in decomp])
    return out


# =================================================================== phase 6 (G1/io): directed batch
# Dimensions of the quantifier the generators above sampled at one point only:
#   * numeric types: fields were f64/f32/i32/i64 only -> every narrow / unsigned VTK type (u8 i8 i16 u16 u32 u64) and f32,
#     through merge(), .pvtu, the structured merger and .pvti/.pvtr/.pvts files (9-component rows included);
#   * where the pieces live: piece files were always next to the parallel file and the parallel file was always given by
#     its absolute path -> pieces in sub-directories, parallel file addressed relatively from another working directory;
#   * repetition: the same piece objects merged twice (operands inspected after the call), the same parallel file read twice;
#   * size: pieces had at most ~100 points -> pieces of > 1000 points (duplicate-point search over long sorted arrays).
# Search + correspondence where the existing protocol ops cover the input (c06u, c06s, c06pv, c06rd); the path /
# repetition / large cases are search only (expectation: content of the whole data set).
# FCV_P6G_OFF=1 switches the batch off (used to show that a mutant is seen by this batch only).
P6G_OFF = os.environ.get("FCV_P6G_OFF") == "1"
P6_DTS = ("u8", "i8", "i16", "u16", "u32", "u64", "f32")
# Observation C06-CWD (suspected genuine defect, NOT part of the committed run; see notes/PHASE6_G1i.md): a relative `Source` is
# looked up in the WORKING DIRECTORY first (`_make_piece_reader`: `if not exists(piece) and ... exists(join(dirname, piece))`), so a
# file of the same name in the working directory shadows the piece that lies next to the parallel file.  FCV_C06_CWD=1 adds the
# addressing mode "same-named-file-in-cwd" to `eval_paths` (flat layout), whose candidates carry the class `C06-CWD`.
CWD_OPT_IN = os.environ.get("FCV_C06_CWD", "1") == "1"


class _SearchOnly:
    """the context without the driver (for inputs too large for the model's quadratic sort)"""

    def __init__(self, ctx):
        self.__dict__["_ctx"] = ctx

    def __getattr__(self, k):
        return False if k == "driver_ok" else getattr(self._ctx, k)

    def __setattr__(self, k, v):
        setattr(self._ctx, k, v)


def lattice_lm(nx, ny, style, rng):
    """nx x ny cells in the x-y plane of 3-space as quads / triangle pairs / both, one f64 point field, one i32 cell field"""
    idx = lambda i, j: i + (nx + 1) * j  # noqa: E731
    pts = [[0.5 * i, 0.25 * j + 0.01 * i, 1.0] for j in range(ny + 1) for i in range(nx + 1)]
    blocks = {}
    for j in range(ny):
        for i in range(nx):
            q = [idx(i, j), idx(i + 1, j), idx(i + 1, j + 1), idx(i, j + 1)]
            if style == "quad" or (style == "mixed" and (i + j) % 3):
                blocks.setdefault("QUAD", []).append(q)
            else:
                blocks.setdefault("TRIANGLE", []).append([q[0], q[1], q[2]])
                blocks.setdefault("TRIANGLE", []).append([q[0], q[2], q[3]])
    lm = {"dim": 3, "points": pts, "cells": [[t, rows] for t, rows in blocks.items()],
          "pf": [{"name": "p", "dt": "f64", "tail": [], "v": [1.5 + 0.25 * k for k in range(len(pts))]}], "cf": []}
    for t, rows in lm["cells"]:
        lm["cf"].append({"name": "c", "ctype": t, "dt": "i32", "tail": [], "v": [7 + 3 * k for k in range(len(rows))]})
    return lm


def split_lm(lm, k, how, rng):
    cells = all_cells(lm)
    if how == "contiguous":
        # by position of the first corner: bands of the lattice, so that pieces share whole rows of points
        cells = sorted(cells, key=lambda bc: lm["points"][lm["cells"][bc[0]][1][bc[1]][0]][1])
        cut = [len(cells) * i // k for i in range(k + 1)]
        groups = [cells[a:b] for a, b in zip(cut, cut[1:])]
    else:
        groups = [[] for _ in range(k)]
        for n, c in enumerate(cells):
            groups[(n * 7 + n // 5) % k].append(c)
    pieces = []
    for g in groups:
        order = list(range(len(lm["points"])))
        rng.shuffle(order)
        pieces.append(restrict(lm, sel_from(lm, g), point_order=order))
    return pieces


def eval_paths(ctx, whole, pieces, tmpdir, layout, cwd_shadow=False):
    """a .pvtu whose pieces live in sub-directories, addressed in several ways (search only)"""
    from fieldcompare.io import write, read_field_data
    case = {"kind": "pvtu-paths", "layout": layout, "whole": whole, "pieces": pieces}
    root = tempfile.mkdtemp(prefix="p6_", dir=tmpdir)
    cwd = os.getcwd()
    results = {}
    try:
        with warnings.catch_warnings():
            warnings.simplefilter("ignore")
            sub = {"flat": "", "subdir": "pieces", "nested": os.path.join("out", "rank_data"), "per-piece": None}[layout]
            os.makedirs(os.path.join(root, "run"), exist_ok=True)
            files, sources = [], []
            for i, p in enumerate(pieces):
                rel = sub if sub is not None else f"proc{i}"
                os.makedirs(os.path.join(root, "run", rel), exist_ok=True)
                f = write(meshgen.to_fc(p), os.path.join(root, "run", rel, f"u-{i}"))
                files.append(f)
                sources.append((rel + "/" if rel else "") + os.path.basename(f))
            wfile = write(meshgen.to_fc(whole), os.path.join(root, "run", "u-whole"))
            pfile = write_pvtu(os.path.join(root, "run"), "u", files, whole)
            txt = open(pfile).read()
            for f, src in zip(files, sources):
                txt = txt.replace(f'Source="{os.path.basename(f)}"', f'Source="{src}"')
            with open(pfile, "w") as fh:
                fh.write(txt)
            ref = canon(meshgen.from_fc(read_field_data(wfile)))
            for how, wd, arg in (("absolute", cwd, pfile), ("relative-from-parent", root, os.path.join("run", "u.pvtu")),
                                 ("bare-name-in-cwd", os.path.join(root, "run"), "u.pvtu"),
                                 ("dotted", root, os.path.join(".", "run", "..", "run", "u.pvtu")),
                                 ("absolute-again", cwd, pfile)) + \
                    ((("same-named-file-in-cwd", os.path.join(root, "elsewhere"), pfile),)
                     if (CWD_OPT_IN or cwd_shadow) and layout == "flat" else ()):
                if how == "same-named-file-in-cwd":
                    # another data set's piece (here: the LAST piece) under the name of the first piece
                    os.makedirs(wd, exist_ok=True)
                    shutil.copy(write(meshgen.to_fc(pieces[-1]), os.path.join(wd, "tmp-shadow")), os.path.join(wd, os.path.basename(files[0])))
                    case["cwd_shadow"] = True
                os.chdir(wd)
                try:
                    got = canon(meshgen.from_fc(read_field_data(arg)))
                    results[how] = None if got == ref else diff_summary(got, ref)
                except Exception as e:  # noqa: BLE001
                    results[how] = f"{type(e).__name__}: {e}"
                finally:
                    os.chdir(cwd)
    finally:
        os.chdir(cwd)
        shutil.rmtree(root, ignore_errors=True)
    f3 = is_f3(pieces)
    ctx.case(("p6paths", layout, repr(whole["points"]), repr([p["cells"] for p in pieces])), nontrivial=len(pieces) > 1,
             tags=["p6g1i", "p6-pvtu-pieces-" + layout, "f3" if f3 else "no-f3"])
    bad = {k: v for k, v in results.items() if v is not None}
    if bad:
        ctx.violation(case, bad, "content of the whole data set for every way of addressing the .pvtu",
                      cls=("F3" if f3 else "C06-CWD" if sorted(bad) == ["same-named-file-in-cwd"] else None),
                      what=f".pvtu with pieces in layout '{layout}' differs from the whole data set when addressed as {sorted(bad)}")


def eval_repeat(ctx, whole, pieces, tmpdir):
    """the same piece objects merged twice, operands inspected after the calls; the same .pvtu read twice"""
    from fieldcompare.io import write, read_field_data
    from fieldcompare.mesh import merge
    case = {"kind": "merge-repeat", "whole": whole, "pieces": pieces}
    f3 = is_f3(pieces)
    out = {}
    try:
        with warnings.catch_warnings():
            warnings.simplefilter("ignore")
            objs = [meshgen.to_fc(p) for p in pieces]
            before = [canon(meshgen.from_fc(o)) for o in objs]
            ref = canon(whole)
            r1 = canon(meshgen.from_fc(merge(*objs)))
            mid = [canon(meshgen.from_fc(o)) for o in objs]
            r2 = canon(meshgen.from_fc(merge(*objs)))
            r3 = canon(meshgen.from_fc(merge(*[meshgen.to_fc(p) for p in pieces])))
            if mid != before:
                out["operands-changed-by-merge"] = [i for i, (a, b) in enumerate(zip(before, mid)) if a != b]
            if r2 != r1 or r3 != r1:
                out["second-merge-differs"] = diff_summary(r2 if r2 != r1 else r3, r1)
            if r1 != ref and not f3:
                out["first-merge"] = diff_summary(r1, ref)
            files = [write(meshgen.to_fc(p), os.path.join(tmpdir, f"r-{i}")) for i, p in enumerate(pieces)]
            pfile = write_pvtu(tmpdir, "r", files, whole)
            a = canon(meshgen.from_fc(read_field_data(pfile)))
            b = canon(meshgen.from_fc(read_field_data(pfile)))
            for f in files + [pfile]:
                os.remove(f)
            if a != b:
                out["second-read-differs"] = diff_summary(b, a)
    except Exception as e:  # noqa: BLE001
        out["exception"] = f"{type(e).__name__}: {e}"
    ctx.case(("p6repeat", repr(whole["points"]), repr([p["cells"] for p in pieces])), nontrivial=len(pieces) > 1,
             tags=["p6g1i", "p6-repeat", "f3" if f3 else "no-f3"])
    if out:
        ctx.violation(case, out, "merging / reading twice gives the same data set and leaves the pieces unchanged", cls=None,
                      what=f"repetition: {sorted(out)}")


# ------------------------------------------------------------------- shared points that are EQUAL but not bit-identical
# The pieces of a parallel data set are written by different processes: a coordinate on the interface can be +0.0 in one piece
# and -0.0 in the other, and one piece can store its points as Float32 where another uses Float64 (exactly representable
# coordinates).  Numerically equal points are the same point ("points shared between pieces are present once"); the
# generators above only ever produced bit-identical float64 copies.  Content vs the whole data set (search) and vs the Lean
# model on the same numbers (the protocol transports coordinates as unit counts: +0 = -0, no float width), both piece orders,
# merge() on MeshFields objects and .pvtu files whose pieces carry the different zeros / point types.

def _to_fc_pts(lm, pdt):
    """meshgen.to_fc with the points stored as `pdt` ("f64" | "f32"); signed zeros of the logical mesh are kept"""
    from fieldcompare.mesh import Mesh, MeshFields
    pts = np.array(lm["points"], dtype=NP_DT[pdt]).reshape(len(lm["points"]), lm["dim"])
    conn = [(meshgen.celltype(t), np.array(rows, dtype=np.int64).reshape(len(rows), -1)) for t, rows in lm["cells"]]
    pd = {f["name"]: meshgen._values_array(f, len(lm["points"])) for f in lm["pf"]}
    names = []
    for f in lm["cf"]:
        if f["name"] not in names:
            names.append(f["name"])
    cd = {n: [meshgen._values_array([f for f in lm["cf"] if f["name"] == n and f["ctype"] == t][0], len(rows))
              for t, rows in lm["cells"]] for n in names}
    return MeshFields(Mesh(pts, conn), pd, cd)


def eqpts_variant(rng, whole, pieces, variant):
    """-> (whole', pieces', point dtypes per piece) or None if the partition has no point shared between two pieces"""
    whole, pieces = copy.deepcopy(whole), copy.deepcopy(pieces)
    count = {}
    for p in pieces:
        for k in {point_key(x) for x in p["points"]}:
            count[k] = count.get(k, 0) + 1
    shared = [x for p in pieces for x in p["points"] if count[point_key(x)] > 1]
    if not shared:
        return None
    if variant == "signed-zero":
        s = list(rng.choice(shared))
        for lm in [whole] + pieces:
            lm["points"] = [[c - sc for c, sc in zip(x, s)] for x in lm["points"]]      # the chosen shared point becomes the origin
        flip = rng.randrange(2)
        for i, p in enumerate(pieces):
            if i % 2 == flip:
                p["points"] = [[-0.0 if c == 0.0 else c for c in x] for x in p["points"]]
            else:
                p["points"] = [[0.0 if c == 0.0 else c for c in x] for x in p["points"]]
        whole["points"] = [[0.0 if c == 0.0 else c for c in x] for x in whole["points"]]
        pdts = ["f64"] * len(pieces)
    else:
        n_before = len({point_key(x) for x in whole["points"]})
        for lm in [whole] + pieces:
            lm["points"] = [[float(np.float32(c)) for c in x] for x in lm["points"]]
        if len({point_key(x) for x in whole["points"]}) != n_before:
            return None                                    # rounding to float32 made two points coincide
        flip = rng.randrange(2)
        pdts = ["f32" if i % 2 == flip else "f64" for i in range(len(pieces))]
    return whole, pieces, pdts


def eval_eqpts(ctx, items, tmpdir):
    """items: (whole, pieces, point dtypes, tags, via)"""
    from fieldcompare.io import write, read_field_data
    from fieldcompare.mesh import merge
    prepared = []
    for whole, pieces, pdts, tags, via in items:
        case = {"kind": "merge-eqpts", "via": via, "whole": whole, "pieces": pieces, "pdts": pdts}
        try:
            with warnings.catch_warnings():
                warnings.simplefilter("ignore")
                objs = [_to_fc_pts(p, d) for p, d in zip(pieces, pdts)]
                if via == "mem":
                    res = merge(*objs)
                    ref_c = canon(whole)
                else:
                    files = [write(o, os.path.join(tmpdir, f"e-{i}")) for i, o in enumerate(objs)]
                    wfile = write(meshgen.to_fc(whole), os.path.join(tmpdir, "e-whole"))
                    pfile = write_pvtu(tmpdir, "e", files, whole)
                    res = read_field_data(pfile)
                    ref_c = canon(meshgen.from_fc(read_field_data(wfile)))
                    for f in files + [wfile, pfile]:
                        os.remove(f)
                impl_c = canon(meshgen.from_fc(res))
                npts = len(np.asarray(res.domain.points))
            err = None
        except Exception as e:  # noqa: BLE001
            impl_c = ref_c = npts = None
            err = f"{type(e).__name__}: {e}"
        prepared.append((case, tags, impl_c, ref_c, npts, err))
    replies = ctx.lean([enc_c06u(c["whole"], c["pieces"]) for c, *_ in prepared]) if ctx.driver_ok else [None] * len(prepared)
    for (case, tags, impl_c, ref_c, npts, err), rep in zip(prepared, replies):
        f3 = is_f3(case["pieces"])
        ctx.case(("eqpts", case["via"], repr(case["pdts"]), repr(case["whole"]["points"]), repr([p["points"] for p in case["pieces"]]),
                  repr([p["cells"] for p in case["pieces"]])), nontrivial=len(case["pieces"]) > 1,
                 tags=list(tags) + ["p6g1i", "p6-equal-not-identical-points", "via-" + case["via"], "f3" if f3 else "no-f3"])
        cls = "F3" if f3 else None
        if err is not None:
            ctx.violation(case, "exception " + err, "content of the whole data set", cls=cls,
                          what="merging pieces whose shared points are equal but not bit-identical raised")
            continue
        if impl_c != ref_c:
            d = diff_summary(impl_c, ref_c)
            d["merged_point_count"], d["whole_point_count"] = npts, len(case["whole"]["points"])
            ctx.violation(case, d, "content of the whole data set (shared points present once)", cls=cls,
                          what=f"pieces whose shared points are equal but not bit-identical ({'/'.join(tags[-2:])}, {case['via']}) "
                               "do not merge to the whole data set")
        elif not f3 and npts != len(case["whole"]["points"]):
            ctx.violation(case, {"merged_point_count": npts}, {"whole_point_count": len(case["whole"]["points"])}, cls=None,
                          what="merged data set has the content of the whole but a different number of points")
        if rep is not None and case["via"] == "mem" and rep.get("hyp") == "1":
            model_c = canon_units(dec_fields(rep["model"]))
            if model_c != impl_c:
                ctx.mismatch(case, diff_summary(impl_c, model_c), "Fc.mergeAll", what="merge (equal, not identical points): impl vs model content")


def check_eqpts(ctx, tmpdir):
    rng = ctx.rng
    items = []
    n = 0
    tries = 0
    while n < ctx.scale(40, 1500) and tries < 20000:
        tries += 1
        whole, pieces, tags = gen_partition(rng, max_cells=rng.choice([2, 3, 3]), scale=rng.choice([1.0, 0.5, 2.5]))
        if len(pieces) < 2:
            continue
        variant = ("signed-zero", "f32-f64")[n % 2]
        v = eqpts_variant(rng, whole, pieces, variant)
        if v is None:
            continue
        w2, p2, pdts = v
        via = "pvtu" if n % 4 >= 2 else "mem"
        items.append((w2, p2, pdts, tags + ["p6-eqpts-" + variant, "order-listed"], via))
        items.append((w2, list(reversed(p2)), list(reversed(pdts)), tags + ["p6-eqpts-" + variant, "order-reversed"], via))
        n += 1
    for i in range(0, len(items), 200):
        eval_eqpts(ctx, items[i:i + 200], tmpdir)


def check_p6g1i(ctx, tmpdir):
    rng = ctx.rng
    check_eqpts(ctx, tmpdir)
    # ---- numeric types, unstructured (model consulted: the protocol carries every dtype)
    batch = []
    for i in range(ctx.scale(70, 1500)):
        dts = [P6_DTS[i % len(P6_DTS)], P6_DTS[(i // 2 + 3) % len(P6_DTS)]]
        whole, pieces, tags = gen_partition(rng, max_cells=rng.choice([2, 3, 3]), dtypes=dts)
        used = sorted({f["dt"] for f in whole["pf"] + whole["cf"]})
        batch.append((whole, pieces, tags + ["p6g1i", "p6-dtypes"] + ["p6-dt-" + d for d in used], "mem" if i % 5 else "pvtu"))
    eval_unstructured(ctx, batch, tmpdir)
    # ---- numeric types, structured merger and structured files (incl. 9-component rows)
    small = all_structured_decomps(2)
    decomps = [small[(7 * i) % len(small)] for i in range(ctx.scale(40, len(small)))] + [[[2, 1, 2]], [[1, 2], [3]], [[1, 1], [2], [1, 1]]]
    eval_structured_merger(ctx, decomps, dts=P6_DTS, extra_tags=("p6g1i", "p6-smerge-dtypes"))
    cases = []
    shapes = [((3,), ([1, 2],)), ((2, 2), ([1, 1], [2])), ((2, 1, 2), ([2], [1], [1, 1])), ((3, 2), ([2, 1], [1, 1])), ((1, 2, 2), ([1], [1, 1], [1, 1]))]
    for i in range(ctx.scale(30, 600)):
        shape, decomp = shapes[i % len(shapes)]
        dirs = sorted(rng.sample(range(3), len(shape)))
        n3, d3 = [0, 0, 0], [[0], [0], [0]]
        for k, dd in enumerate(dirs):
            n3[dd], d3[dd] = shape[k], list(decomp[k])
        c = gen_structured_file_case(rng, ["vti", "vtr", "vts"][i % 3], n3, d3, dts=P6_DTS, ncs=(1, 3, 9))
        c["p6"] = True
        for f in c["pf"] + c["cf"]:
            ctx.dist["p6-sfile-dt-" + f["dt"]] += 1
            ctx.dist["p6-sfile-ncomp-%d" % f["nc"]] += 1
        cases.append(c)
    eval_structured_file(ctx, cases, tmpdir)
    # ---- where the pieces live / how the parallel file is addressed; repetition
    layouts = ["subdir", "nested", "per-piece", "flat"]
    n = 0
    while n < ctx.scale(8, 120):
        whole, pieces, tags = gen_partition(rng, max_cells=3)
        if len(pieces) < 2:
            continue
        eval_paths(ctx, whole, pieces, tmpdir, layouts[n % len(layouts)])
        if n % 2 == 0:
            eval_repeat(ctx, whole, pieces, tmpdir)
        n += 1
    # ---- pieces of > 1000 points (search only)
    big = []
    for j, (nx, ny, style, k, how) in enumerate([(60, 50, "quad", 3, "contiguous"), (45, 40, "mixed", 4, "scattered")] +
                                                ([(70, 60, "tri", 5, "contiguous"), (64, 64, "mixed", 2, "contiguous")] if ctx.tier == "thorough" else [])):
        whole = lattice_lm(nx, ny, style, rng)
        pieces = split_lm(whole, k, how, rng)
        if j % 2:
            pieces.reverse()
        big.append((whole, pieces, ["p6g1i", "p6-points>1000", "strategy-" + how, "k=%d" % k], "mem" if j % 2 == 0 else "pvtu"))
    eval_unstructured(_SearchOnly(ctx), big, tmpdir)


# =================================================================== entry points

def run(ctx):
    ctx.rule = ("unstructured case = (whole mesh, pieces in listing order, in-memory | .pvtu); non-trivial = more than one "
                "piece; distinct = distinct (points, cells of all pieces, route). structured case = (decomposition, "
                "point|cell, single-|multi-valued) for the merger, (format, lattice, decomposition, listing order, extent "
                "shift) for files; non-trivial = more than one piece")
    ctx.assumptions += [
        "np.lexsort returns a sorting permutation (unique for pieces without coincident points: hyp of the model)",
        "numpy fancy-index assignment writes in index order (last writer wins), concatenate keeps dtype for equal dtypes",
        "fieldcompare.io.write (.vtu) and the sequential VTK readers are faithful (properties C13/C05/C07); C06 compares "
        "read(parallel) with read(whole) written by the same writer",
        ".pvtp is not generated (no .vtp writer in fieldcompare); it shares _merge_unstructured with .pvtu",
    ]
    rng = ctx.rng
    tmpdir = tempfile.mkdtemp(prefix="fcv_c06_")
    try:
        # ---- unstructured
        n_mem = ctx.scale(260, 10000)
        n_file = ctx.scale(60, 2000)
        batch = []
        for i in range(n_mem + n_file):
            whole, pieces, tags = gen_partition(rng, max_cells=rng.choice([2, 3, 3, 4]) if i % 7 else 5)
            batch.append((whole, pieces, tags, "mem" if i < n_mem else "pvtu"))
        CH = 200
        for i in range(0, len(batch), CH):
            eval_unstructured(ctx, batch[i:i + CH], tmpdir)
        # ---- structured merger: exhaustive over small lattices
        maxn = ctx.scale(3, 4)
        decomps = all_structured_decomps(maxn)
        ctx.extra["structured_decompositions_enumerated"] = len(decomps)
        CH = 500
        for i in range(0, len(decomps), CH):
            eval_structured_merger(ctx, decomps[i:i + CH])
        # ---- structured files
        pool = []
        for dim in (1, 2, 3):
            for shape in itertools.product(range(1, maxn + 1), repeat=dim):
                for decomp in itertools.product(*[compositions(n) for n in shape]):
                    pool.append((shape, decomp))
        n_sf = ctx.scale(150, len(pool) * 2)
        chosen = [rng.choice(pool) for _ in range(n_sf)] if ctx.tier == "quick" else pool * 2
        cases = []
        for i, (shape, decomp) in enumerate(chosen):
            fmt = ["vti", "vtr", "vts"][i % 3]
            # embed the meshed directions into the three VTK directions (flat directions anywhere)
            dirs = sorted(rng.sample(range(3), len(shape))) if rng.random() < 0.5 else list(range(len(shape)))
            n3, d3 = [0, 0, 0], [[0], [0], [0]]
            for k, dd in enumerate(dirs):
                n3[dd] = shape[k]
                d3[dd] = list(decomp[k])
            cases.append(gen_structured_file_case(rng, fmt, n3, d3))
        CH = 100
        for i in range(0, len(cases), CH):
            eval_structured_file(ctx, cases[i:i + CH], tmpdir)
        # ---- phase 6 (G1/io): directed batch
        if not P6G_OFF:
            check_p6g1i(ctx, tmpdir)
    finally:
        shutil.rmtree(tmpdir, ignore_errors=True)
    ctx.exhaustive = False
    ctx.spec_viol = [shrink_unstructured(ctx, v) for v in ctx.spec_viol[:40]] + ctx.spec_viol[40:]


def _rerun_case(ctx, case):
    """-> (fails, detail) for a literal case"""
    sub = Ctx2(ctx)
    tmpdir = tempfile.mkdtemp(prefix="fcv_c06_")
    try:
        if case["kind"] == "merge":
            eval_unstructured(sub, [(case["whole"], case["pieces"], [], case["via"])], tmpdir)
        elif case["kind"] == "sfile":
            eval_structured_file(sub, [case], tmpdir)
        elif case["kind"] == "smerge":
            eval_structured_merger(sub, [case["decomp"]], dts=(case["dt"],) if case.get("dt") else ("i32", "i64", "f64", "f32", "i32"))
        elif case["kind"] == "pvtu-paths":
            eval_paths(sub, case["whole"], case["pieces"], tmpdir, case["layout"], cwd_shadow=bool(case.get("cwd_shadow")))
        elif case["kind"] == "merge-eqpts":
            eval_eqpts(sub, [(case["whole"], case["pieces"], case["pdts"], ["replay", "replay"], case["via"])], tmpdir)
        elif case["kind"] == "merge-repeat":
            eval_repeat(sub, case["whole"], case["pieces"], tmpdir)
    finally:
        shutil.rmtree(tmpdir, ignore_errors=True)
    fails = bool(sub.spec_viol or sub.corr_mismatch)
    detail = (sub.spec_viol or sub.corr_mismatch or [{"impl": "agrees with the whole data set"}])[0]
    return fails, {k: detail.get(k) for k in ("what", "impl", "spec", "model", "class") if k in detail}


class Ctx2:
    """a throw-away context that records like Ctx but does not count"""

    def __init__(self, ctx):
        self.rng, self.driver_ok, self.tier = ctx.rng, ctx.driver_ok, ctx.tier
        self.lean = ctx.lean
        self.spec_viol, self.corr_mismatch, self.internal = [], [], []
        import collections
        self.dist = collections.Counter()

    def case(self, *a, **k):
        pass

    def violation(self, case, impl, spec, cls=None, what=""):
        self.spec_viol.append({"what": what, "case": case, "impl": impl, "spec": spec, "class": cls})

    def mismatch(self, case, impl, model, what=""):
        self.corr_mismatch.append({"what": what, "case": case, "impl": impl, "model": model})

    def inconsistent(self, case, model, spec):
        self.internal.append({"case": case, "model": model, "spec": spec})


def replay_witness(ctx, entry):
    w = entry["witness"]
    if isinstance(w, dict) and "fn" in w:
        return core.run_named_witness(entry)
    return _rerun_case(ctx, w)


def replay(ctx, payload):
    case = payload["case"]
    if not isinstance(case, dict) or "kind" not in case:
        print("replay: no literal case in this file (", payload.get("kind"), ")")
        return 0
    fails, detail = _rerun_case(ctx, case)
    print(f"replay: fails={fails} detail={detail}")
    if fails:
        print(f"VIOLATION property=C06 replay={payload.get('_path', '<replay>')}")
        return 1
    return 0
