"""C12 — directory mode is the conjunction of file comparisons; every file accounted for.

Correspondence: `fieldcompare._cli.main(["dir", A, B, …, "--junit-xml", f])` on real directory trees
(created here in a `tempfile.mkdtemp` directory, removed afterwards) vs the Lean model `Fc.DirMode.run`
(driver op `c12dir`). Per-pair outcomes are obtained the way the property prescribes: by running
`fieldcompare file A/p B/p <same options>` on every common path; they are handed to the model as a table.
Ground truth of the trees is what this module wrote, never a second `os.walk`.

Observables (string-free where possible):
  * exit code,
  * multiset of (relative path, status class) of the `testsuite` elements of the report
    (suite name -> relative path by longest-suffix match against the created tree;
     class = bad | skip | ok from the test-case counts),
  * the "filtered out" count of the summary (only when verbosity >= 2, where it is logged),
  * (soft) the reason text of the dummy test case, when it is one of the four known reasons.

Search: the same runs are compared with a Python-side per-path oracle of the property (`py_spec`), which also
stands in for the Lean spec when the driver is not available; plus `find_matches` on duplicate-carrying lists
and `_find_sub_files_recursively` against the created tree.
"""
from __future__ import annotations
import contextlib
import fnmatch
import io
import itertools
import os
import re
import shutil
import tempfile
import warnings
import xml.etree.ElementTree as ET

ROOT_A = "srcroot_qz"      # never used as a generated directory / file name
ROOT_B = "refroot_qz"

# ------------------------------------------------------------------------------------------------
# file contents
# ------------------------------------------------------------------------------------------------
CSV_EQ = "x,y\n1.0,2.0\n3.0,4.0\n"
CSV_DIFF = "x,y\n1.0,2.0\n3.0,5.0\n"
CSV_TINY = "x,y\n1.0,2.0\n3.0,4.000004\n"          # passes only with -rtol 1e-3
CSV_EXTRA = "x,y,z\n1.0,2.0,7.0\n3.0,4.0,8.0\n"     # field z on one side only
CSV_ROWS = "x,y\n1.0,2.0\n3.0,4.0\n5.0,6.0\n"       # domain (row count) differs
CSV_TRUNC = "x,y\n1.0"                              # unreadable: truncated
CSV_STR = "x,name\n1.0,abc\n2.0,def\n"
CSV_STR2 = "x,name\n1.0,abc\n2.0,deg\n"


def _vtu(vals, npts=3):
    pts = "0 0 0 1 0 0 0 1 0" if npts == 3 else "0 0 0 1 0 0 0 1 0 1 1 0"
    conn, off, typ = ("0 1 2", "3", "5") if npts == 3 else ("0 1 3 2", "4", "9")
    return ('<?xml version="1.0"?>\n<VTKFile type="UnstructuredGrid" version="0.1" byte_order="LittleEndian">\n'
            f'<UnstructuredGrid><Piece NumberOfPoints="{npts}" NumberOfCells="1">\n'
            f'<Points><DataArray type="Float64" NumberOfComponents="3" format="ascii">{pts}</DataArray></Points>\n'
            f'<Cells><DataArray type="Int32" Name="connectivity" format="ascii">{conn}</DataArray>\n'
            f'<DataArray type="Int32" Name="offsets" format="ascii">{off}</DataArray>\n'
            f'<DataArray type="UInt8" Name="types" format="ascii">{typ}</DataArray></Cells>\n'
            f'<PointData><DataArray type="Float64" Name="p" format="ascii">{vals}</DataArray></PointData>\n'
            '<CellData></CellData>\n</Piece></UnstructuredGrid></VTKFile>\n')


VTU_EQ = _vtu("1 2 3")
VTU_DIFF = _vtu("1 2 4")
VTU_MESH = _vtu("1 2 3 4", npts=4)
VTU_TRUNC = VTU_EQ[: len(VTU_EQ) // 2]
TXT = "some plain text\nnot a data file\n"
TXT2 = "some other plain text\n"

# pair kinds: name -> (ext pool, content A, content B)
PAIR_KINDS = {
    "csv-equal": ([".csv"], CSV_EQ, CSV_EQ),
    "csv-differ": ([".csv"], CSV_EQ, CSV_DIFF),
    "csv-tiny": ([".csv"], CSV_EQ, CSV_TINY),
    "csv-extra-src": ([".csv"], CSV_EXTRA, CSV_EQ),
    "csv-extra-ref": ([".csv"], CSV_EQ, CSV_EXTRA),
    "csv-rows": ([".csv"], CSV_EQ, CSV_ROWS),
    "csv-trunc-src": ([".csv"], CSV_TRUNC, CSV_EQ),
    "csv-trunc-ref": ([".csv"], CSV_EQ, CSV_TRUNC),
    "csv-empty": ([".csv"], "", ""),
    "csv-str-equal": ([".csv"], CSV_STR, CSV_STR),
    "csv-str-differ": ([".csv"], CSV_STR, CSV_STR2),
    "vtu-equal": ([".vtu"], VTU_EQ, VTU_EQ),
    "vtu-differ": ([".vtu"], VTU_EQ, VTU_DIFF),
    "vtu-mesh": ([".vtu"], VTU_EQ, VTU_MESH),
    "vtu-trunc": ([".vtu"], VTU_TRUNC, VTU_EQ),
    "txt": ([".txt", ".log", ""], TXT, TXT),
    "txt-differ": ([".txt"], TXT, TXT2),
    "txt-vtk-both": ([".txt", ""], VTU_EQ, VTU_EQ),       # sniffed as VTK: supported
    "txt-vtk-src": ([".txt"], VTU_EQ, TXT),                # sniffed on the source side only
    "txt-vtk-ref": ([".txt"], TXT, VTU_EQ),                # VTK content on the reference side only: unsupported
    "dat-equal": ([".dat"], CSV_EQ, CSV_EQ),               # csv content, meshio extension
    "dat-differ": ([".dat"], CSV_EQ, CSV_DIFF),
    "dsv-equal": ([".dsv"], CSV_EQ, CSV_EQ),               # readable in file mode, unsupported in dir mode
    "dsv-differ": ([".dsv"], CSV_EQ, CSV_DIFF),
    "txt-csv": ([".txt"], CSV_EQ, CSV_EQ),                 # readable only with --read-as dsv
    "txt-csv-differ": ([".txt"], CSV_EQ, CSV_DIFF),
}
KIND_WEIGHTS = [("csv-equal", 10), ("csv-differ", 3), ("csv-tiny", 2), ("csv-extra-src", 1), ("csv-extra-ref", 1),
                ("csv-rows", 1), ("csv-trunc-src", 1), ("csv-trunc-ref", 1), ("csv-empty", 1), ("csv-str-equal", 1),
                ("csv-str-differ", 1), ("vtu-equal", 1), ("vtu-differ", 1), ("vtu-mesh", 1), ("vtu-trunc", 1),
                ("txt", 3), ("txt-differ", 1), ("txt-vtk-both", 1), ("txt-vtk-src", 1), ("txt-vtk-ref", 1),
                ("dat-equal", 2), ("dat-differ", 1), ("dsv-equal", 2), ("dsv-differ", 1), ("txt-csv", 2),
                ("txt-csv-differ", 1)]

DIR_NAMES = ["s", "t", "sub dir", "d[1]", "x*y", "a?b", "deep", "S", ".hid", "ü"]
BASE_NAMES = ["f0", "f1", "f2", "data", "same", "res[1]", "a*b", "q?", "A", "a", ".hid", "with space", "ä", "f0.v2",
              "[x]", "*"]

INCLUDE_POOL = ["*", "*.csv", "s/*", "*f1*", "*.vtu", "*/t/*", "*[[]1]*", "*.d??", "?*.csv", "nomatch*", "*same*",
                "[!s]*", "*.txt", "*/*", "f?.csv", "*[*]*", "S/*", "*a*"]
READ_AS_POOL = [None, None, None, ["dsv:*.dat"], ["dsv:*.dat", "dsv:*.dsv"], ["dsv:*.txt"], ["dsv"],
                ['dsv{"delimiter":","}:*.dat'], ["mesh:*.txt"], ["dsv:s/*"], ["dsv:*.dsv", "mesh:*.dat"],
                ["dsv:*.d*", "mesh"], ["mesh:*.log", "dsv:*.txt"]]

REASONS = {"Missing source file": "MS", "Missing reference file": "MR", "Unsupported file format": "U",
           "Filtered out by given wildcard patterns": "D"}


# (phase 6 G) extensions that are NOT registered anywhere (case-sensitive lookups): support = VTK sniffing of the content
SNIFFED_EXTS_P6G = (".CSV", ".Csv", ".VTU", ".Vtu", ".old", ".bak", ".csv ", ".2", ".v")


def _have_meshio() -> bool:
    """is '.dat' a mesh extension in this environment? (what fieldcompare's optional meshio bridge needs)"""
    try:
        from meshio import extension_to_filetypes, read, Mesh  # noqa: F401
        from meshio.xdmf import TimeSeriesReader  # noqa: F401
        return ".dat" in extension_to_filetypes
    except Exception:
        return False


HAVE_MESHIO = _have_meshio()


# ------------------------------------------------------------------------------------------------
# ground-truth oracles for the parameters of the model (computed from what was created)
# ------------------------------------------------------------------------------------------------
def oracle_supported(rel: str, content_a: str) -> bool:
    """format support of the SOURCE file: extension, or VTK flavour sniffed from the first 1024 bytes"""
    ext = os.path.splitext(rel)[1]
    if ext in (".csv", ".vtu", ".pvd"):
        return True
    if ext == ".dat":
        return HAVE_MESHIO
    if ext in (".txt", ".log", ".dsv", "", ".v2") or ext in SNIFFED_EXTS_P6G:
        head = content_a.encode()[:1024]
        return b"<VTKFile" in head and b'type="UnstructuredGrid"' in head
    raise ValueError(f"generator produced an extension without support oracle: {ext!r}")


def read_as_patterns(read_as) -> list[str]:
    """the wildcard of every `--read-as` mapping (`READER[{json}][:PATTERN]`, default `*`)"""
    pats = []
    for m in read_as or []:
        if "}" in m:
            rest = m.split("}", 1)[1]
            pats.append(rest[1:] if rest.startswith(":") else "*")
        else:
            pats.append(m.split(":", 1)[1] if ":" in m else "*")
    return pats


def oracle_mapped(rel: str, read_as) -> bool:
    return any(fnmatch.fnmatch(rel, p) for p in read_as_patterns(read_as))


def oracle_incl(rel: str, include) -> bool:
    return True if not include else any(fnmatch.fnmatch(rel, p) for p in include)


def oracle_excl(rel: str, exclude) -> bool:
    return False if not exclude else any(fnmatch.fnmatch(rel, p) for p in exclude)


# ------------------------------------------------------------------------------------------------
# case = {"files": [[rel, contentA|None, contentB|None], …], "opts": {...}}
# ------------------------------------------------------------------------------------------------
def default_opts():
    return {"include": None, "exclude": None, "ims": False, "imr": False, "read_as": None,
            "imsf": False, "imrf": False, "rtol": None, "exclude_fields": None, "verbosity": None}


def passthrough_args(o) -> list[str]:
    """options that directory mode hands on to every file comparison ("the same options")"""
    a = []
    for m in o.get("read_as") or []:
        a += ["--read-as", m]
    if o.get("imsf"):
        a.append("--ignore-missing-source-fields")
    if o.get("imrf"):
        a.append("--ignore-missing-reference-fields")
    if o.get("rtol") is not None:
        a += ["-rtol", o["rtol"]]
    for p in o.get("exclude_fields") or []:
        a += ["--exclude-fields", p]
    if o.get("verbosity") is not None:
        a += ["--verbosity", str(o["verbosity"])]
    # (phase 6 G) the remaining pass-through options of the two parsers
    if o.get("atol") is not None:
        a += ["-atol", o["atol"]]
    for p in o.get("include_fields") or []:
        a += ["--include-fields", p]
    for k, flag in PASS_FLAGS_P6G.items():
        if o.get(k):
            a.append(flag)
    return a


PASS_FLAGS_P6G = {"no_reorder": "--disable-mesh-reordering", "no_orphan_removal": "--disable-mesh-orphan-point-removal",
                  "no_dim_match": "--disable-mesh-space-dimension-matching",
                  "ign_steps": "--ignore-missing-sequence-steps", "force_seq": "--force-sequence-comparison"}


def dir_args(o) -> list[str]:
    a = []
    for p in o.get("include") or []:
        a += ["--include-files", p]
    for p in o.get("exclude") or []:
        a += ["--exclude-files", p]
    if o.get("ims"):
        a.append("--ignore-missing-source-files")
    if o.get("imr"):
        a.append("--ignore-missing-reference-files")
    return a + passthrough_args(o)


class Scratch:
    """one temp directory per run; every tree lives in a fresh sub-directory that is removed after use"""

    def __init__(self):
        self.base = tempfile.mkdtemp(prefix="fcv_c12_")
        self.n = 0

    def fresh(self) -> str:
        self.n += 1
        d = os.path.join(self.base, f"c{self.n}")
        os.makedirs(d)
        return d

    def close(self):
        shutil.rmtree(self.base, ignore_errors=True)


NEST_A, NEST_B = "nestA_qz", "nestB_qz"     # never used as a generated directory / file name


def tree_roots(d: str, relation: str = "plain") -> tuple[str, str]:
    """(phase 6 G) where the two trees live: side by side, the SAME directory, or one inside the other"""
    if relation == "same":
        return os.path.join(d, ROOT_A), os.path.join(d, ROOT_A)
    if relation == "b-in-a":
        return os.path.join(d, ROOT_A), os.path.join(d, ROOT_A, NEST_B)
    if relation == "a-in-b":
        return os.path.join(d, ROOT_B, NEST_A), os.path.join(d, ROOT_B)
    return os.path.join(d, ROOT_A), os.path.join(d, ROOT_B)


def spell(root: str, d: str, how: str) -> str:
    """(phase 6 G) the way a directory is written on the command line (the process works in `d` for the relative ones)"""
    rel = os.path.relpath(root, d)
    if how == "slash":
        return root + "/"
    if how == "rel":
        return rel
    if how == "relslash":
        return rel + "/"
    if how == "dot":
        return "./" + rel
    if how == "dotslash":
        return "./" + rel + "/"
    if how == "dotdot":
        return os.path.join(root, "..", os.path.basename(root))
    if how == "dbl":
        return os.path.dirname(root) + "//" + os.path.basename(root)
    return root


def build_tree(d: str, files, relation: str = "plain", empty_dirs=None) -> tuple[str, str]:
    a, b = tree_roots(d, relation)
    os.makedirs(a, exist_ok=True)
    os.makedirs(b, exist_ok=True)
    for side, rel in empty_dirs or []:
        os.makedirs(os.path.join(a if side == "A" else b, rel), exist_ok=True)
    for rel, ca, cb in files:
        for root, c in ((a, ca), (b, cb)):
            if c is None:
                continue
            p = os.path.join(root, rel)
            os.makedirs(os.path.dirname(p), exist_ok=True)
            with open(p, "w", encoding="utf-8", newline="") as fh:
                fh.write(c)
    return a, b


def _counts(suite_el) -> tuple[int, int, int, int]:
    tcs = suite_el.findall("testcase")
    fail = sum(1 for t in tcs if t.find("failure") is not None and t.find("error") is None)
    err = sum(1 for t in tcs if t.find("error") is not None)
    skip = sum(1 for t in tcs if t.find("skipped") is not None)
    return len(tcs), fail, err, skip


def cls_of(counts) -> str:
    n, fail, err, skip = counts
    if fail + err > 0:
        return "bad"
    if n > 0 and skip == n:
        return "skip"
    return "ok"


def _quiet_main(argv):
    """run the CLI in-process; -> (exit code | 'raised:<Type>', log text)"""
    from fieldcompare._cli import main
    from fieldcompare._cli._logger import CLILogger
    out = io.StringIO()
    with warnings.catch_warnings():
        warnings.simplefilter("ignore")
        with contextlib.redirect_stderr(io.StringIO()), contextlib.redirect_stdout(io.StringIO()):
            try:
                rc = main(argv, CLILogger(output_stream=out))
            except SystemExit as e:      # argparse rejected the command line: a harness bug, not an observation
                raise RuntimeError(f"argparse rejected {argv!r}: {e}")
            except Exception as e:
                rc = f"raised:{type(e).__name__}"
    return rc, out.getvalue()


def run_file_mode(a: str, b: str, rel: str, o, xml: str):
    """-> (outcome code P|F|E|X, class of the file-mode report or None)"""
    if os.path.exists(xml):
        os.remove(xml)
    rc, _ = _quiet_main(["file", os.path.join(a, rel), os.path.join(b, rel), "--junit-xml", xml] + passthrough_args(o))
    if rc == 0:
        cl = None
        if os.path.exists(xml):
            cl = cls_of(_counts(ET.parse(xml).getroot()))
        return "P", cl
    if not os.path.exists(xml):
        return "X", None
    cl = cls_of(_counts(ET.parse(xml).getroot()))
    return ("F" if cl == "bad" else "E"), cl


ANSI = re.compile(r"\x1b\[[0-9;]*m")


def map_suite_name(name: str, rels: list[str]):
    """suite name -> relative path of the created tree (longest suffix match on path-component boundaries)"""
    best = None
    for r in rels:
        if name == r or name.endswith("/" + r):
            if best is None or len(r) > len(best):
                best = r
    return best


def _dir_main_with_info(argv):
    """-> (exit code, log text, info messages handed to the summary printer).  The count of one-sided files removed by
    the filters is observed where directory mode hands it to `_log_suite_summary` (4th argument `info_msg`) - the label
    (`[ INFO ]`), the wording and the position of that line in the log are display text (DESIGN §5 item 5)."""
    import fieldcompare._cli._dir_mode as dm
    orig = getattr(dm, "_log_suite_summary", None)
    if orig is None:                       # seam not there (renamed): fall back to the `[ INFO ] … <n>` log line
        rc, log = _quiet_main(argv)
        return rc, log, [m.group(0) for line in ANSI.sub("", log).splitlines()
                         for m in [re.match(r"\s*\[\s*INFO\s*\]\D*(\d+)", line)] if m]
    seen = []

    def spy(*args, **kwargs):
        seen.append(kwargs["info_msg"] if "info_msg" in kwargs else (args[3] if len(args) > 3 else None))
        return orig(*args, **kwargs)

    dm._log_suite_summary = spy
    try:
        rc, log = _quiet_main(argv)
    finally:
        dm._log_suite_summary = orig
    return rc, log, seen


def map_suite_name_p6g(name: str, rels: list[str], marker=None):
    """(phase 6 G) exact names first (the suites of uncompared paths carry the relative path); a compared suite of a
    source tree that lives INSIDE the reference tree is recognised by the marker directory of that tree"""
    if name in rels:
        return name
    if marker is not None and ("/" + marker + "/") in ("/" + name):
        tail = ("/" + name).rsplit("/" + marker + "/", 1)[1]
        if tail in rels:
            return tail
    return map_suite_name(name, rels)


def run_dir_mode(a: str, b: str, o, xml: str, rels: list[str], mapper=None, also_nojunit=False) -> dict:
    if os.path.exists(xml):
        os.remove(xml)
    mapper = mapper or map_suite_name
    rc, log, infos = _dir_main_with_info(["dir", a, b, "--junit-xml", xml] + dir_args(o))
    obs = {"exit": rc, "suites": [], "orphans": None, "unmapped": [], "reasons": {}}
    if also_nojunit:
        obs["exit_nojunit"] = _quiet_main(["dir", a, b] + dir_args(o))[0]
    if os.path.exists(xml):
        for el in ET.parse(xml).getroot().findall("testsuite"):
            name = el.get("name")
            rel = mapper(name, rels)
            if rel is None:
                obs["unmapped"].append(name)
                continue
            counts = _counts(el)
            obs["suites"].append((rel, cls_of(counts)))
            tcs = el.findall("testcase")
            if len(tcs) == 1 and tcs[0].get("name") == "file comparison":
                so = tcs[0].find("system-out")
                txt = (so.text or "").strip() if so is not None else ""
                if txt in REASONS:
                    obs["reasons"][rel] = REASONS[txt]
    else:
        obs["suites"] = None
    verbosity = o.get("verbosity")
    if verbosity is None or verbosity >= 2:
        # the reported count = the first number of the info message, provided the message is in the log at all
        n, clean = 0, ANSI.sub("", log)
        for msg in infos:
            m = re.search(r"\d+", ANSI.sub("", msg)) if isinstance(msg, str) else None
            if m and ANSI.sub("", msg) in clean:
                n = int(m.group(0))
        obs["orphans"] = n
    obs["suites"] = sorted(obs["suites"]) if obs["suites"] is not None else None
    return obs


# ------------------------------------------------------------------------------------------------
# the property's oracle in Python (per-path classification; mirrors Fc.DirMode.Spec)
# ------------------------------------------------------------------------------------------------
def py_spec(rows, o):
    """rows: [{rel, inA, inB, incl, excl, supported, mapped, outcome}] -> (exit, orphans, {rel: code})"""
    codes, orphans, ok = {}, 0, True
    for r in rows:
        cons = r["incl"] and not r["excl"]
        if r["inA"] and r["inB"]:
            if not cons:
                codes[r["rel"]] = "D"
            elif r["supported"] or r["mapped"]:
                codes[r["rel"]] = r["outcome"]
                ok = ok and r["outcome"] == "P"
            else:
                codes[r["rel"]] = "U"
        elif r["inA"]:
            if cons:
                codes[r["rel"]] = "mr" if o["imr"] else "MR"
                ok = ok and bool(o["imr"])
            else:
                orphans += 1
        elif r["inB"]:
            if cons:
                codes[r["rel"]] = "ms" if o["ims"] else "MS"
                ok = ok and bool(o["ims"])
            else:
                orphans += 1
    return (0 if ok else 1), orphans, codes


def expected_classes(code: str, file_cls):
    """set of report classes compatible with a suite code (see module doc)"""
    if code == "P":
        return {file_cls} if file_cls in ("ok", "skip") else {"ok", "skip"}
    if code == "F":
        return {"bad"}
    if code in ("E", "X"):
        # a suite-level error has no failing test case today (C20/F5); tolerate a repair.  (phase 6 G) If every test case
        # of the pair is skipped (e.g. --include-fields selects nothing) and the failure is suite-level only (sequence
        # step with a differing mesh), file mode's own report of that pair is all-skipped too: accept what file mode shows
        return {"ok", "bad"} | ({"skip"} if file_cls == "skip" else set())
    if code in ("MS", "MR"):
        return {"bad"}
    return {"skip"}               # ms mr U D


def enc_line(rows, o) -> str:
    res = [i for i, r in enumerate(rows) if r["inA"]]
    ref = [i for i, r in enumerate(rows) if r["inB"]]
    t = ["c12dir", "1" if o["ims"] else "0", "1" if o["imr"] else "0", str(len(res))] + [str(i) for i in res]
    t += [str(len(ref))] + [str(i) for i in ref] + [str(len(rows))]
    for r in rows:
        t += ["1" if r["incl"] else "0", "1" if r["excl"] else "0", "1" if r["supported"] else "0",
              "1" if r["mapped"] else "0", r["outcome"]]
    return " ".join(t)


def parse_obs(s: str, rows):
    """`exit|orphans|id:code,…` -> (exit, orphans, sorted [(rel, code)])"""
    e, n, ss = s.split("|")
    items = []
    if ss != "-":
        for it in ss.split(","):
            i, c = it.split(":")
            items.append((rows[int(i)]["rel"], c))
    return int(e), int(n), sorted(items)


def _wipe(d: str):
    for name in (ROOT_A, ROOT_B):
        shutil.rmtree(os.path.join(d, name), ignore_errors=True)


def observe(case, scratch: Scratch):
    """build the tree, run directory mode and file mode on every common path -> (rows, obs, file_cls)
    (phase 6 G) optional keys of a case: `form` = {relation, a, b, nojunit} (how the two trees relate and how the two
    directories are spelled on the command line; the process works inside the scratch directory meanwhile),
    `empty_dirs` = [[side, rel]], `prior` = earlier states [{files, opts, empty_dirs}] of the SAME two paths that
    directory mode is run on first, in this process (the trees are wiped and rebuilt between the states)"""
    files, o = case["files"], case["opts"]
    form = case.get("form") or {}
    relation = form.get("relation", "plain")
    d = scratch.fresh()
    cwd = os.getcwd()
    try:
        if form:
            os.chdir(d)
        xml = os.path.join(d, "report.xml")
        ra, rb = tree_roots(d, relation)
        arg_a, arg_b = spell(ra, d, form.get("a", "abs")), spell(rb, d, form.get("b", "abs"))
        for prior in case.get("prior") or []:
            build_tree(d, prior["files"], relation, prior.get("empty_dirs"))
            run_dir_mode(arg_a, arg_b, prior["opts"], xml, [f[0] for f in prior["files"]])
            _wipe(d)
        a, b = build_tree(d, files, relation, case.get("empty_dirs"))
        rels = [f[0] for f in files]
        mapper = None
        if form:
            marker = NEST_A if relation == "a-in-b" else None
            mapper = lambda name, rels_: map_suite_name_p6g(name, rels_, marker)      # noqa: E731
        obs = run_dir_mode(arg_a, arg_b, o, xml, rels, mapper, bool(form.get("nojunit")))
        rows, file_cls = [], {}
        for rel, ca, cb in files:
            outcome = "X"
            if ca is not None and cb is not None:
                outcome, file_cls[rel] = run_file_mode(arg_a if form else a, arg_b if form else b, rel, o,
                                                       os.path.join(d, "file.xml"))
            rows.append({"rel": rel, "inA": ca is not None, "inB": cb is not None,
                         "incl": oracle_incl(rel, o.get("include")), "excl": oracle_excl(rel, o.get("exclude")),
                         "supported": oracle_supported(rel, ca) if ca is not None else False,
                         "mapped": oracle_mapped(rel, o.get("read_as")), "outcome": outcome})
        walk = None
        try:
            from fieldcompare._matching import _find_sub_files_recursively
            walk = (sorted(_find_sub_files_recursively(arg_a)), sorted(_find_sub_files_recursively(arg_b)))
        except Exception as e:    # the helper is private: its absence is not a finding
            walk = None
        return rows, obs, file_cls, walk
    finally:
        os.chdir(cwd)
        shutil.rmtree(d, ignore_errors=True)


def compare(rows, obs, file_cls, expected, o):
    """impl observation vs an expected (exit, orphans, {rel: code}) -> list of difference strings"""
    exit_, orphans, codes = expected
    diffs = []
    if obs["exit"] != exit_:
        diffs.append(f"exit code {obs['exit']} != {exit_}")
    if "exit_nojunit" in obs and obs["exit_nojunit"] != exit_:
        diffs.append(f"exit code without --junit-xml {obs['exit_nojunit']} != {exit_}")
    if obs["suites"] is None:
        diffs.append("no junit report written")
        return diffs
    if obs["unmapped"]:
        diffs.append(f"suites that belong to no created file: {obs['unmapped']}")
    got = {}
    for rel, cl in obs["suites"]:
        got.setdefault(rel, []).append(cl)
    for rel, code in sorted(codes.items()):
        g = got.pop(rel, [])
        if len(g) != 1:
            diffs.append(f"{rel!r}: expected exactly one suite ({code}), report has {len(g)}")
        elif g[0] not in expected_classes(code, file_cls.get(rel)):
            diffs.append(f"{rel!r}: suite class {g[0]} not compatible with {code}")
        elif code in ("MS", "ms", "MR", "mr", "U", "D") and rel in obs["reasons"] \
                and obs["reasons"][rel] != code.upper():
            diffs.append(f"{rel!r}: reported reason {obs['reasons'][rel]} but the path is {code}")
    for rel, g in sorted(got.items()):
        diffs.append(f"{rel!r}: {len(g)} suite(s) {g} for a path that must not have one")
    if obs["orphans"] is not None and obs["orphans"] != orphans:
        diffs.append(f"'filtered out' count {obs['orphans']} != {orphans}")
    return diffs


def evaluate(case, observed, rep=None):
    """compare one observed case with the Python oracle of the property and (if given) the driver's reply
    -> dict(rows, obs, spec, diffs_spec, diffs_model, inconsistent)"""
    rows, obs, file_cls, walk = observed
    o = case["opts"]
    spec = py_spec(rows, o)
    res = {"rows": rows, "obs": obs, "spec": spec, "walk": walk,
           "diffs_spec": compare(rows, obs, file_cls, spec, o), "diffs_model": [], "inconsistent": None}
    truth_a = sorted(r["rel"] for r in rows if r["inA"])
    truth_b = sorted(r["rel"] for r in rows if r["inB"])
    if walk is not None and (walk[0] != truth_a or walk[1] != truth_b):
        res["diffs_spec"].append(f"_find_sub_files_recursively returned {walk} for the trees {truth_a} / {truth_b}")
    if rep is not None:
        res["lean"] = rep
        if rep.get("hyp") != "1" or "model" not in rep:
            res["inconsistent"] = ("driver reply", str(rep))
        else:
            m = parse_obs(rep["model"], rows)
            s = parse_obs(rep["spec"], rows)
            res["diffs_model"] = compare(rows, obs, file_cls, (m[0], m[1], dict(m[2])), o)
            if len(dict(m[2])) != len(m[2]):
                res["diffs_model"].append("model lists a path twice")
            if m != s:
                res["inconsistent"] = (rep["model"], rep["spec"])
            elif s != (spec[0], spec[1], sorted(spec[2].items())):
                res["inconsistent"] = ("lean-spec=" + rep["spec"], f"python-oracle={spec}")
    return res


def check_case(case, scratch, lean=None):
    """observe + evaluate one case; `lean(lines) -> replies` is the driver (or None)"""
    observed = observe(case, scratch)
    rep = lean([enc_line(observed[0], case["opts"])])[0] if lean is not None else None
    return evaluate(case, observed, rep)


# ------------------------------------------------------------------------------------------------
# generators
# ------------------------------------------------------------------------------------------------
def _weighted(rng, pairs):
    tot = sum(w for _, w in pairs)
    x = rng.random() * tot
    for k, w in pairs:
        x -= w
        if x < 0:
            return k
    return pairs[-1][0]


def gen_rel(rng, ext, used_dirs):
    depth = rng.choice([0, 0, 1, 1, 1, 2, 2, 3])
    if used_dirs and rng.random() < 0.5:
        dirs = list(rng.choice(used_dirs))
    else:
        dirs = [rng.choice(DIR_NAMES) for _ in range(depth)]
    base = rng.choice(BASE_NAMES)
    return "/".join(dirs + [base + ext]), tuple(dirs)


def _conflicts(rel, taken):
    """a new path must not be, or be inside, an existing *file* path and vice versa (a name is a file or a directory)"""
    for t in taken:
        if rel == t or rel.startswith(t + "/") or t.startswith(rel + "/"):
            return True
    return False


def gen_case(rng, max_files=25):
    n = rng.choice([0, 1, 2, 3, 4, 6, 8, 10, 14, 18, 25, 30])
    files, taken, used_dirs = [], [], []
    na = nb = 0
    for _ in range(n):
        kind = _weighted(rng, KIND_WEIGHTS)
        exts, ca, cb = PAIR_KINDS[kind]
        ext = rng.choice(exts)
        for _try in range(6):
            rel, dirs = gen_rel(rng, ext, used_dirs)
            if not _conflicts(rel, taken):
                break
        else:
            continue
        r = rng.random()
        side = "both" if r < 0.6 else ("A" if r < 0.8 else "B")
        if side in ("both", "A") and na >= max_files:
            side = "B"
        if side in ("both", "B") and nb >= max_files:
            if na >= max_files:
                continue
            side = "A"
        if side == "A":
            cb = None
        elif side == "B":
            ca, cb = None, (cb if rng.random() < 0.5 else ca)
        na += ca is not None
        nb += cb is not None
        files.append([rel, ca, cb])
        taken.append(rel)
        if dirs:
            used_dirs.append(dirs)
    # a name that is a file on one side and a directory on the other
    if files and rng.random() < 0.08:
        name = "clash"
        if not _conflicts(name, taken) and na < max_files and nb < max_files:
            files.append([name, TXT, None])
            files.append([name + ".d/in.csv", None, CSV_EQ])
    rng.shuffle(files)
    o = default_opts()
    if rng.random() < 0.45:
        o["include"] = [rng.choice(INCLUDE_POOL) for _ in range(rng.choice([1, 1, 2]))]
    if rng.random() < 0.45:
        o["exclude"] = [rng.choice(INCLUDE_POOL[1:]) for _ in range(rng.choice([1, 1, 2]))]
    o["ims"] = rng.random() < 0.4
    o["imr"] = rng.random() < 0.4
    o["read_as"] = rng.choice(READ_AS_POOL)
    o["imsf"] = rng.random() < 0.2
    o["imrf"] = rng.random() < 0.2
    o["rtol"] = rng.choice([None, None, None, "1e-3", "y:1e-3"])
    o["exclude_fields"] = rng.choice([None, None, None, None, ["z"], ["y"]])
    o["verbosity"] = rng.choice([None, None, None, None, 0, 1, 2, 3])
    return {"files": files, "opts": o}


SMALL_UNIVERSE = [("a.csv", CSV_EQ, CSV_EQ), ("s/a.csv", CSV_EQ, CSV_DIFF), ("s/t/b.csv", CSV_EQ, CSV_EQ),
                  ("u.txt", TXT, TXT), ("s/m.dsv", CSV_EQ, CSV_EQ), ("c[1].csv", CSV_TRUNC, CSV_EQ)]
SMALL_FILTERS = [(None, None), (["*.csv"], None), (None, ["s/*"])]


def small_scope_cases():
    """every tree pair with <= 4 paths from a 6-path universe x ignore flags x three filter settings"""
    for states in itertools.product(range(4), repeat=len(SMALL_UNIVERSE)):     # 0 absent, 1 A, 2 B, 3 both
        if sum(1 for s in states if s) > 4:
            continue
        files = []
        for (rel, ca, cb), s in zip(SMALL_UNIVERSE, states):
            if s:
                files.append([rel, ca if s in (1, 3) else None, cb if s in (2, 3) else None])
        for ims, imr in itertools.product([False, True], repeat=2):
            for inc, exc in SMALL_FILTERS:
                o = default_opts()
                o.update(ims=ims, imr=imr, include=inc, exclude=exc)
                yield {"files": files, "opts": o}


# ------------------------------------------------------------------------------------------------
# shrinking
# ------------------------------------------------------------------------------------------------
def shrink(case, scratch, still_fails, budget=60):
    """greedy: drop files, then options, while `still_fails(case)` holds"""
    extra = {k: v for k, v in case.items() if k not in ("files", "opts")}
    if (extra.get("form") or {}).get("relation", "plain") != "plain":
        return case                      # rows of nested / identical trees depend on each other: replay as generated
    cur = dict(extra, files=[list(f) for f in case["files"]], opts=dict(case["opts"]))
    changed = True
    while changed and budget > 0:
        changed = False
        for i in range(len(cur["files"])):
            cand = dict(extra, files=cur["files"][:i] + cur["files"][i + 1:], opts=cur["opts"])
            budget -= 1
            if still_fails(cand):
                cur, changed = cand, True
                break
            if budget <= 0:
                break
    dflt = default_opts()
    for k in list(cur["opts"]):
        if cur["opts"][k] != dflt.get(k) and budget > 0:
            cand = dict(extra, files=cur["files"], opts=dict(cur["opts"], **{k: dflt.get(k)}))
            budget -= 1
            if still_fails(cand):
                cur = cand
    return cur


# ------------------------------------------------------------------------------------------------
# find_matches on arbitrary lists (outside the duplicate-free hypothesis)
# ------------------------------------------------------------------------------------------------
def check_find_matches(ctx, n):
    from fieldcompare._matching import find_matches
    rng = ctx.rng
    cases = []
    for _ in range(n):
        k = rng.choice([1, 2, 3, 5])
        src = [rng.randrange(k + 1) for _ in range(rng.choice([0, 1, 2, 3, 5, 8]))]
        ref = [rng.randrange(k + 1) for _ in range(rng.choice([0, 1, 2, 3, 5, 8]))]
        cases.append((src, ref))
    lines = [f"c12fm {len(s)} {' '.join(map(str, s))} {len(r)} {' '.join(map(str, r))}".replace("  ", " ")
             for s, r in cases]
    replies = ctx.lean(lines) if ctx.driver_ok else [None] * len(cases)
    fmt = lambda xs: ",".join(map(str, xs)) if xs else "-"   # noqa: E731
    for (s, r), rep in zip(cases, replies):
        m = find_matches(list(s), list(r))
        impl = f"{fmt([a for a, _ in m.matches])}|{fmt(m.orphans_in_source)}|{fmt(m.orphans_in_reference)}"
        dup = len(set(s)) < len(s) or len(set(r)) < len(r)
        ctx.case(("fm", tuple(s), tuple(r)), nontrivial=bool(s and r), tags=["find_matches", "dup" if dup else "nodup"])
        if rep is not None and rep.get("model") != impl:
            ctx.mismatch({"op": "find_matches", "source": s, "reference": r}, impl, rep.get("model", str(rep)),
                         what="find_matches vs Fc.DirMode.findMatches")
        # the property-level oracle where it speaks (duplicate-free lists): intersection / differences
        if not dup:
            want = f"{fmt([x for x in s if x in r])}|{fmt([x for x in s if x not in r])}|{fmt([x for x in r if x not in s])}"
            if impl != want:
                ctx.violation({"op": "find_matches", "source": s, "reference": r}, impl, want,
                              what="find_matches on duplicate-free lists is not (common, source-only, reference-only)")


# ------------------------------------------------------------------------------------------------
# observation O1 (recorded, not a verdict): `--read-as` patterns are matched against the RELATIVE path when
# directory mode decides whether an unsupported file is compared, but against the JOINED path when the file
# is read (and in file mode). A pattern that only matches the joined path leaves a differing pair uncompared.
# ------------------------------------------------------------------------------------------------
def observation_o1(scratch) -> dict:
    d = scratch.fresh()
    try:
        a, b = build_tree(d, [["x.txt", CSV_EQ, CSV_DIFF]])
        pat = "dsv:" + d + "/*/x.txt"          # matches <d>/srcroot_qz/x.txt and <d>/refroot_qz/x.txt, not "x.txt"
        rc_dir, _ = _quiet_main(["dir", a, b, "--read-as", pat])
        rc_file, _ = _quiet_main(["file", os.path.join(a, "x.txt"), os.path.join(b, "x.txt"), "--read-as", pat])
        return {"pattern": "dsv:<tmp>/*/x.txt", "dir_exit": rc_dir, "file_exit": rc_file,
                "reproduces": rc_dir == 0 and rc_file != 0}
    finally:
        shutil.rmtree(d, ignore_errors=True)


# ------------------------------------------------------------------------------------------------
# entry points
# ------------------------------------------------------------------------------------------------
def _tags(case, res):
    o = case["opts"]
    codes = res["spec"][2]
    tags = [f"files={min(len(case['files']) // 5 * 5, 30)}+" if len(case["files"]) < 100 else "files=100+"]
    tags += sorted({"code-" + c for c in codes.values()})
    tags.append(f"exit-{res['spec'][0]}")
    if res["spec"][1]:
        tags.append("orphans-filtered")
    for k in ("include", "exclude", "read_as", "rtol", "exclude_fields", "atol", "include_fields"):
        if o.get(k):
            tags.append("opt-" + k)
    for k in ("ims", "imr", "imsf", "imrf") + tuple(PASS_FLAGS_P6G):
        if o.get(k):
            tags.append("flag-" + k)
    form = case.get("form") or {}
    if form:
        tags += ["trees-" + form.get("relation", "plain"), "argA-" + form.get("a", "abs"), "argB-" + form.get("b", "abs")]
    if case.get("empty_dirs"):
        tags.append("empty-directories")
    if case.get("prior"):
        tags.append(f"rerun-same-paths-{len(case['prior'])}-earlier-states")
    tags += list(case.get("tags") or [])
    depth = max([f[0].count("/") + 1 for f in case["files"]] or [0])
    tags.append(f"depth={depth}" if depth <= 4 else "depth=5+")
    if any(ch in f[0] for f in case["files"] for ch in "*?["):
        tags.append("glob-chars-in-names")
    bases = [f[0].rsplit("/", 1)[-1] for f in case["files"]]
    if len(set(bases)) < len(bases):
        tags.append("same-basename-different-dirs")
    return tags


def _record(ctx, case, res, scratch, group):
    codes = res["spec"][2]
    nontrivial = len(set(codes.values())) >= 2 or any(c != "P" for c in codes.values()) or res["spec"][1] > 0
    key = (tuple(tuple(f) for f in sorted(case["files"], key=lambda f: f[0])),
           tuple(sorted((k, str(v)) for k, v in case["opts"].items())),
           repr(case.get("form")), repr(case.get("empty_dirs")), repr(case.get("prior")))
    ctx.case(key, nontrivial=nontrivial, tags=[group] + _tags(case, res),
             sample={"files": [[f[0], f[1] is not None, f[2] is not None] for f in case["files"]][:8],
                     "opts": {k: v for k, v in case["opts"].items() if v}, "impl": {"exit": res["obs"]["exit"],
                     "suites": (res["obs"]["suites"] or [])[:8], "orphans": res["obs"]["orphans"]},
                     "lean": res.get("lean")})
    if res["inconsistent"]:
        ctx.inconsistent(case, res["inconsistent"][0], res["inconsistent"][1])
    if res["diffs_spec"]:
        if len(ctx.spec_viol) >= 20:     # enough replays; do not spend the budget on shrinking more of them
            ctx.spec_viol.append({"what": "further candidate (not shrunk)", "case": case, "impl": res["diffs_spec"],
                                  "spec": None, "class": None})
            return

        def still(c):
            return bool(check_case(c, scratch)["diffs_spec"])
        small = shrink(case, scratch, still)
        r2 = check_case(small, scratch)
        if not r2["diffs_spec"]:
            small, r2 = case, res
        ctx.violation(small, {"exit": r2["obs"]["exit"], "suites": r2["obs"]["suites"], "orphans": r2["obs"]["orphans"],
                              "differences": r2["diffs_spec"]},
                      {"exit": r2["spec"][0], "orphans": r2["spec"][1], "suites": sorted(r2["spec"][2].items())},
                      cls=None, what="directory mode does not account for the created trees as the property demands: "
                      + "; ".join(r2["diffs_spec"][:3]))
    elif res["diffs_model"]:
        ctx.mismatch(case, {"exit": res["obs"]["exit"], "suites": res["obs"]["suites"], "orphans": res["obs"]["orphans"],
                            "differences": res["diffs_model"]}, res.get("lean"))


def run(ctx):
    ctx.rule = ("case = (pair of created directory trees, dir-mode options); trees: depth <= 4, 0-25 files per side, "
                "equal/differing/unreadable/unsupported/one-sided files, glob characters and equal basenames in names; "
                "(phase 6 G, directed) directory spellings (trailing slash, cwd-relative, ./, .., //) x tree relations (side by side, "
                "identical, one inside the other), prefix names / file-vs-directory / upper-case extensions / depth 8 / empty "
                "directories, 150-400 files, all pass-through options incl. .pvd sequences in the trees, re-runs on the same paths; "
                "non-trivial = the accounting has >= 2 distinct classes, or a non-passing class, or filtered orphans; "
                "distinct = distinct (files with contents, options)")
    ctx.assumptions += [
        "os.walk lists every regular file of a tree exactly once (symlinks, permissions, non-UTF-8 names not covered); "
        "_find_sub_files_recursively is compared with the created tree on every case",
        "fnmatch enters the model as truth tables computed by the harness with the real fnmatch on the relative path",
        "is_supported enters as a table computed from what the harness wrote (extension / VTK sniffing of the source file; "
        f"'.dat' supported iff meshio is importable: {HAVE_MESHIO})",
        "per-pair outcomes are the exit status (+ report class) of `fieldcompare file A/p B/p <same options>` run in-process",
    ]
    scratch = Scratch()
    try:
        n_rand = ctx.scale(500, 12000)
        n_small = ctx.scale(150, 10 ** 9)
        cases = [("random", gen_case(ctx.rng)) for _ in range(n_rand)]
        small = list(small_scope_cases())
        if n_small < len(small):
            small = ctx.rng.sample(small, n_small)
        else:
            ctx.exhaustive = True
            ctx.notes.append(f"small scope exhaustive: {len(small)} (tree pair, flags, filter) cases")
        cases += [("small-scope", c) for c in small]
        from fcv import c12_trees_p6g as P6G      # (phase 6 G) directed batches: see notes/PHASE6_G2_C12.md
        import sys
        cases += P6G.batches(ctx, sys.modules[__name__])
        CH = 250     # observe a chunk of cases, then ONE driver call for the chunk
        for i in range(0, len(cases), CH):
            chunk = cases[i:i + CH]
            observed = [observe(case, scratch) for _, case in chunk]
            replies = [None] * len(chunk)
            if ctx.driver_ok:
                replies = ctx.lean([enc_line(ob[0], case["opts"]) for ob, (_, case) in zip(observed, chunk)])
            for (group, case), ob, rep in zip(chunk, observed, replies):
                _record(ctx, case, evaluate(case, ob, rep), scratch, group)
        check_find_matches(ctx, ctx.scale(400, 20000))
        o1 = observation_o1(scratch)
        ctx.extra["observation_O1_read_as_pattern_vs_joined_path"] = o1
        if o1["reproduces"]:
            ctx.notes.append("O1 (outside the claim; `mapped` is defined on the relative path): a --read-as pattern that "
                             "matches only the joined path leaves a differing pair uncompared (dir exit 0, file exit 1)")
    finally:
        scratch.close()
    ctx.spec_viol = ctx.spec_viol[:20]
    ctx.extra["hyp_hit_rate"] = 1.0


def replay_witness(ctx, entry):
    case = entry["witness"]
    scratch = Scratch()
    try:
        res = check_case(case, scratch)
        return bool(res["diffs_spec"]), {"differences": res["diffs_spec"]}
    finally:
        scratch.close()


def replay(ctx, payload):
    case = payload.get("case") or (payload.get("first_mismatch") or {}).get("case")
    if case is None:
        print("replay: no case in the replay file (proof / driver build broken: see 'broken')")
        return 1
    if case.get("op") == "find_matches":
        from fieldcompare._matching import find_matches
        m = find_matches(list(case["source"]), list(case["reference"]))
        print("replay find_matches:", m)
        s, r = case["source"], case["reference"]
        bad = ([a for a, _ in m.matches], m.orphans_in_source, m.orphans_in_reference) != \
              ([x for x in s if x in r], [x for x in s if x not in r], [x for x in r if x not in s])
        if bad:
            print(f"VIOLATION property=C12 replay={payload.get('_path', '<replay>')}")
        return 1 if bad else 0
    scratch = Scratch()
    try:
        res = check_case(case, scratch, ctx.lean if ctx.driver_ok else None)
    finally:
        scratch.close()
    print(f"replay: impl exit={res['obs']['exit']} suites={res['obs']['suites']} orphans={res['obs']['orphans']}")
    print(f"        property: exit={res['spec'][0]} orphans={res['spec'][1]} suites={sorted(res['spec'][2].items())}")
    for d in res["diffs_spec"]:
        print("        implementation vs property:", d)
    for d in res["diffs_model"]:
        print("        implementation vs Lean model:", d)
    if res["diffs_spec"] or res["diffs_model"]:
        print(f"VIOLATION property=C12 replay={payload.get('_path', '<replay>')}")
        return 1
    return 0
