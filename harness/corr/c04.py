"""C04 — CLI file-mode exit code equals the documented comparison semantics.

Correspondence (implementation vs the Lean model `Fc.Cli.fileMode`, through the driver):
  * exhaustive decision tables: `_parse_status` (6x2x2), `TestStatus.__bool__`, `TestSuite.__bool__` on an explicit
    status, `FieldComparisonStatus.__bool__`, `_bool_to_exit_code`;
  * token level: `_parse_field_tolerances` on single arguments and on argument lists (value looked up for several
    names), `remove_annotation`, `_suite_name`;
  * scenario level: `fieldcompare._cli.main(["file", RES, REF, …])` in-process on files generated from an abstract
    scenario; observable = exit code / raised.
Search: implementation vs the Lean spec `Fc.Cli.Spec.exitZero` (inside the hypotheses) and vs the independent Python
evaluation `cli_scen.py_eval` (wherever that is decided)."""
from __future__ import annotations
import copy

import numpy as np

from fcv import cli_scen as cs
from fcv import cliopt_p6g1c as p6
from fcv.num import f2u

WHAT = "exit status of `fieldcompare file` differs from the documented comparison semantics"


# ---------------------------------------------------------------- decision tables (exhaustive)

def decision_tables(ctx):
    from fieldcompare._cli._file_comparison import FileComparison, FileComparisonOptions
    from fieldcompare._cli._logger import CLILogger
    from fieldcompare._cli._test_suite import TestStatus, TestSuite
    from fieldcompare._cli._common import _bool_to_exit_code
    from fieldcompare._field_data_comparison import FieldComparisonStatus
    import io
    lines, impls, cases = [], [], []
    for st in FieldComparisonStatus:
        for a in (False, True):
            for b in (False, True):
                fc = FileComparison(FileComparisonOptions(ignore_missing_source_fields=a,
                                                          ignore_missing_reference_fields=b),
                                    CLILogger(output_stream=io.StringIO()))
                lines.append(f"pstatus {st.name} {int(a)} {int(b)}")
                impls.append(fc._parse_status(st).name)
                cases.append({"op": "parse_status", "status": st.name, "ign_src": a, "ign_ref": b})
    for st in TestStatus:
        lines.append(f"tstatus {st.name}")
        impls.append(f"{int(bool(st))}{int(bool(TestSuite([], status=st)))}")
        cases.append({"op": "TestStatus.__bool__/TestSuite.__bool__", "status": st.name})
    for st in FieldComparisonStatus:
        lines.append(f"fstatus {st.name}")
        impls.append(f"{int(bool(st))}")
        cases.append({"op": "FieldComparisonStatus.__bool__", "status": st.name})
    for v in (False, True):
        lines.append(f"exitcode {int(v)}")
        impls.append(str(_bool_to_exit_code(v)))
        cases.append({"op": "_bool_to_exit_code", "value": v})
    reps = ctx.lean(lines) if ctx.driver_ok else [None] * len(lines)
    for c, impl, rep in zip(cases, impls, reps):
        ctx.case(("table", str(c)), nontrivial=True, tags=["decision-table"])
        if rep is None:
            continue
        if rep.get("model") != impl:
            ctx.mismatch(c, impl, rep.get("model", rep))
    # what the property needs from these tables, checked on the implementation directly
    for v, want in ((True, 0), (False, 1)):
        if (_bool_to_exit_code(v) == 0) != (want == 0):
            ctx.violation({"op": "_bool_to_exit_code", "value": v}, _bool_to_exit_code(v), want,
                          what="exit code mapping: success must be 0 and failure non-zero")


# ---------------------------------------------------------------- token level

def _tolval(t) -> str:
    from fieldcompare.predicates import ScaledTolerance
    if t is None:
        return "none"
    if isinstance(t, ScaledTolerance):
        base = float(t(np.array([1.0]), np.array([1.0])))
        return "exotic" if cs.float_lit(repr(base)) == "exotic" else f"s{f2u(base)}"
    x = float(t)
    return "exotic" if cs.float_lit(repr(x)) == "exotic" else f"n{f2u(x)}"


def impl_tolfor(toks, dyn, name) -> str:
    from fieldcompare._cli._common import _parse_field_tolerances
    try:
        m = _parse_field_tolerances(toks, allow_dynamic_tolerances=dyn)
    except ValueError:
        return "raised"
    return _tolval(m(name))


def impl_toltok(s, dyn) -> str:
    from fieldcompare._cli._common import _parse_field_tolerances
    try:
        m = _parse_field_tolerances([s], allow_dynamic_tolerances=dyn)
    except ValueError:
        return "raised"
    probe = "\x00no-such-field\x00"
    if m(probe) is not None:
        return "unnamed:" + _tolval(m(probe))
    name = s.split(":")[0]
    return f"named:{cs.esc(name)}:{_tolval(m(name))}"


TOK_POOL = ["1e-3", "0", "p0:1e-6", "p0:1e-3*max", "1e-3*max", "domain:1e-2", ":1", "a:b:c", "abc", "x:", "::", ":",
            "", "p0:", "1e-3*max*max", "*max", "p0:*max", "1e-3 *max", " 1e-3", "1_0", "p0:1_0*max", "x:-1", "inf",
            "p0:nan", "1e-3*maxx", "max", "p0:max", "a b:2", "c0 @ QUAD:1", "1e400", "p0:1e-400", "٣", "x:1e-3*MAX",
            "p0:2", "p0:3", "q:4", "5", "6"]
NAME_POOL = ["p0", "domain", "", "q", "a b", "c0 @ QUAD", "x", "nosuch"]


def token_cases(ctx):
    rng = ctx.rng
    lines, impls, cases = [], [], []
    for s in TOK_POOL:
        for dyn in (False, True):
            lines.append(f"toltok {int(dyn)} {cs.esc(s)} {cs.float_table([[s]])}")
            impls.append(impl_toltok(s, dyn))
            cases.append({"op": "_parse_field_tolerances", "tokens": [s], "dynamic": dyn})
    for _ in range(ctx.scale(1500, 60000)):
        k = rng.choice([0, 1, 2, 2, 3, 4, 6])
        toks = None if rng.random() < 0.05 else [rng.choice(TOK_POOL) for _ in range(k)]
        if toks is not None and rng.random() < 0.7:
            toks = [t for t in toks if cs.float_lit(t.split(":")[-1].split("*max")[0]) != "bad" and t.count(":") < 2] \
                if rng.random() < 0.8 else toks
        dyn = rng.random() < 0.5
        name = rng.choice(NAME_POOL)
        lines.append(f"tolfor {int(dyn)} {cs._enc_optstrs(toks)} {cs.esc(name)} {cs.float_table([toks])}")
        impls.append(impl_tolfor(toks, dyn, name))
        cases.append({"op": "FieldToleranceMap", "tokens": toks, "dynamic": dyn, "name": name})
    reps = ctx.lean(lines) if ctx.driver_ok else [None] * len(lines)
    for c, impl, rep in zip(cases, impls, reps):
        ctx.case(("tok", str(c)), nontrivial=bool(c.get("tokens")), tags=["token-level", "tok-" + impl.split(":")[0][:7]])
        if rep is None:
            continue
        if "model" not in rep:
            ctx.inconsistent(c, str(rep), "bad-op")
            continue
        model = rep["model"]
        if rep.get("hyp") == "1" or c["op"] == "_parse_field_tolerances":
            if model != impl:
                ctx.mismatch(c, impl, model)
        if c["op"] == "FieldToleranceMap" and rep.get("hyp") == "1":
            if rep.get("spec") not in (model, "valid"):
                ctx.inconsistent(c, model, rep.get("spec"))
            # search: the documented lookup (per-field ?? global ?? default) evaluated in Python
            parsed = cs.py_parse_tols(c["tokens"], c["dynamic"])
            if parsed is None:
                want = "raised"
            elif parsed == "X":
                want = None
            else:
                t = cs.py_tol_for(parsed, c["name"])
                want = "none" if t is None else ("n" if t[0] == "num" else "s") + str(f2u(t[1]))
            if want is not None and impl != want:
                ctx.violation(c, impl, want, what="tolerance that applies to a field differs from "
                                                  "'per-field ?? global ?? default'")
    # remove_annotation / _suite_name
    from fieldcompare._format import remove_annotation
    from fieldcompare._cli._file_comparison import _suite_name
    names = ["", "p", " @ ", "a @ b", "a @ b @ c", " @ @ ", "x @", "@ y", "a  @  b", "c0 @ QUAD", " @ QUAD", "a@b",
             "a @ ", "  @  @  ", "ü @ ß"]
    paths = ["a.csv", "r/a.csv", "/r/a.csv", "/tmp/x/y/a.csv", "r/s/../a.csv", "/", "//a/b", "r/a b.csv"]
    lines = [f"anno {cs.esc(n)}" for n in names]
    impls = [remove_annotation(n) for n in names]
    lines += [f"suitename {len(cs.path_parts(p))} " + " ".join(cs.esc(x) for x in cs.path_parts(p)) for p in paths]
    impls += [_suite_name(p) for p in paths]
    reps = ctx.lean(lines) if ctx.driver_ok else [None] * len(lines)
    for ln, impl, rep in zip(lines, impls, reps):
        ctx.case(("name", ln), nontrivial=True, tags=["name-level"])
        if rep is not None and cs.unesc(rep.get("model", "?")) != impl:
            ctx.mismatch({"op": ln}, impl, rep.get("model", rep))


# ---------------------------------------------------------------- scenario level

def _run(sc, wd, junit=True):
    """run one scenario; a scenario carrying a presentation variant (`sc["p6"]`: verbosity, --diff, long option names,
    option order, relative paths, same path twice, fresh process) is put on the command line that way"""
    if sc.get("p6"):
        return p6.run_file_scenario(sc, wd, junit=junit)
    return cs.run_file_scenario(sc, wd, junit=junit)


def evaluate(ctx, items, wd):
    """items = [(scenario, tags)]: run the implementation, the model, the oracles; record"""
    runs = [_run(sc, wd, junit=(i % 2 == 0)) for i, (sc, _) in enumerate(items)]
    # (cases tagged "p6-nolean" — tables with thousands of rows, whose protocol line has megabytes — are decided by the
    # python oracle alone)
    nolean = ["p6-nolean" in tags for _, tags in items]
    lines = [("nolean " + repr(sc)) if nl else cs.cli_line("cli", cs.abstract(sc, r["parts"]))
             for (sc, _), r, nl in zip(items, runs, nolean)]
    reps = [None] * len(lines)
    if ctx.driver_ok:
        idx = [i for i, nl in enumerate(nolean) if not nl]
        for i, rep in zip(idx, ctx.lean([lines[i] for i in idx])):
            reps[i] = rep
    for (sc, tags), r, line, rep in zip(items, runs, lines, reps):
        oc = cs.outcome_class(r["out"])
        py = cs.py_eval(sc)["exit"]
        tags = list(tags) + ["exit-" + oc]
        if not r["readok"]:
            # the generated file does not read back to the intended data (delimiter/header sniffing): outside the model
            ctx.case(line, nontrivial=False, tags=tags + ["discarded-reader-sidecheck"])
            continue
        ctx.case(line, nontrivial=len(tags) > 2, tags=tags,
                 sample={"options": cs.option_argv(sc), "tags": tags, "impl": r["out"], "python_oracle": py, "lean": rep})
        hyp = False
        if rep is not None:
            if "model" not in rep:
                ctx.inconsistent(sc, str(rep), "bad-op")
            else:
                hyp = rep["hyp"] == "1"
                ctx.dist["hyp-" + rep["hyp"]] += 1
                if hyp:
                    if rep["model"] != oc:
                        if not _reproducible(ctx, sc, wd, oc):
                            continue
                        ctx.mismatch(sc, r["out"], rep["model"])
                    if (rep["model"] == "0") != (rep["spec"] == "0"):
                        ctx.inconsistent(sc, rep["model"], rep["spec"])
                    if py is not None and py != rep["spec"]:
                        ctx.inconsistent(sc, "lean-spec=" + rep["spec"], "python-oracle=" + py)
                    if (oc == "0") != (rep["spec"] == "0"):
                        if _reproducible(ctx, sc, wd, oc):
                            ctx.violation(sc, r["out"], rep["spec"], cls=None, what=WHAT)
                        continue
        if py is not None and (oc == "0") != (py == "0") and _reproducible(ctx, sc, wd, oc):
            ctx.violation(sc, r["out"], py, cls=None, what=WHAT + " (python oracle)")


def _reproducible(ctx, sc, wd, oc) -> bool:
    """re-run the implementation on a disagreeing scenario: a disagreement that does not reproduce is recorded as a
    note (non-repeatable behaviour of the implementation or of the machine is C19's subject), not as a mismatch"""
    again = cs.outcome_class(_run(sc, wd, junit=False)["out"])
    if again != oc:
        ctx.dist["impl-nonreproducible"] += 1
        ctx.notes.append(f"implementation outcome not reproducible on immediate re-run: first={oc} second={again} "
                         f"options={cs.option_argv(sc)}")
        return False
    return True


def _violates(sc, wd) -> bool:
    r = _run(sc, wd, junit=False)
    py = cs.py_eval(sc)["exit"]
    return r["readok"] and py is not None and (cs.outcome_class(r["out"]) == "0") != (py == "0")


def shrink(sc, wd):
    """greedy reduction that keeps the disagreement with the python oracle (used only to make replays small)"""
    if not _violates(sc, wd):
        return sc
    cur = copy.deepcopy(sc)

    def attempt(mod):
        nonlocal cur
        cand = copy.deepcopy(cur)
        try:
            mod(cand)
            if cand != cur and _violates(cand, wd):
                cur = cand
                return True
        except Exception:  # noqa: BLE001
            pass
        return False

    if cur.get("p6"):
        if not attempt(lambda c: c.pop("p6")):
            for k in list(cur["p6"]):
                attempt(lambda c, k=k: c["p6"].pop(k))
    for key in ("rtol", "atol", "incl", "excl"):
        attempt(lambda c, k=key: c.__setitem__(k, None))
        i = 0
        while cur[key] and i < len(cur[key]):
            if not attempt(lambda c, k=key, j=i: c[k].pop(j)):
                i += 1
    for fl in list(cur["flags"]):
        attempt(lambda c, f=fl: c["flags"].__setitem__(f, False))
    attempt(lambda c: c.__setitem__("read_as", None))
    if cur["res"]["kind"] == "table" and cur["ref"]["kind"] == "table":
        i = 0
        while i < len(cur["res"]["cols"]):
            name = cur["res"]["cols"][i]["name"]

            def drop(c, n=name):
                c["res"]["cols"] = [x for x in c["res"]["cols"] if x["name"] != n]
                c["ref"]["cols"] = [x for x in c["ref"]["cols"] if x["name"] != n]
                if len(c["res"]["cols"]) < 2 or len(c["ref"]["cols"]) < 2:
                    c["read_as"] = [cs.DSV_READER]
            if not attempt(drop):
                i += 1
    return cur


def zero_tolerance_scenarios(rng, k):
    """an EXPLICIT zero tolerance (`-rtol 0`, `-rtol name:0`, next to other entries) on a float column that deviates
    by exactly one ulp: exact comparison was requested, so the run must fail (a default silently substituted for
    the explicit zero would accept the deviation)"""
    import copy
    import math
    out, tries = [], 0
    forms = [["0"], ["0.0"], ["{name}:0"], ["1e-3", "{name}:0"], ["{name}:0", "1e-3"]]
    while len(out) < k and tries < 60 * k:
        tries += 1
        sc, _tags = cs.gen_csv_scenario(rng)
        if sc["damage"] != [None, None] or sc.get("ext"):
            continue
        sc["res"] = copy.deepcopy(sc["ref"])
        cols = [c for c in sc["res"]["cols"] if c["dt"] == "f64" and c["v"]]
        if not cols:
            continue
        c = rng.choice(cols)
        i = rng.randrange(len(c["v"]))
        a = float(c["v"][i])
        if a == 0.0 or not math.isfinite(a):
            continue
        form = rng.choice(forms)
        sc["rtol"] = [t.format(name=c["name"]) for t in form]
        sc["atol"] = rng.choice([None, ["0"]])
        sc["incl"], sc["excl"] = None, None
        if rng.random() < 0.8:
            c["v"][i] = math.nextafter(a, math.inf if rng.random() < 0.5 else -math.inf)
            out.append((sc, ["csv", "zero-tol-1ulp"]))
        else:
            out.append((sc, ["csv", "zero-tol-identical"]))
    return out


def cellfield_tolerance_scenarios(rng, k):
    """a per-field tolerance addressed to a CELL field by its (un-annotated) name: looser than the fallback with a
    deviation in between (must pass), or stricter than a loose global one with a deviation in between (must fail)"""
    import copy
    out, tries = [], 0
    while len(out) < k and tries < 80 * k:
        tries += 1
        lm0, _mt = cs.gen_logical_mesh(rng)
        cfs = [f for f in lm0["cf"] if f["dt"] == "f64" and f["v"] and not f["tail"]]
        if not cfs:
            continue
        name = rng.choice(sorted({f["name"] for f in cfs}))
        sc = {"kind": "mesh", "rtol": None, "atol": None, "flags": cs.gen_flags(rng, mesh=True), "incl": None,
              "excl": None, "read_as": None, "damage": [None, None]}
        ref = {"kind": "mesh", "lm": copy.deepcopy(lm0)}
        res = {"kind": "mesh", "lm": copy.deepcopy(lm0), "topo_same": True, "moved": None}
        f = rng.choice([g for g in res["lm"]["cf"] if g["name"] == name and g["dt"] == "f64" and g["v"]])
        i = rng.randrange(len(f["v"]))
        a = float(f["v"][i])
        if a == 0.0:
            continue
        mode = rng.choice(["loose-field", "strict-field"])
        if mode == "loose-field":
            sc["rtol"] = rng.choice([[f"{name}:1e-3"], ["1e-9", f"{name}:1e-3"]])
            f["v"][i] = a * (1.0 + 1e-4)
        else:
            sc["rtol"] = ["1e-2", f"{name}:1e-9"]
            f["v"][i] = a * (1.0 + 1e-5)
        cs._store(rng, res, relabel_p=0.0)
        cs._store(rng, ref, relabel_p=0.0)
        sc["res"], sc["ref"] = res, ref
        out.append((sc, ["mesh", "cellfield-tol-" + mode]))
    return out


# ---------------------------------------------------------------- phase 6 (G1c): dimensions of the quantifier sampled at one point only

def meshflag_batch(ctx, wd, rng, nbase):
    """search (expectation computed in `fcv.cliopt_p6g1c.meshflag_want`, not by the Lean model — the abstract scenario has
    neither unconnected points nor a space dimension): every combination of the three mesh flags on meshes that need them"""
    for c in p6.meshflag_cases(rng, nbase):
        out = p6.run_meshflag_case(c, wd)
        tags = ["p6-meshflags", "p6-mesh-" + c["variant"], "exit-" + cs.outcome_class(out)] + \
               ["p6-flag-" + k for k, v in sorted(c["mflags"].items()) if v] + (["p6-mesh-gross"] if c["gross"] else [])
        if c["want"] is None:
            tags.append("p6-undemanded")
        ctx.case(("meshflags", c["variant"], str(c["mflags"]), c["gross"], str(c["res"]["points"][:2])), nontrivial=True,
                 tags=tags, sample=None)
        if p6.meshflag_bad(c, out) and p6.meshflag_bad(c, p6.run_meshflag_case(c, wd)):
            ctx.violation(c, out, c["want"], cls=None, what=WHAT + " (mesh flags: " + c["why"] + ")")


def report_failure_batch(ctx, wd, rng, k):
    """a comparison that must fail, with a report path that cannot be written: the failure must not be lost together with
    the report (nothing is demanded here of a PASSING comparison whose report cannot be written)"""
    import os
    done = tries = 0
    while done < k and tries < 40 * k:
        tries += 1
        sc, tags = cs.gen_csv_scenario(rng) if rng.random() < 0.7 else cs.gen_mesh_scenario(rng)
        if cs.py_eval(sc)["exit"] != "nz":
            continue
        d = wd.fresh()
        try:
            res, ref = cs.materialise(sc, d)
            if not cs.read_check(sc, res, ref):
                continue
            argv = ["file", res, ref] + cs.option_argv(sc) + ["--junit-xml", os.path.join(d, "no", "such", "dir", "r.xml")]
            out, _ = cs.run_cli(argv)
        finally:
            wd.drop(d)
        done += 1
        ctx.case(("junit-bad", cs.cli_line("cli", cs.abstract(sc, ["x"]))), nontrivial=True,
                 tags=[tags[0], "p6-report-unwritable", "exit-" + cs.outcome_class(out)])
        if cs.outcome_class(out) == "0":
            ctx.violation(dict(sc, p6_report_unwritable=True), out, "nz", cls=None,
                          what=WHAT + " (failing comparison, unwritable --junit-xml path)")


def subprocess_batch(ctx, wd, rng, k):
    """process exit status of a FRESH interpreter running the console-script wrapper (`sys.exit(main())`): first-call
    behaviour of every module-level object, the value handed to sys.exit; zero iff the oracle says zero, and the same
    zero / non-zero class as the in-process call"""
    want_classes = ["0", "nz", "nz", "0", "raised", "nz", "0", "nz"]
    done = tries = 0
    while done < k and tries < 400:
        tries += 1
        sc, tags = cs.gen_csv_scenario(rng) if rng.random() < 0.7 else cs.gen_mesh_scenario(rng)
        if not p6._eq_safe(sc):
            continue
        py = cs.py_eval(sc)["exit"]
        rejected = cs.py_parse_tols(sc["rtol"], False) is None or cs.py_parse_tols(sc["atol"], True) is None
        cls = "raised" if rejected else py
        if cls != want_classes[done % len(want_classes)]:
            continue
        sc["p6"] = dict(p6.gen_presentation(rng))
        inproc = _run(sc, wd, junit=False)
        if not inproc["readok"]:
            continue
        sc["p6"]["subprocess"] = True
        r = _run(sc, wd, junit=False)
        done += 1
        ctx.case(("subprocess", cs.cli_line("cli", cs.abstract(sc, r["parts"])), str(sc["p6"])), nontrivial=True,
                 tags=list(tags) + ["p6-subprocess", "p6-process-status-%s" % r["out"]] + p6._ptags(sc["p6"]))
        zero = r["out"] == 0
        if py is not None and zero != (py == "0"):
            ctx.violation(sc, r["out"], py, cls=None, what=WHAT + " (process exit status, python oracle)")
        elif zero != (cs.outcome_class(inproc["out"]) == "0"):
            ctx.violation(sc, r["out"], "in-process: %s" % (inproc["out"],), cls=None,
                          what="process exit status of a fresh interpreter differs from the in-process exit code")


def sequence_batch(ctx, wd, rng, k):
    """several invocations in ONE process on the SAME two paths whose contents are rewritten in between (the other batches
    use fresh paths for every scenario, and forgive a disagreement that does not reproduce on an immediate re-run)"""
    for _ in range(k):
        seq = p6.gen_sequence(rng)
        res = p6.run_sequence(seq, wd)
        for sc, (o, want, readok) in zip(seq["steps"], res):
            ctx.case(("sequence", cs.cli_line("cli", cs.abstract(sc, ["x"]))), nontrivial=True,
                     tags=[seq["fmt"], "p6-same-paths-rewritten", "exit-" + cs.outcome_class(o)] +
                          ([] if readok else ["discarded-reader-sidecheck"]))
        i = p6.sequence_bad(res)
        if i is not None and p6.sequence_bad(p6.run_sequence(seq, wd)) is not None:
            seq["steps"] = seq["steps"][:i + 1]
            while len(seq["steps"]) > 1 and p6.sequence_bad(p6.run_sequence(dict(seq, steps=seq["steps"][1:]), wd)) is not None:
                seq["steps"] = seq["steps"][1:]
            ctx.violation(seq, res[i][0], res[i][1], cls=None,
                          what=WHAT + " (last of a sequence of invocations on the same paths in one process)")


def p6_batches(ctx, wd):
    """all drawn from a generator of their own (the stream of the older batches is unchanged)"""
    import random
    rng = random.Random(ctx.rng.getrandbits(64))
    if p6.disabled():
        ctx.notes.append("phase-6 G1c batches disabled by " + p6.OFF_ENV)
        return
    import time
    thorough = ctx.tier == "thorough"
    sizes = [0, 1, 2, 17, 64, 999, 1000, 1001, 1024, 1025, 2049, 4100] + ([70000] if thorough else [])
    timings = []

    def timed(name, fn):
        t0, n0, d0 = time.time(), ctx.evaluations, ctx.dist["discarded-reader-sidecheck"]
        fn()
        timings.append(f"{name}: {ctx.evaluations - n0} cases, {ctx.dist['discarded-reader-sidecheck'] - d0} discarded, "
                       f"{time.time() - t0:.1f}s")
    timed("sizes", lambda: evaluate(ctx, p6.size_scenarios(rng, sizes, per_size=ctx.scale(2, 6)), wd))
    timed("maxside", lambda: evaluate(ctx, p6.maxside_scenarios(rng, rounds=ctx.scale(2, 20)), wd))
    timed("ignore-matrix", lambda: evaluate(ctx, p6.ignore_matrix_scenarios(rng, nbase=ctx.scale(1, 12)), wd))
    timed("role-swap", lambda: evaluate(ctx, p6.swap_scenarios(rng, ctx.scale(90, 4000)), wd))
    timed("verbosity-sweep", lambda: evaluate(ctx, p6.verbosity_sweep(rng, ctx.scale(6, 80)), wd))
    timed("same-file", lambda: evaluate(ctx, p6.samefile_scenarios(rng, ctx.scale(8, 100)), wd))
    timed("presentation", lambda: evaluate(ctx, p6.presentation_scenarios(rng, ctx.scale(120, 6000)), wd))
    timed("mesh-flags", lambda: meshflag_batch(ctx, wd, rng, ctx.scale(2, 40)))
    timed("same-paths-rewritten", lambda: sequence_batch(ctx, wd, rng, ctx.scale(12, 300)))
    timed("report-unwritable", lambda: report_failure_batch(ctx, wd, rng, ctx.scale(10, 150)))
    timed("subprocess", lambda: subprocess_batch(ctx, wd, rng, ctx.scale(4, 48)))
    ctx.notes.append("phase-6 G1c batches: " + "; ".join(timings))


def run(ctx):
    ctx.rule = ("cases = decision-table entries, tolerance-argument lists x queried name, and file-mode scenarios "
                "(logical result/reference data: CSV tables, unstructured meshes written as .vtu, .pvd sequences; edits: "
                "perturb a value below/at/above its effective tolerance, change an integer/string, drop/add/rename a field, "
                "change the row count, move a point inside/outside the domain tolerance, rewire a cell, reorder the mesh, "
                "damage or remove a file; options: global/per-field/*max/domain: tolerances, include/exclude globs, ignore / "
                "force / mesh flags, --read-as; phase 6: the same scenarios under other presentations on the command line "
                "(--verbosity, --diff, long names, opt=value, option order, relative paths, same path twice, fresh process), "
                "roles swapped, 0 ... 70 000 rows, value*max with the maximum on one side, ignore-flag x missing-side matrix, "
                "mesh flags on meshes with unconnected points / a 2-d vs 3-d embedding).  non-trivial = a scenario with at least one edit, damage or flag recorded in "
                "its tags (token lists: non-empty); distinct = distinct protocol line (all values, tokens, options)")
    ctx.assumptions += [
        "argparse delivers the option strings unchanged; float(str) as tabulated by the harness with CPython's float",
        "fnmatch truth tables are computed by the harness with the real fnmatch",
        "text/VTK readers return the data the files were written from (side-check on every generated file; scenarios "
        "failing it are discarded and counted under 'discarded-reader-sidecheck')",
        "reader failure classes: missing / unsupported file -> IOError, damaged .vtu/.pvd/.csv -> other exception "
        "(probed; only the error suite vs catch-all path depends on it, never the exit status)",
        "for reordered meshes the comparator aligns the two meshes iff they are relabelings of each other (C02/C03), "
        "inside the separation hypothesis meshHyp (tolerance at least 8x below the point spacing and 8x away from every "
        "coordinate difference)",
        "numeric field verdict = cluster A model Fc.defaultCheck (C01/C09)",
    ]
    decision_tables(ctx)
    token_cases(ctx)
    wd = cs.Workdir()
    try:
        evaluate(ctx, zero_tolerance_scenarios(ctx.rng, ctx.scale(40, 600)), wd)
        evaluate(ctx, cellfield_tolerance_scenarios(ctx.rng, ctx.scale(40, 600)), wd)
        n = ctx.scale(1400, 60000)
        CH = 400
        done = 0
        while done < n:
            items = [cs.gen_scenario(ctx.rng) for _ in range(min(CH, n - done))]
            evaluate(ctx, items, wd)
            done += len(items)
        p6_batches(ctx, wd)
        ctx.spec_viol = [dict(v, case=(shrink(v["case"], wd) if "flags" in v["case"] else v["case"]))
                         for v in ctx.spec_viol[:20]]
    finally:
        wd.close()


def _replay_case(ctx, sc):
    wd = cs.Workdir()
    try:
        if "flags" not in sc:      # decision-table / token-level case
            return None, None, None
        r = _run(sc, wd, junit=False)
        rep = None
        if ctx.driver_ok:
            rep = ctx.lean([cs.cli_line("cli", cs.abstract(sc, r["parts"]))])[0]
        return r, cs.py_eval(sc)["exit"], rep
    finally:
        wd.close()


def replay_witness(ctx, entry):
    w = entry["witness"]
    if isinstance(w, dict) and "fn" in w:
        from fcv import core
        return core.run_named_witness(entry)
    sp = _replay_special(w) if isinstance(w, dict) else None
    if sp is not None:
        return sp[0], {"replay": sp[1]}
    r, py, rep = _replay_case(ctx, w)
    oc = cs.outcome_class(r["out"])
    want = py if py is not None else (rep or {}).get("spec")
    return (want is not None and (oc == "0") != (want == "0")), {"impl": r["out"], "expected": want}


def _replay_special(sc):
    """phase-6 cases that do not go through the model: -> (bad, text) or None"""
    import os
    if sc.get("kind") == "p6-meshflags":
        wd = cs.Workdir()
        try:
            out = p6.run_meshflag_case(sc, wd)
        finally:
            wd.close()
        want, why = p6.meshflag_want(sc)
        return (want is not None and (cs.outcome_class(out) == "0") != (want == "0"),
                f"mesh flags {p6.meshflag_argv(sc, 'RES', 'REF')[3:]} variant={sc['variant']} gross={sc['gross']} impl={out} "
                f"expected={want} ({why})")
    if sc.get("kind") == "p6-sequence":
        wd = cs.Workdir()
        try:
            res = p6.run_sequence(sc, wd)
        finally:
            wd.close()
        return (p6.sequence_bad(res) is not None,
                "sequence on the same paths: " + "; ".join(f"step {i}: impl={o} expected={w}" for i, (o, w, _) in enumerate(res)))
    if sc.get("p6_report_unwritable"):
        wd = cs.Workdir()
        try:
            d = wd.fresh()
            res, ref = cs.materialise(sc, d)
            out, _ = cs.run_cli(["file", res, ref] + cs.option_argv(sc) + ["--junit-xml", os.path.join(d, "no", "dir", "r.xml")])
        finally:
            wd.close()
        return cs.outcome_class(out) == "0", f"failing comparison + unwritable report: impl={out} expected=nz"
    if (sc.get("p6") or {}).get("subprocess"):
        wd = cs.Workdir()
        try:
            r = _run(sc, wd, junit=False)
            s2 = dict(sc, p6={k: v for k, v in sc["p6"].items() if k != "subprocess"})
            inproc = _run(s2, wd, junit=False)
        finally:
            wd.close()
        py = cs.py_eval(sc)["exit"]
        zero = r["out"] == 0
        bad = (zero != (py == "0")) if py is not None else (zero != (cs.outcome_class(inproc["out"]) == "0"))
        return bad, f"argv={r['argv'][3:]} process-status={r['out']} in-process={inproc['out']} python-oracle={py}"
    return None


def replay(ctx, payload):
    sc = payload["case"]
    sp = _replay_special(sc)
    if sp is not None:
        print("replay: " + sp[1])
        if sp[0]:
            print(f"VIOLATION property=C04 replay={payload.get('_path', '<replay>')}")
            return 1
        return 0
    if "flags" not in sc:
        if sc.get("op") == "FieldToleranceMap":
            impl = impl_tolfor(sc["tokens"], sc["dynamic"], sc["name"])
            print(f"replay: FieldToleranceMap lookup impl={impl} expected={payload.get('spec')}")
            bad = impl != payload.get("spec")
        elif sc.get("op") == "_bool_to_exit_code":
            from fieldcompare._cli._common import _bool_to_exit_code
            impl = _bool_to_exit_code(sc["value"])
            print(f"replay: _bool_to_exit_code({sc['value']}) = {impl}")
            bad = (impl == 0) != bool(sc["value"])
        else:
            print("replay: unknown case kind")
            return 2
    else:
        r, py, rep = _replay_case(ctx, sc)
        oc = cs.outcome_class(r["out"])
        want = py if py is not None else (rep or {}).get("spec")
        print(f"replay: argv options={cs.option_argv(sc)} impl={r['out']} python-oracle={py} lean={rep}")
        bad = want is not None and (oc == "0") != (want == "0")
    if bad:
        print(f"VIOLATION property=C04 replay={payload.get('_path', '<replay>')}")
        return 1
    return 0
