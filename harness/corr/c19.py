"""C19 — comparing is free of side effects and repeatable.

Correspondence (implementation vs the Lean model FcModel/Effects.lean through `fcdrv`):
  * random histories (length <= 8) of public operations on SHARED objects (compare with MeshFieldsComparator — same
    object re-run / fresh object —, domain.equals, a shared predicate object, sort, sort_points, sort_cells,
    strip_orphan_points, extend_space_dimension_to, merge, diff_to, fieldcompare.io.write, meshio_utils.to_meshio /
    from_meshio incl. pixel/voxel meshes).  Before/after every operation: bytes and `flags.writeable` of every tracked
    array, hash and mtime of every input file, listing of the working directory and of the output directory.
    observed written set == the model's predicted written set (empty for everything that existed before the step);
    for every array exposed by every result object: stored-vs-computed and its `np.shares_memory` alias set against all
    tracked arrays == the model's prediction (`c19hist`),
  * histories of one predicate object (calls on fields of different magnitude / dtype, tolerance setters) vs the state
    machine `Fc.runPred` and vs fresh objects (`c19pred`),
  * the comparator ladder: verdict and number of reordering callbacks of run 1, 2 of one MeshFieldsComparator object vs
    `Fc.runComparator` instantiated with the stage verdicts obtained through the public API (`c19ladder`).
Search (implementation vs the property): any modified input array / input file / unrequested file; any disagreement of
verdicts / per-field statuses between repeated, fresh, later and other-process (subprocess CLI) runs.
Phase 6 (G2): `fcv/c19_xhist_p6g.py` adds search-only "extended histories" over what the effect model does not cover:
tabular data, sequences, array storage forms, further operations (merge of 3 / keeping duplicates / with itself, diff in
both directions, a view of a view, FieldDataComparator, ExactEquality / FuzzyEquality / one ScaledTolerance object in two
predicates) and a catalogue of CLI option combinations (file / dir mode, --diff, erroring runs, PYTHONHASHSEED).
"""
from __future__ import annotations
import contextlib
import copy
import hashlib
import io
import os
import shutil
import subprocess
import sys
import tempfile
import warnings
import xml.etree.ElementTree as ET

import numpy as np

from fcv import meshgen, predio, core
from fcv import c19_xhist_p6g as xhist
from fcv.num import next_up

MESHIO_UP = {"vertex": "VERTEX", "line": "LINE", "triangle": "TRIANGLE", "quad": "QUAD", "tetra": "TETRA",
             "hexahedron": "HEXAHEDRON", "polygon": "POLYGON", "pyramid": "PYRAMID", "pixel": "PIXEL", "voxel": "VOXEL"}
VIEWS = ("sort", "sortpoints", "sortcells", "strip")


def _quiet():
    stack = contextlib.ExitStack()
    stack.enter_context(warnings.catch_warnings())
    warnings.simplefilter("ignore")
    stack.enter_context(np.errstate(all="ignore"))
    return stack


# ---------------------------------------------------------------- objects and their slots

def slots_of(obj, kind):
    """slot key -> getter; keys as printed by the Lean driver"""
    out = {}
    if kind == "meshio":
        out["P"] = lambda: obj.points
        for k, blk in enumerate(obj.cells):
            out[f"K:{MESHIO_UP[blk.type]}"] = (lambda k=k: obj.cells[k].data)
        for name in obj.point_data:
            out[f"F:{meshgen._tok(name)}"] = (lambda n=name: obj.point_data[n])
        for name, blocks in obj.cell_data.items():
            for k in range(len(blocks)):
                out[f"C:{meshgen._tok(name)}:{MESHIO_UP[obj.cells[k].type]}"] = (lambda n=name, k=k: obj.cell_data[n][k])
        return out
    from fieldcompare.mesh._mesh_fields import remove_cell_type_suffix
    out["P"] = lambda: obj.domain.points
    for ct in obj.domain.cell_types:
        out[f"K:{ct.name}"] = (lambda ct=ct: obj.domain.connectivity(ct))
    for f in obj.point_fields:
        out[f"F:{meshgen._tok(f.name)}"] = (lambda n=f.name: next(g.values for g in obj.point_fields if g.name == n))
    for f, ct in obj.cell_fields_types:
        out[f"C:{meshgen._tok(remove_cell_type_suffix(ct, f.name))}:{ct.name}"] = \
            (lambda n=f.name: next(g.values for g, _ in obj.cell_fields_types if g.name == n))
    return out


def shares(a, b) -> bool:
    return bool(a.size and b.size and np.shares_memory(a, b))


def access_twice(obj, kind):
    """slot key -> (array of 1st access, stored?: do two accesses hand out the same memory; None if empty)"""
    out = {}
    for key, get in slots_of(obj, kind).items():
        a1 = np.asarray(get())
        a2 = np.asarray(get())
        out[key] = (a1, (shares(a1, a2) if a1.size else None))
    return out


def enc_initial(obj, kind, first_id):
    """protocol encoding of an initial (all-stored) object; returns (text, {slotkey: id}, arrays by id) or None"""
    acc = access_twice(obj, kind)
    ids, arrs = {}, {}
    nid = first_id

    def slot(key):
        nonlocal nid
        a, stored = acc[key]
        if stored is False:
            return "c"
        ids[key] = nid
        arrs[nid] = a
        nid += 1
        return f"s{ids[key]}"
    dim = int(acc["P"][0].shape[1]) if acc["P"][0].ndim == 2 else 1
    toks = [str(dim), slot("P")]
    ks = [k for k in acc if k.startswith("K:")]
    toks.append(str(len(ks)))
    for k in ks:
        toks += [k[2:], slot(k)]
    fs = [k for k in acc if k.startswith("F:")]
    toks.append(str(len(fs)))
    for k in fs:
        tail = list(acc[k][0].shape[1:])
        toks += [k[2:], str(len(tail))] + [str(t) for t in tail] + [slot(k)]
    cs = [k for k in acc if k.startswith("C:")]
    toks.append(str(len(cs)))
    for k in cs:
        name, ct = k[2:].rsplit(":", 1)
        tail = list(acc[k][0].shape[1:])
        toks += [name, ct, str(len(tail))] + [str(t) for t in tail] + [slot(k)]
    return " ".join(toks), ids, arrs, nid


# ---------------------------------------------------------------- snapshots

def snap_arrays(held):
    return {k: (a.tobytes(), bool(a.flags.writeable)) for k, a in held.items()}


def snap_files(paths):
    out = {}
    for p in paths:
        with open(p, "rb") as fh:
            out[p] = (hashlib.blake2b(fh.read(), digest_size=12).hexdigest(), os.stat(p).st_mtime_ns)
    return out


def listing(d):
    out = []
    for root, dirs, files in os.walk(d):
        for f in files:
            out.append(os.path.relpath(os.path.join(root, f), d))
    return sorted(out)


# ---------------------------------------------------------------- generation of a history case

def gen_fields_simple(rng, lm):
    """p0.. / c0.. with distinct values, dtypes f64/f32/i32/i64, scalar / vector / tensor"""
    meshgen.add_fields(rng, lm, dtypes=("f64", "f64", "f32", "i32", "i64"))
    if not lm["pf"]:
        lm["pf"].append({"name": "p9", "dt": "f64", "tail": [], "v": [1.0 + 0.5 * i for i in range(len(lm["points"]))]})
    return lm


def well_separated(lm, margin=1e-5) -> bool:
    """every coordinate column: distinct values are further apart than margin*max|coordinate| (far outside the mesh
    tolerance 1e-8*max|coordinate|): the hypothesis under which fuzzy sorting is canonical (C02's `Sep`).  Meshes whose
    spacing is below their own tolerance are outside the data sets C19 quantifies over ("as in C02/C11")."""
    maxc = max([abs(c) for p in lm["points"] for c in p] + [0.0])
    for k in range(lm["dim"]):
        col = sorted({p[k] for p in lm["points"]})
        if any(b - a <= margin * maxc for a, b in zip(col, col[1:])):
            return False
    return True


def gen_base_mesh(rng, max_points=36, **kw):
    """meshgen mesh with the topological dimension drawn first (lines would dominate otherwise)"""
    want_topo = rng.choice([1, 2, 2, 2, 3, 3])
    best = None
    for _ in range(60):
        lm, mt = meshgen.gen_mesh(rng, max_cells_per_dir=rng.choice([1, 2, 2, 3]), fields=False, **kw)
        if len(lm["points"]) > max_points or not well_separated(lm):
            continue
        best = (lm, mt)
        if mt["topo"] == want_topo:
            break
    return best


def object_digest(obj):
    """bytes of everything a MeshFields object exposes: points, connectivity per type, point / cell field values"""
    dom = obj.domain
    parts = [("P", np.ascontiguousarray(np.asarray(dom.points)).tobytes())]
    for ct in dom.cell_types:
        parts.append(("K:" + ct.name, np.ascontiguousarray(np.asarray(dom.connectivity(ct))).tobytes()))
    for f in obj:
        v = np.asarray(f.values)
        parts.append(("F:" + f.name, str(v.dtype), v.shape, np.ascontiguousarray(v).tobytes()))
    return parts


def gen_structured_input(rng, kind=None):
    kind = kind or rng.choice(["S", "S", "R", "I"])
    d = rng.choice([1, 2, 2, 3])
    ext = [rng.randint(1, 2) for _ in range(d)] + [0] * (3 - d)
    if rng.random() < 0.3:
        rng.shuffle(ext)
    npts = (ext[0] + 1) * (ext[1] + 1) * (ext[2] + 1)
    ncells = max(ext[0], 1) * max(ext[1], 1) * max(ext[2], 1)
    spec = {"k": kind, "ext": ext}
    if kind == "I":
        spec["origin"] = [rng.choice([0.0, 1.0, -2.5]) for _ in range(3)]
        spec["spacing"] = [rng.choice([0.5, 1.0, 2.0]) for _ in range(3)]
    else:
        ords = [[rng.choice([0.0, 1.0]) + 1.0 * i + (0.25 * rng.random() if i else 0.0) for i in range(e + 1)] for e in ext]
        if kind == "R":
            spec["ords"] = ords
        else:
            spec["points"] = [[ords[0][i] + 0.1 * j, ords[1][j] + 0.05 * k, ords[2][k]]
                              for k in range(ext[2] + 1) for j in range(ext[1] + 1) for i in range(ext[0] + 1)]
    spec["pf"] = [100.0 + 1.5 * i for i in range(npts)]
    spec["cf"] = [7.0 + 2.0 * i for i in range(ncells)]
    return {"structured": spec, "role": "S-" + kind + str(d)}


def build_structured(spec):
    from fieldcompare.mesh import MeshFields, RectilinearMesh, StructuredMesh, ImageMesh
    k, ext = spec["k"], tuple(spec["ext"])
    if k == "R":
        mesh = RectilinearMesh(ext, tuple(np.array(o, dtype=np.float64) for o in spec["ords"]))
    elif k == "S":
        mesh = StructuredMesh(ext, np.array(spec["points"], dtype=np.float64))
    else:
        mesh = ImageMesh(ext, tuple(spec["origin"]), tuple(spec["spacing"]))
    cts = list(mesh.cell_types)
    return MeshFields(mesh, point_data={"sp": np.array(spec["pf"], dtype=np.float64)},
                      cell_data={"sc": [np.array(spec["cf"], dtype=np.float64) for _ in cts]})


def gen_history_case(rng, directed_image=False):
    """logical inputs + a list of abstract operations; operands are chosen at run time from the pool (index modulo,
    then the next pool object that fits the operation)"""
    a, mt = gen_base_mesh(rng, allow_duplicates=False)
    gen_fields_simple(rng, a)
    inputs = [{"lm": a, "role": "A"}]
    # B: the same data set stored differently (and sometimes slightly different values)
    b = meshgen.relabel(rng, a, extra_orphans=rng.choice([0, 0, 1]))
    if rng.random() < 0.4 and b["pf"]:
        f = rng.choice(b["pf"])
        if f["dt"] in ("f64", "f32"):
            f["v"] = [x * (1 + 1e-3) if rng.random() < 0.3 else x for x in f["v"]]
    inputs.append({"lm": b, "role": "B"})
    # C: a second piece for merge: all points duplicate / none / some
    c = copy.deepcopy(a)
    mode = rng.choice(["dup", "far", "half"])
    span = max([abs(x) for p in a["points"] for x in p] + [1.0])
    if mode == "far":
        c["points"] = [[x + 10 * span for x in p] for p in c["points"]]
    elif mode == "half":
        c["points"] = [[x + (10 * span if i % 2 else 0.0) for x in p] for i, p in enumerate(c["points"])]
    if rng.random() < 0.3 and c["cf"]:
        c["cf"] = []          # cell fields on one side only
    inputs.append({"lm": c, "role": "C-" + mode})
    # P: a pixel / voxel mesh (meshio conversion reorders its corners)
    for _ in range(60):
        p, pt = meshgen.gen_mesh(rng, max_cells_per_dir=2, allow_duplicates=False, fields=False, dims=(2, 3))
        if pt["style"] in ("pixel", "voxel") and well_separated(p):
            break
    gen_fields_simple(rng, p)
    inputs.append({"lm": p, "role": "P-" + pt["style"]})
    # S: a structured grid (curvilinear / rectilinear / image mesh object of the public API) with a point and a cell field
    if directed_image or rng.random() < 0.5:
        inputs.append(gen_structured_input(rng, kind="I" if directed_image else None))
    n = rng.randint(3, 8)
    ops = []
    for _ in range(n):
        name = rng.choice(["compare", "compare", "compare", "equals", "pred", "sort", "sortpoints", "sortcells", "strip",
                           "extend", "merge", "merge", "diff", "diff", "write", "tomeshio", "tomeshio", "frommeshio"])
        op = {"op": name, "x": rng.randrange(1000), "y": rng.randrange(1000)}
        if name == "compare":
            op["flags"] = [rng.random() < 0.15, rng.random() < 0.1, rng.random() < 0.15]   # noReorder, noOrphan, noDim
            op["reuse"] = rng.random() < 0.6
        if name == "extend":
            op["d"] = rng.choice([0, 1, 1, 2])     # dim + d (capped at 3); 0 = same dimension
        ops.append(op)
    case = {"kind": "history", "inputs": inputs, "ops": ops, "read_back": rng.random() < 0.35,
            "style": mt["style"]}
    if directed_image or rng.random() < 0.5:
        # an unrelated image file (with or without an orientation of its own) is read in between
        c_, s_ = 0.6, 0.8
        rot = [[c_, -s_, 0.0], [s_, c_, 0.0], [0.0, 0.0, 1.0]]
        case["distractions"] = {str(rng.randrange(len(ops))): {
            "ext": [rng.randint(1, 2), rng.randint(0, 2), 0], "origin": [0.5, -1.0, 2.0], "spacing": [1.0, 0.5, 2.0],
            "direction": rng.choice([rot, rot, None, [[0.0, 1.0, 0.0], [-1.0, 0.0, 0.0], [0.0, 0.0, 1.0]]])}}
    return case


# ---------------------------------------------------------------- running a history on the implementation

def suite_summary(suite):
    return [bool(suite.domain_equality_check), bool(suite), sorted((c.name, c.status.name) for c in suite)]


def new_comparator(a, b, flags):
    from fieldcompare.mesh import MeshFieldsComparator
    return MeshFieldsComparator(a, b, disable_mesh_reordering=flags[0], disable_orphan_point_removal=flags[1],
                                disable_space_dimension_matching=flags[2])


def call_comparator(cobj):
    """-> (summary, number of reordering callbacks)"""
    n = [0]

    def cb(_msg):
        n[0] += 1
    try:
        s = suite_summary(cobj(fieldcomp_callback=lambda _: None, reordering_callback=cb))
    except Exception as e:  # noqa: BLE001
        s = ["X", type(e).__name__, []]
    return s, n[0]


def stage_verdicts(a, b, flags):
    """domain-equality verdict of every rung, through the public API only (None = not computable)"""
    from fieldcompare.mesh import sort_points, sort_cells, strip_orphan_points, extend_space_dimension_to
    try:
        eq0 = bool(a.domain.equals(b.domain))
        ds, dr = int(a.domain.points.shape[1]), int(b.domain.points.shape[1])
        a1, b1 = a, b
        eq_ext = eq0
        if ds != dr and not flags[2]:
            a1, b1 = extend_space_dimension_to(max(ds, dr), a), extend_space_dimension_to(max(ds, dr), b)
            eq_ext = bool(a1.domain.equals(b1.domain))

        def perm(x):
            return sort_points(x if flags[1] else strip_orphan_points(x))
        a2, b2 = perm(a1), perm(b1)
        eq_perm = bool(a2.domain.equals(b2.domain))
        a3, b3 = sort_cells(a2), sort_cells(b2)
        eq_sortc = bool(a3.domain.equals(b3.domain))
        return {"dims": (ds, dr), "eq": (eq0, eq_ext, eq_perm, eq_sortc)}
    except Exception:  # noqa: BLE001
        return None


def exec_history(case, workroot, tag):
    """run the history; returns a record with everything observed (no judgement here)"""
    from fieldcompare.mesh import (sort, sort_points, sort_cells, strip_orphan_points, merge,
                                   extend_space_dimension_to, meshio_utils)
    from fieldcompare.io import write, read_field_data
    from fieldcompare.predicates import DefaultEquality
    outdir = os.path.join(workroot, f"{tag}_out")
    cwd = os.path.join(workroot, f"{tag}_cwd")
    indir = os.path.join(workroot, f"{tag}_in")
    for d in (outdir, cwd, indir):
        os.makedirs(d)
    rec = {"steps": [], "pool_kinds": [], "complaints": [], "ladder": [], "compare_keys": {}}
    pool = []          # (object, kind)
    with _quiet():
        for inp in case["inputs"]:
            pool.append((build_structured(inp["structured"]) if "structured" in inp else meshgen.to_fc(inp["lm"]), "mesh"))
        in_files = []
        if case.get("read_back"):
            # input *files*: written once, read back as additional shared objects
            for k in (0, 1):
                path = write(pool[k][0], os.path.join(indir, f"in{k}"))
                in_files.append(path)
                pool.append((read_field_data(path), "mesh"))
    rec["n_initial"] = len(pool)
    # what every initial object exposes through its public accessors (points, connectivity, field values), as bytes:
    # must be the same after every step, whatever else happened in the process in between
    digest0 = [object_digest(o) for o, _ in pool]
    rec["content_changed"] = []
    # tracked arrays of the initial objects
    held = {}
    enc, nid = [], 0
    init_ids = []
    for k, (o, kind) in enumerate(pool):
        text, ids, arrs, nid = enc_initial(o, kind, nid)
        enc.append(text)
        init_ids.append(ids)
        for i, a in arrs.items():
            held[("id", i)] = a
    rec["enc_objs"], rec["next"] = enc, nid
    rec["arr_by_id"] = {i: a for (_, i), a in held.items()}
    pred = DefaultEquality()
    cmp_cache = {}
    old = os.getcwd()
    os.chdir(cwd)
    try:
        for step, op in enumerate(case["ops"]):
            name = op["op"]
            mesh_idx = [i for i, (_, k) in enumerate(pool) if k == "mesh"]
            mio_idx = [i for i, (_, k) in enumerate(pool) if k == "meshio"]
            if name == "frommeshio" and not mio_idx:
                name = "tomeshio"
            i = mesh_idx[op["x"] % len(mesh_idx)]
            j = mesh_idx[op["y"] % len(mesh_idx)]
            if name in ("diff", "merge", "compare", "pred") and op["y"] % 4 != 0:
                # prefer a partner the operation is meaningful with (same space dimension / same number of cells);
                # the choice only steers the exploration
                def fits(k):
                    try:
                        pi, pk = pool[i][0].domain, pool[k][0].domain
                        if pi.points.shape[1] != pk.points.shape[1]:
                            return False
                        if name == "merge":
                            return True
                        if name == "diff":
                            with _quiet():
                                return bool(pi.equals(pk))
                        return [len(pi.connectivity(t)) for t in pi.cell_types] == [len(pk.connectivity(t)) for t in pk.cell_types]
                    except Exception:  # noqa: BLE001
                        return False
                start = op["y"] % len(mesh_idx)
                for off in range(len(mesh_idx)):
                    k = mesh_idx[(start + off) % len(mesh_idx)]
                    if (k != i or op["y"] % 5 == 0 or name == "diff") and fits(k):
                        j = k
                        break
            if name == "frommeshio":
                i = mio_idx[op["x"] % len(mio_idx)]
            dis = (case.get("distractions") or {}).get(str(step))
            if dis is not None:
                # something unrelated happens in the same process first: another file is read and thrown away
                with _quiet():
                    try:
                        from fcv import history_p5d
                        history_p5d.read_vti(dis["ext"], dis["origin"], dis["spacing"], dis.get("direction"))
                    except Exception as e:  # noqa: BLE001
                        rec["content_changed"].append(f"before step {step}: reading an unrelated .vti raised {type(e).__name__}")
                for k, inp in enumerate(case["inputs"]):
                    if "structured" in inp:
                        with _quiet():
                            twin = object_digest(build_structured(inp["structured"]))
                        if twin != digest0[k]:
                            rec["content_changed"].append(
                                f"before step {step}: a data set constructed exactly like input {k} ({inp['role']}) after "
                                f"reading an unrelated .vti file differs from the one constructed before")
            before_a = snap_arrays(held)
            before_f = snap_files(in_files)
            before_l = (listing(cwd), listing(outdir), listing(indir))
            res, ok, proto, extra = None, True, None, {}
            requested = []
            with _quiet():
                try:
                    if name == "compare":
                        key = (i, j, tuple(op["flags"]))
                        runs = []
                        if op["reuse"] and key in cmp_cache:
                            # an object that has already been called earlier in the history
                            s0, _ = call_comparator(cmp_cache[key])
                            runs.append(s0)
                        else:
                            cobj = new_comparator(pool[i][0], pool[j][0], op["flags"])
                            cmp_cache[key] = cobj
                            s1, n1 = call_comparator(cobj)
                            s2, n2 = call_comparator(cobj)         # the same object again, right away
                            runs += [s1, s2]
                            sv = stage_verdicts(pool[i][0], pool[j][0], op["flags"])
                            if sv is not None and s1[0] != "X" and s2[0] != "X":
                                rec["ladder"].append({"flags": op["flags"], "sv": sv, "runs": [(s1[0], n1), (s2[0], n2)]})
                        s3, _ = call_comparator(new_comparator(pool[i][0], pool[j][0], op["flags"]))   # a brand-new object
                        runs.append(s3)
                        rec["compare_keys"].setdefault(key, []).extend(runs)
                        proto = f"compare {i} {j}"
                    elif name == "equals":
                        extra["eq"] = bool(pool[i][0].domain.equals(pool[j][0].domain))
                        rec["compare_keys"].setdefault(("eq", i, j), []).append(extra["eq"])
                        proto = f"equals {i} {j}"
                    elif name == "pred":
                        vs = []
                        fj = {f.name: f.values for f in pool[j][0]}
                        for f in pool[i][0]:
                            if f.name in fj:
                                try:
                                    vs.append((f.name, bool(pred(f.values, fj[f.name]))))
                                except Exception as e:  # noqa: BLE001
                                    vs.append((f.name, type(e).__name__))
                        rec["compare_keys"].setdefault(("pred", i, j), []).append(vs)
                        fresh_vs = []
                        for f in pool[i][0]:
                            if f.name in fj:
                                try:
                                    fresh_vs.append((f.name, bool(DefaultEquality()(f.values, fj[f.name]))))
                                except Exception as e:  # noqa: BLE001
                                    fresh_vs.append((f.name, type(e).__name__))
                        rec["compare_keys"][("pred", i, j)].append(fresh_vs)
                        proto = f"pred {i} {j}"
                    elif name in VIEWS:
                        fn = {"sort": sort, "sortpoints": sort_points, "sortcells": sort_cells, "strip": strip_orphan_points}[name]
                        proto = f"{name} {i}"
                        res = (fn(pool[i][0]), "mesh")
                        res[0].domain.points  # noqa: B018  (force one access; construction is eager anyway)
                    elif name == "extend":
                        d0 = int(pool[i][0].domain.points.shape[1])
                        d = min(3, d0 + op["d"])
                        proto = f"extend {i} {d}"
                        r = extend_space_dimension_to(d, pool[i][0])
                        res = (r, "mesh")
                    elif name == "merge":
                        pa = np.asarray(pool[i][0].domain.points)
                        pb = np.asarray(pool[j][0].domain.points)
                        sa = {tuple(p) for p in pa.tolist()}
                        lb = [tuple(p) for p in pb.tolist()]
                        if len(set(lb)) != len(lb):
                            all_dup = None        # coincident points inside the second piece: not predicted
                        else:
                            all_dup = all(p in sa for p in lb)
                        extra["all_dup"] = all_dup
                        proto = f"merge {i} {j} {1 if all_dup else 0}"
                        res = (merge(pool[i][0], pool[j][0]), "mesh")
                    elif name == "diff":
                        proto = f"diff {i} {j}"
                        res = (pool[i][0].diff_to(pool[j][0]), "mesh")
                    elif name == "write":
                        proto = f"write {i}"
                        base = os.path.join(outdir, f"w{step}")
                        path = write(pool[i][0], base)
                        requested = [os.path.relpath(path, outdir)]
                    elif name == "tomeshio":
                        proto = f"tomeshio {i}"
                        res = (meshio_utils.to_meshio(pool[i][0]), "meshio")
                    elif name == "frommeshio":
                        proto = f"frommeshio {i}"
                        res = (meshio_utils.from_meshio(pool[i][0]), "mesh")
                except Exception as e:  # noqa: BLE001
                    ok, res = False, None
                    extra["exc"] = type(e).__name__
                acc = None
                same_as = None
                if ok and res is not None:
                    same = [k for k, (o, _) in enumerate(pool) if o is res[0]]
                    same_as = same if same else None
                    try:
                        acc = access_twice(res[0], res[1])
                    except Exception as e:  # noqa: BLE001
                        # e.g. sort_points of coincident orphan points raises on first access
                        ok, res, acc = False, None, None
                        extra["exc"] = "access:" + type(e).__name__
            after_a = snap_arrays(held)
            written = sorted(str(k) for k in before_a if before_a[k] != after_a[k])
            after_f = snap_files(in_files)
            after_l = (listing(cwd), listing(outdir), listing(indir))
            newfiles = {"cwd": [f for f in after_l[0] if f not in before_l[0]],
                        "out": [f for f in after_l[1] if f not in before_l[1]],
                        "in": [f for f in after_l[2] if f not in before_l[2]],
                        "gone": [f for k in range(3) for f in before_l[k] if f not in after_l[k]]}
            st = {"name": name, "proto": f"{1 if ok else 0} {proto}", "ok": ok, "written": written,
                  "files_changed": [p for p in before_f if before_f[p] != after_f[p]], "newfiles": newfiles,
                  "requested": requested, "extra": extra, "acc": acc, "same_as": same_as, "i": i, "j": j}
            rec["steps"].append(st)
            with _quiet():
                for k in range(rec["n_initial"]):
                    try:
                        now = object_digest(pool[k][0])
                    except Exception as e:  # noqa: BLE001
                        now = f"unreadable: {type(e).__name__}"
                    if now != digest0[k]:
                        rec["content_changed"].append(f"step {step} ({proto}): input object {k} no longer exposes the points / "
                                                      f"cells / values it had at the beginning")
                        digest0[k] = now
            if ok and res is not None:
                pool.append(res)
                for key, (a, _) in acc.items():
                    held[("res", step, key)] = a
        # at the end: every comparison once more with fresh objects (after all other operations)
        with _quiet():
            for key, runs in rec["compare_keys"].items():
                if key[0] == "eq":
                    runs.append(bool(pool[key[1]][0].domain.equals(pool[key[2]][0].domain)))
                elif key[0] != "pred":
                    s, _ = call_comparator(new_comparator(pool[key[0]][0], pool[key[1]][0], list(key[2])))
                    runs.append(s)
                    if key in cmp_cache:
                        s, _ = call_comparator(cmp_cache[key])      # and the long-lived object once more
                        runs.append(s)
    finally:
        os.chdir(old)
    rec["pool_kinds"] = [k for _, k in pool]
    return rec


# ---------------------------------------------------------------- judging a history against model and property

def parse_obj_desc(s):
    d = {}
    for part in s.split(","):
        if part.startswith("d") and ":" not in part:
            d["dim"] = int(part[1:])
        else:
            key, slot = part.rsplit(":", 1)
            d[key] = slot
    return d


def judge_history(ctx, case, rec, rep):
    """returns (complaints against the property, mismatches against the model)"""
    viol, mism = [], []
    steps = rec["steps"]
    # ---- the property itself, independent of the model
    for k, st in enumerate(steps):
        if st["written"]:
            viol.append(f"step {k} ({st['proto']}): arrays modified: {st['written'][:4]}")
        if st["files_changed"]:
            viol.append(f"step {k} ({st['proto']}): input files modified: {st['files_changed']}")
        nf = st["newfiles"]
        if nf["cwd"] or nf["in"] or nf["gone"] or sorted(nf["out"]) != sorted(st["requested"]):
            viol.append(f"step {k} ({st['proto']}): files created/removed {nf}, requested {st['requested']}")
    for key, runs in rec["compare_keys"].items():
        if any(r != runs[0] for r in runs):
            viol.append(f"repeated evaluation {key} disagrees: {runs[:4]}")
    viol += rec.get("content_changed", [])[:4]
    if rep is None:
        return viol, mism
    # ---- the model
    if rep.get("hyp") != "1":
        mism.append(f"history not well-formed for the model: {rep}")
        return viol, mism
    if not steps:
        return viol, mism
    wr = rep["wr"].split("/")
    res = rep["res"].split("/")
    files = rep["files"].split("/")
    if rep.get("untouched") != "1":
        mism.append("model: inputs not untouched")
    arr_by_id = dict(rec["arr_by_id"])
    for k, st in enumerate(steps):
        predicted_w = [] if wr[k] == "-" else wr[k].split(",")
        if bool(predicted_w) != bool(st["written"]):
            mism.append(f"step {k} ({st['proto']}): written set observed {st['written'][:4]} predicted {predicted_w}")
        if int(files[k]) != len(st["newfiles"]["out"]) + len(st["newfiles"]["cwd"]):
            mism.append(f"step {k} ({st['proto']}): files created {st['newfiles']}, model {files[k]}")
        if not st["ok"] or st["acc"] is None:
            if res[k] != "-" and st["ok"]:
                mism.append(f"step {k} ({st['proto']}): model predicts a result object, none observed")
            continue
        if st["name"] == "merge" and st["extra"].get("all_dup") is None:
            return viol, mism            # not predicted (coincident points inside the second piece): stop judging aliases
        if res[k].startswith("="):
            if st["same_as"] is None or int(res[k][1:]) not in st["same_as"]:
                mism.append(f"step {k} ({st['proto']}): model: returns pool object {res[k]}, observed same_as={st['same_as']}")
            continue
        if res[k] == "-":
            mism.append(f"step {k} ({st['proto']}): a result object observed, model predicts none")
            continue
        if st["same_as"] is not None:
            mism.append(f"step {k} ({st['proto']}): the operation returned pool object {st['same_as']} itself, model predicts a new object")
            continue
        desc = parse_obj_desc(res[k])
        dim = desc.pop("dim")
        acc = st["acc"]
        if set(desc) != set(acc):
            mism.append(f"step {k} ({st['proto']}): exposed arrays {sorted(acc)} vs model {sorted(desc)}")
            continue
        pshape = acc["P"][0].shape
        if len(pshape) == 2 and pshape[1] != dim:
            mism.append(f"step {k} ({st['proto']}): space dimension {pshape[1]} vs model {dim}")
        new_ids = {}
        for key, slot in desc.items():
            a, stored = acc[key]
            if not a.size:
                continue
            sharing = sorted(i for i, t in arr_by_id.items() if shares(a, t))
            # Only aliasing the model does NOT predict can threaten the property (a later write through the result
            # would reach a tracked array).  Sharing LESS than predicted (a defensive copy instead of a view) and
            # stored-vs-computed (caching) are implementation choices the property does not talk about.
            if slot == "c":
                if sharing:
                    mism.append(f"step {k} ({st['proto']}) slot {key}: model: computed on access; observed stored={stored} aliases={sharing}")
            else:
                sid = int(slot[1:])
                if sid in arr_by_id:
                    if not set(sharing) <= {sid}:
                        mism.append(f"step {k} ({st['proto']}) slot {key}: model: alias of array {sid}; observed stored={stored} aliases={sharing}")
                else:
                    if sharing:
                        mism.append(f"step {k} ({st['proto']}) slot {key}: model: new stored array; observed stored={stored} aliases={sharing}")
                    new_ids[sid] = a
        arr_by_id.update(new_ids)
    return viol, mism


def history_line(rec):
    return (f"c19hist {rec['next']} {len(rec['enc_objs'])} {' '.join(rec['enc_objs'])} "
            f"{len(rec['steps'])} {' '.join(st['proto'] for st in rec['steps'])}")


def ladder_lines(rec):
    out = []
    for l in rec["ladder"]:
        fl, sv = l["flags"], l["sv"]
        b = lambda x: "1" if x else "0"   # noqa: E731
        out.append(f"c19ladder {b(fl[0])} {b(fl[2])} {sv['dims'][0]} {sv['dims'][1]} 0 "
                   f"{b(sv['eq'][0])} {b(sv['eq'][1])} {b(sv['eq'][2])} {b(sv['eq'][3])} 2")
    return out


def eval_histories(ctx, cases, workroot, base=0):
    recs = []
    for n, c in enumerate(cases):
        recs.append(exec_history(c, workroot, f"h{base + n}"))
        shutil.rmtree(os.path.join(workroot, f"h{base + n}_out"), ignore_errors=True)
        shutil.rmtree(os.path.join(workroot, f"h{base + n}_cwd"), ignore_errors=True)
        shutil.rmtree(os.path.join(workroot, f"h{base + n}_in"), ignore_errors=True)
    lines = [history_line(r) for r in recs]
    lad = [ladder_lines(r) for r in recs]
    flat = [l for ls in lad for l in ls]
    replies = ctx.lean(lines + flat) if ctx.driver_ok else [None] * (len(lines) + len(flat))
    hrep, lrep = replies[:len(lines)], replies[len(lines):]
    k = 0
    for c, rec, rep, ls in zip(cases, recs, hrep, lad):
        viol, mism = judge_history(ctx, c, rec, rep)
        for l, line in zip(rec["ladder"], ls):
            r = lrep[k]; k += 1
            obs = ",".join(f"{'1' if ok else '0'}:{n}" for ok, n in l["runs"])
            if r is not None and r.get("model") != obs:
                mism.append(f"comparator ladder: observed (ok:callbacks per run) {obs}, model {r.get('model')} for {line}")
            if r is not None and r.get("verdicts") != r.get("spec"):
                ctx.inconsistent({"ladder": line}, r.get("verdicts"), r.get("spec"))
        names = [st["name"] for st in rec["steps"]]
        tags = ["history", f"len-{len(names)}", f"style-{c['style']}"] + [f"op-{n}" for n in set(names)] + \
               [f"raised-{st['name']}" for st in rec["steps"] if not st["ok"]] + \
               (["with-input-files"] if c.get("read_back") else []) + \
               [f"ladder-runs-{len(rec['ladder'])}"] + \
               [f"alias-returned-same-object" for st in rec["steps"] if st["same_as"] is not None]
        nontriv = any(st["ok"] and st["acc"] is not None for st in rec["steps"]) and len(names) >= 2
        ctx.case(("history", history_line(rec)), nontrivial=nontriv, tags=tags,
                 sample={"ops": [st["proto"] for st in rec["steps"]], "lean": {k2: v[:200] for k2, v in (rep or {}).items()}})
        if viol:
            ctx.violation(c, {"complaints": viol[:5]}, "no input modified, only requested files written, repeated runs agree",
                          what=viol[0])
        if mism:
            ctx.mismatch(c, {"observed": mism[:5]}, {"model": (rep or {}).get("res", "")[:500]}, what=mism[0])


def property_complaints(case, workroot, tag):
    rec = exec_history(case, workroot, tag)
    for d in ("_out", "_cwd", "_in"):
        shutil.rmtree(os.path.join(workroot, tag + d), ignore_errors=True)
    viol, _ = judge_history(None, case, rec, None)
    return viol


def shrink_history(case, workroot):
    """smallest sub-history that still violates the property: a single operation, else the shortest prefix"""
    ops = case["ops"]
    n = 0
    for k in range(len(ops)):
        n += 1
        c2 = dict(case, ops=[ops[k]])
        if case.get("distractions"):
            first = [d for i, d in sorted(case["distractions"].items(), key=lambda t: int(t[0])) if int(i) <= k]
            c2["distractions"] = {"0": first[0]} if first else {}
        if property_complaints(c2, workroot, f"s{n}"):
            return c2
    for k in range(1, len(ops)):
        n += 1
        c2 = dict(case, ops=ops[:k])
        if case.get("distractions"):
            c2["distractions"] = {i: d for i, d in case["distractions"].items() if int(i) < k}
        if property_complaints(c2, workroot, f"s{n}"):
            return c2
    return case


# ---------------------------------------------------------------- predicate histories

MAGS = [1e-9, 1e-4, 1.0, 3.0, 1e3, 1e7, 1e12]


def gen_pred_case(rng):
    kind = rng.choice(["fuzzy", "default", "default", "default"])
    rel = rng.choice([["dflt"], ["num", 1e-9], ["num", 1e-6], ["num", 0.0], ["scaled", None], ["scaled", 1e-7]])
    abs_ = rng.choice([["num", 0.0], ["num", 1e-12], ["scaled", 1e-8], ["scaled", 1e-5], ["scomp", 1e-6], ["num", 1e-3]])
    events = []
    for _ in range(rng.randint(2, 8)):
        r = rng.random()
        if r < 0.12:
            events.append(["setrel", rng.choice([["num", 1e-9], ["num", 1e-3], ["scaled", 1e-7], ["num", 0.0]])])
            continue
        if r < 0.2:
            events.append(["setabs", rng.choice([["num", 0.0], ["num", 1e-6], ["scaled", 1e-8], ["scaled", 1e-3]])])
            continue
        mag = rng.choice(MAGS)
        n = rng.choice([1, 2, 3, 5, 9])
        form = rng.choice(["n", "n", "nk"])
        shape = [n] if form == "n" else [n, 2]
        size = n if form == "n" else 2 * n
        dt = "f64"
        if kind == "default" and rng.random() < 0.2:
            dt = rng.choice(["i32", "i64", "str"])
        elif rng.random() < 0.15:
            dt = "f32"
        if dt == "str":
            a = [rng.choice(["a", "b", "c"]) for _ in range(size)]
            b = list(a)
            if rng.random() < 0.4:
                b[rng.randrange(size)] = "z"
        elif dt in ("i32", "i64"):
            a = [rng.randint(-1000, 1000) for _ in range(size)]
            b = list(a)
            if rng.random() < 0.4:
                b[rng.randrange(size)] += 1
        else:
            a = [mag * rng.uniform(0.5, 2.0) * rng.choice([1, -1]) for _ in range(size)]
            if dt == "f32":
                a = [float(np.float32(x)) for x in a]
            b = list(a)
            r2 = rng.random()
            if r2 < 0.7:
                # deviation relative to this field's own magnitude: a tolerance remembered from a field of another
                # magnitude would flip the verdict
                k = rng.randrange(size)
                dev = rng.choice([1e-13, 1e-10, 1e-8, 1e-6, 1e-4, 1e-2])
                b[k] = a[k] * (1 + dev) + rng.choice([0.0, mag * dev])
                if dt == "f32":
                    b[k] = float(np.float32(b[k]))
            elif r2 < 0.8:
                b[rng.randrange(size)] = next_up(b[0], 1) if dt == "f64" else b[0]
        sb = list(shape)
        if form == "n" and rng.random() < 0.1:
            sb = [n, 1]
        events.append(["call", {"dt": dt, "shape": shape, "v": a}, {"dt": dt, "shape": sb, "v": b}])
    return {"kind": "pred-history", "pkind": kind, "rel": rel, "abs": abs_, "events": events}


def enc_pred_case(c):
    toks = ["c19pred", c["pkind"], predio.enc_tol(c["rel"]), predio.enc_tol(c["abs"]), str(len(c["events"]))]
    for ev in c["events"]:
        if ev[0] == "call":
            st = {}
            toks += ["call", predio.enc_arr(ev[1], st), predio.enc_arr(ev[2], st)]
        else:
            toks += [ev[0], predio.enc_tol(ev[1])]
    return " ".join(toks)


def run_pred_impl(c):
    """verdicts of (one shared object, a fresh object per call configured like the shared one at that moment)"""
    shared = predio.make_pred(c["pkind"], c["rel"], c["abs"])
    rel, abs_ = c["rel"], c["abs"]
    vs, fs = [], []
    with _quiet():
        for ev in c["events"]:
            if ev[0] == "setrel":
                rel = ev[1]
                shared.relative_tolerance = predio.impl_tol(rel) if rel[0] != "dflt" else shared.relative_tolerance
            elif ev[0] == "setabs":
                abs_ = ev[1]
                shared.absolute_tolerance = predio.impl_tol(abs_)
            else:
                vs.append(predio.run_impl(c["pkind"], rel, abs_, ev[1], ev[2], pred=shared))
                fs.append(predio.run_impl(c["pkind"], rel, abs_, ev[1], ev[2]))
    return "".join(v if len(v) == 1 else "X" for v in vs) or "-", "".join(v if len(v) == 1 else "X" for v in fs) or "-"


def eval_pred_cases(ctx, cases):
    lines = [enc_pred_case(c) for c in cases]
    replies = ctx.lean(lines) if ctx.driver_ok else [None] * len(cases)
    for c, line, rep in zip(cases, lines, replies):
        shared, fresh = run_pred_impl(c)
        ncalls = sum(1 for e in c["events"] if e[0] == "call")
        ctx.case(("pred", line), nontrivial=ncalls >= 2 and len(set(shared)) > 1,
                 tags=["pred-history", f"pred-{c['pkind']}", f"calls-{ncalls}", f"rel-{c['rel'][0]}", f"abs-{c['abs'][0]}"] +
                      (["with-setter"] if ncalls < len(c["events"]) else []),
                 sample={"case": {"pkind": c["pkind"], "rel": c["rel"], "abs": c["abs"], "n": len(c["events"])},
                         "impl": shared, "fresh": fresh, "lean": rep})
        if shared != fresh:
            ctx.violation(c, {"shared": shared, "fresh": fresh}, "a reused predicate object answers like a fresh one",
                          what="verdicts of a reused predicate object differ from those of fresh objects")
        if rep is not None:
            if "model" not in rep:
                ctx.inconsistent(c, str(rep), "bad-op")
                continue
            if rep["model"] != rep["spec"]:
                ctx.inconsistent(c, rep["model"], rep["spec"])
            if "X" not in shared and rep["model"] != shared:
                ctx.mismatch(c, shared, rep["model"], what="predicate history vs Fc.runPred")


# ---------------------------------------------------------------- other process

def junit_statuses(path):
    root = ET.parse(path).getroot()
    suites = [root] if root.tag == "testsuite" else list(root.iter("testsuite"))
    out = []
    for s in suites:
        for tc in s.iter("testcase"):
            out.append((tc.get("name"), tc.get("status")))
    return sorted(out)


def cli_inprocess(args):
    from fieldcompare._cli import main
    from fieldcompare._cli._logger import CLILogger
    buf = io.StringIO()
    with _quiet(), contextlib.redirect_stdout(buf), contextlib.redirect_stderr(buf):
        try:
            return int(main(args, CLILogger(output_stream=buf)))
        except SystemExit as e:
            return f"exit:{e.code}"
        except Exception as e:  # noqa: BLE001
            return f"X:{type(e).__name__}"


def cli_subprocess(args, cwd):
    env = dict(os.environ)
    env["PYTHONPATH"] = core.REPO + os.pathsep + env.get("PYTHONPATH", "")
    code = "import sys; from fieldcompare._cli import main; sys.exit(main(sys.argv[1:]))"
    p = subprocess.run([sys.executable, "-c", code] + args, cwd=cwd, env=env, stdout=subprocess.PIPE,
                       stderr=subprocess.PIPE, timeout=120)
    return p.returncode


def gen_process_case(rng):
    for _ in range(40):
        a, mt = meshgen.gen_mesh(rng, max_cells_per_dir=2, allow_duplicates=False, fields=False)
        if mt["style"] != "poly" and len(a["points"]) <= 30 and well_separated(a):
            break
    gen_fields_simple(rng, a)
    b = meshgen.relabel(rng, a)
    how = rng.choice(["same", "perturbed", "missing-field"])
    if how == "perturbed":
        for f in b["pf"] + b["cf"]:
            if f["dt"] in ("f64", "f32") and rng.random() < 0.6:
                f["v"] = [x * (1 + rng.choice([1e-12, 1e-4])) for x in f["v"]]
    elif how == "missing-field" and b["pf"]:
        b["pf"] = b["pf"][1:]
    return {"kind": "process", "a": a, "b": b, "how": how}


def eval_process_case(ctx, c, workroot, tag):
    from fieldcompare.io import write
    from fieldcompare.mesh import sort, merge, meshio_utils
    d = os.path.join(workroot, tag)
    os.makedirs(d)
    complaints = []
    try:
        with _quiet():
            A, B = meshgen.to_fc(c["a"]), meshgen.to_fc(c["b"])
            fa, fb = write(A, os.path.join(d, "res")), write(B, os.path.join(d, "ref"))
        before = snap_files([fa, fb])
        j1, j2, j3 = (os.path.join(d, f"j{k}.xml") for k in (1, 2, 3))
        rc1 = cli_inprocess(["file", fa, fb, "--junit-xml", j1])
        # other public operations on objects read from the same files in between
        with _quiet():
            from fieldcompare.io import read_field_data
            X, Y = read_field_data(fa), read_field_data(fb)
            try:
                sort(X).diff_to(sort(Y))
                meshio_utils.to_meshio(X)
                merge(X, Y)
            except Exception:  # noqa: BLE001
                pass
        rc2 = cli_inprocess(["file", fa, fb, "--junit-xml", j2])
        rc3 = cli_subprocess(["file", fa, fb, "--junit-xml", j3], cwd=d)
        after = snap_files([fa, fb])
        if before != after:
            complaints.append("input files modified by comparing them")
        files = sorted(os.listdir(d))
        expected = sorted([os.path.basename(p) for p in (fa, fb, j1, j2, j3)])
        if files != expected:
            complaints.append(f"files in the directory {files}, expected only the inputs and the requested reports {expected}")
        if not (rc1 == rc2 == rc3):
            complaints.append(f"exit codes differ: in-process {rc1}, in-process again {rc2}, other process {rc3}")
        sts = []
        for j in (j1, j2, j3):
            sts.append(junit_statuses(j) if os.path.exists(j) else None)
        if not (sts[0] == sts[1] == sts[2]):
            complaints.append(f"per-field statuses differ between runs/processes: {sts[0]} / {sts[1]} / {sts[2]}")
        ctx.case(("process", repr(c)[:300], rc1), nontrivial=True, tags=["other-process", f"process-{c['how']}", f"exit-{rc1}"],
                 sample={"how": c["how"], "rc": [rc1, rc2, rc3], "statuses": (sts[0] or [])[:3]})
        if complaints:
            ctx.violation(c, {"complaints": complaints}, "same verdict and statuses in every run and process; inputs untouched",
                          what=complaints[0])
    finally:
        shutil.rmtree(d, ignore_errors=True)


# ---------------------------------------------------------------- driver of the check

def run(ctx):
    ctx.rule = ("cases: (i) histories of 3-8 public operations on a shared pool of 4-6 data sets (a mesh, a relabeled copy, a second "
                "piece, a pixel/voxel mesh, optionally a structured / rectilinear / image grid object, optionally the same data read back "
                "from files; optionally an unrelated .vti file with an orientation of its own is read between two steps) — every step "
                "re-reads everything the initial objects expose (points, cells, values) and snapshots all tracked "
                "arrays/files/directories and records stored/computed + alias sets of every exposed result array; (ii) histories of "
                "2-8 events on one predicate object (calls on fields of magnitude 1e-9..1e12, dtypes f64/f32/int/str, tolerance "
                "setters); (iii) CLI comparisons in-process twice and in a subprocess; (iv) extended histories (search only, "
                "fcv/c19_xhist_p6g.py): tabular data (index maps, shared arrays, .csv files; FieldDataComparator, shared predicate "
                "objects, diff both ways, transform, write), meshes stored read-only / strided / Fortran / narrow / big-endian / with "
                "shared arrays / NaN-inf values under merge(3 operands, keep duplicates, self), diff both ways, views of views, meshio "
                "round trips, sequences (.pvd, XDMF: abandoned / repeated iteration, kept steps, re-opened files), CLI option "
                "catalogue in file and dir mode incl. --diff and erroring runs, twice in-process + subprocess with fixed "
                "PYTHONHASHSEED, listings of cwd / source / reference / output / TMPDIR. non-trivial = a history with >= 2 steps and a "
                "result object / a predicate history with >= 2 calls and both verdicts occurring; distinct = distinct protocol line")
    ctx.assumptions += [
        "effect summaries (reads/writes/fresh/aliases per public operation) are hand-written from the code; their tie to the code is this snapshot correspondence",
        "absence of writes is observed on tracked arrays (every array reachable through the public accessors of every pool object), not on private temporaries",
        "'writes nothing except the requested files' and 'in another process' are observed on every explored history, not proved",
        "comparator re-run theorem assumes verdict-level idempotence of strip/sort_points/sort_cells/extend (LadderFacts); validated by the observed re-runs only",
    ]
    rng = ctx.rng
    workroot = tempfile.mkdtemp(prefix="fcv_c19_")
    try:
        n_hist = ctx.scale(140, 12000)
        CH = 70
        for i in range(0, n_hist, CH):
            # every 10th history is directed: an image grid of the API in the pool AND an unrelated .vti read in between
            cases = [gen_history_case(rng, directed_image=(k % 10 == 3)) for k in range(min(CH, n_hist - i))]
            eval_histories(ctx, cases, workroot, base=i)
        cases = [gen_pred_case(rng) for _ in range(ctx.scale(500, 20000))]
        eval_pred_cases(ctx, cases)
        for k in range(ctx.scale(8, 150)):
            eval_process_case(ctx, gen_process_case(rng), workroot, f"p{k}")
        # phase 6 (G2): extended histories — tabular data, sequences, storage forms, CLI option combinations (search)
        xhist.run_all(ctx, sys.modules[__name__])
        # shrink the first few history violations (the first one becomes the replay)
        for v in ctx.spec_viol[:3]:
            if isinstance(v.get("case"), dict) and v["case"].get("kind") == "history":
                try:
                    v["case"] = shrink_history(v["case"], workroot)
                except Exception:  # noqa: BLE001
                    pass
    finally:
        shutil.rmtree(workroot, ignore_errors=True)
    ctx.spec_viol = ctx.spec_viol[:30]
    ctx.corr_mismatch = ctx.corr_mismatch[:30]


# ---------------------------------------------------------------- replay

def _replay_case(ctx, c):
    n0 = (len(ctx.spec_viol), len(ctx.corr_mismatch), len(ctx.internal))
    root = tempfile.mkdtemp(prefix="fcv_c19_")
    try:
        kind = c.get("kind")
        if kind == "history":
            eval_histories(ctx, [c], root)
        elif kind == "pred-history":
            eval_pred_cases(ctx, [c])
        elif kind == "process":
            eval_process_case(ctx, c, root, "p")
        elif kind == "xhist":
            xhist.eval_case(ctx, c, sys.modules[__name__], do_shrink=False)
        else:
            raise ValueError(f"unknown case kind {kind!r}")
    finally:
        shutil.rmtree(root, ignore_errors=True)
    return ctx.spec_viol[n0[0]:] + ctx.corr_mismatch[n0[1]:] + ctx.internal[n0[2]:]


def replay_witness(ctx, entry):
    w = entry["witness"]
    if isinstance(w, dict) and "fn" in w:
        return core.run_named_witness(entry)
    found = _replay_case(ctx, w)
    return bool(found), found[:1]


def replay(ctx, payload):
    c = payload.get("case") or (payload.get("first_mismatch") or {}).get("case")
    if c is None:
        print("replay: no case in the payload (broken proof / driver build): re-run the check")
        return 2
    found = _replay_case(ctx, c)
    if found:
        print(f"replay: still failing: {str(found[0])[:800]}")
        print(f"VIOLATION property=C19 replay={payload.get('_path', '<replay>')}")
        return 1
    print("replay: the case passes now")
    return 0
