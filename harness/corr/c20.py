"""C20 — the JUnit report agrees with the verdict.

Correspondence (implementation vs the Lean models `Fc.Cli.fileReport` / `Fc.Cli.dirReport`):
  `fieldcompare._cli.main(["file"|"dir", …, "--junit-xml", F])` in-process on generated files / directory trees;
  observable = (exit code | raised, report) with the report parsed by ElementTree and canonicalised to
  sorted suites (name, [tests, failures, errors, skipped], sorted (test-case name, kind)).
  Plus the exhaustive status -> child-elements table of `_add_test_case`.
Search: the implementation's own (exit, report) against what C20 demands (`cli_scen.py_report_check`: report exists
and is well-formed, counts match the test cases, failure/error shown iff exit status non-zero; skipped entries exactly
the ignored-missing / filtered fields).  Violations inside the class of finding F5 (run fails although no report can be
written, or fails by the suite's own status while no test case fails) are classified cls="F5" — only when the violated
clauses are the two F5 speaks about (no report / non-zero exit without failure or error); a report that is not
well-formed or whose counts are wrong is never inside that class.

Phase 5 (`fcv/junit_p5c.py`, wrapping cli_scen): the whole run is made under `junit_p5c.strict()` — well-formedness is
strict XML 1.0 (no character outside the `Char` production, e.g. no raw ESC of a colour sequence; expat + minidom must
accept the bytes), the name pools contain XML-special / non-ASCII field names — and a directed batch in BOTH modes has
data sets with EMPTY fields (tables without rows: header-only CSV files; on both sides = a passing comparison of empty
arrays, on one side = unequal domains), to which the unchanged checks apply."""
from __future__ import annotations
import io

from fcv import cli_scen as cs
from fcv import junit_p5c as jp
from fcv import c20_batches_p6g as p6g

WHAT = "JUnit report does not agree with the exit status"


def children_table(ctx):
    import xml.etree.ElementTree as ET
    from fieldcompare._cli._junit import as_junit_xml_element
    from fieldcompare._cli._test_suite import TestStatus, TestSuite, TestResult
    lines, impls, cases = [], [], []
    for st in TestStatus:
        el = as_junit_xml_element(TestSuite([TestResult("t", st, "", "out", None)], name="s"), "ts")
        tc = [e for e in el if e.tag == "testcase"][0]
        tags = [c.tag for c in tc if c.tag != "system-out"]
        lines.append(f"jchildren {st.name}")
        impls.append(",".join(tags) if tags else "-")
        cases.append({"op": "_add_test_case", "status": st.name})
        # property-level check on this one-test suite: counts vs kind
        kind = cs.case_kind(tc)
        counts = [int(el.attrib[k]) for k in ("tests", "failures", "errors", "skipped")]
        want = [1, int(kind == "failure"), int(kind == "error"), int(kind == "skipped")]
        if counts != want:
            ctx.violation(cases[-1], counts, want, what="count attributes do not match the single test case")
    reps = ctx.lean(lines) if ctx.driver_ok else [None] * len(lines)
    for c, impl, rep in zip(cases, impls, reps):
        ctx.case(("children", c["status"]), nontrivial=True, tags=["children-table"])
        if rep is not None and rep.get("model") != impl:
            ctx.mismatch(c, impl, rep.get("model", rep))


def _strip(rep):
    """report without the suite names (they contain the temporary directory)"""
    return [s[1:] for s in rep] if isinstance(rep, list) else rep


def _cls(f5):
    return "F5" if f5 is True else None


F5_CLAUSES = {"no report file was written", "exit status non-zero but no failure/error in the report"}


def _within_f5(bad) -> bool:
    """the F5 class is about a failing run whose report is missing or shows no failure/error — nothing else"""
    return all(b in F5_CLAUSES for b in bad)


def _run_file(sc, wd):
    """phase-6 directed scenarios carry run options (file names, --diff, stale report, an earlier run at the same paths)"""
    return p6g.run_file(sc, wd) if sc.get("p6g") is not None else cs.run_file_scenario(sc, wd, junit=True)


def _run_dir(d, wd):
    return p6g.run_dir(d, wd) if d.get("p6g") is not None else cs.run_dir_scenario(d, wd)


def evaluate_files(ctx, items, wd):
    runs = [_run_file(sc, wd) for sc, _ in items]
    lines = [cs.cli_line("junit", cs.abstract(sc, r["parts"])) for (sc, _), r in zip(items, runs)]
    reps = ctx.lean(lines) if ctx.driver_ok else [None] * len(lines)
    for (sc, tags), r, line, rep in zip(items, runs, lines, reps):
        oc = cs.outcome_class(r["out"])
        ev = cs.py_eval(sc)
        tags = ["file-mode"] + list(tags) + ["exit-" + oc, "report-" + ("none" if r["rep"] is None else "yes")]
        if not r["readok"]:
            ctx.case(line, nontrivial=False, tags=tags + ["discarded-reader-sidecheck"])
            continue
        bad = cs.py_report_check(oc, r["rep"])
        ctx.case(line, nontrivial=len(tags) > 5, tags=tags + (["property-violated"] if bad else []),
                 sample={"options": cs.option_argv(sc), "tags": tags, "impl": [r["out"], r["rep"]], "lean": rep})
        hyp, lean_cls, xskip = False, None, None
        if rep is not None:
            if "model" not in rep:
                ctx.inconsistent(sc, str(rep), "bad-op")
            else:
                hyp = rep["hyp"] == "1"
                ctx.dist["hyp-" + rep["hyp"]] += 1
                if hyp:
                    mex, mrep = cs.parse_model_report(rep["model"])
                    if mex != oc or mrep != r["rep"]:
                        r2 = _run_file(sc, wd)
                        if cs.outcome_class(r2["out"]) != oc or _strip(r2["rep"]) != _strip(r["rep"]):
                            ctx.dist["impl-nonreproducible"] += 1
                            ctx.notes.append("implementation outcome not reproducible on immediate re-run: "
                                             f"first={r['out']} second={r2['out']} options={cs.option_argv(sc)}")
                            continue
                        ctx.mismatch(sc, [r["out"], r["rep"]], [mex, mrep])
                    lean_cls = rep.get("cls")
                    # theorem re-checks: skipped entries of the model = the spec's; spec verdict vs class
                    if rep.get("skip") == "0":
                        ctx.inconsistent(sc, "skipped test cases of the model", "expectedSkipped xskip=" + rep.get("xskip", "?"))
                    if rep.get("spec") == "0" and lean_cls != "F5":
                        ctx.inconsistent(sc, "model report violates C20 outside the F5 class", rep["model"])
                    if rep.get("spec") == "1" and lean_cls == "F5" and mex != "0":
                        ctx.inconsistent(sc, "model report satisfies C20 inside the F5 class", rep["model"])
                    if ev["f5"] is not None and (lean_cls == "F5") != ev["f5"]:
                        ctx.inconsistent(sc, "lean-class=" + str(lean_cls), "python-class-F5=" + str(ev["f5"]))
                    if rep.get("xskip") not in (None, "-"):
                        xskip = sorted(cs.unesc(x) for x in rep["xskip"].split(",")) if rep["xskip"] != "empty" else []
        # search: the implementation against the property
        if bad:
            if not hyp and ev["f5"] is None:
                # outside the model's hypotheses and undecided by the python evaluation (exotic tolerance values,
                # mesh tolerance comparable to the point spacing): the class of the run cannot be determined
                ctx.dist["unclassified-outside-hyp"] += 1
                continue
            cls = "F5" if (lean_cls == "F5" if hyp else ev["f5"] is True) and _within_f5(bad) else None
            if cls is None:
                r2 = _run_file(sc, wd)
                if cs.outcome_class(r2["out"]) != oc or _strip(r2["rep"]) != _strip(r["rep"]):
                    ctx.dist["impl-nonreproducible"] += 1
                    ctx.notes.append("implementation outcome not reproducible on immediate re-run: "
                                     f"first={r['out']} second={r2['out']} options={cs.option_argv(sc)}")
                    continue
            ctx.violation(sc, [r["out"], r["rep"]], "; ".join(bad), cls=cls, what=WHAT)
            continue
        want_skip = cs.py_expected_skipped(sc)
        got_skip = sorted(n for _, _, cases in (r["rep"] or []) for n, k in cases if k == "skipped")
        for want, src in ((want_skip, "python"), (xskip if hyp else None, "lean")):
            if want is not None and want != got_skip:
                ctx.violation(sc, got_skip, want, cls=None,
                              what=f"skipped entries are not exactly the ignored/filtered fields ({src} oracle)")
                break


def _canon_dummy_names(rep, cat):
    """The NAME of the dummy test case that `_add_skipped_file_comparisons` writes for a file that was not compared
    (missing / unsupported / filtered) is display text; C20 speaks about its kind and the counts only."""
    if rep in (None, "malformed"):
        return rep
    dummies = set(cat["missing_src"]) | set(cat["missing_ref"]) | set(cat["unsupported"]) | set(cat["discarded"])
    return sorted([name, counts, [["<file>", kind] for _, kind in cases] if (name in dummies and len(cases) == 1) else cases]
                  for name, counts, cases in rep)


def evaluate_dirs(ctx, items, wd):
    runs = [_run_dir(d, wd) for d, _ in items]
    lines = [cs.dir_line(d, r["resdir"]) for (d, _), r in zip(items, runs)]
    reps = ctx.lean(lines) if ctx.driver_ok else [None] * len(lines)
    for (d, tags), r, line, rep in zip(items, runs, lines, reps):
        oc = cs.outcome_class(r["out"])
        tags = ["dir-mode"] + sorted(set(tags)) + ["exit-" + oc]
        if not r["readok"]:
            ctx.case(line, nontrivial=False, tags=tags + ["discarded-reader-sidecheck"])
            continue
        bad = cs.py_report_check(oc, r["rep"])
        cat = cs.dir_categories(d)
        ctx.case(line, nontrivial=len(d["files"]) > 0, tags=tags + (["property-violated"] if bad else []),
                 sample={"tags": tags, "impl": [r["out"], r["rep"]], "lean": rep})
        hyp, lean_cls = False, None
        evs = [cs.py_eval(f["sc"]) for f in cat["compared"]]
        py_f5 = True if any(e["f5"] is True for e in evs) else (None if any(e["f5"] is None for e in evs) else False)
        if cs.py_parse_tols(d["opts"]["rtol"], False) is None or cs.py_parse_tols(d["opts"]["atol"], True) is None:
            py_f5 = True
        if rep is not None:
            if "model" not in rep:
                ctx.inconsistent(d, str(rep), "bad-op")
            else:
                hyp = rep["hyp"] == "1"
                ctx.dist["hyp-" + rep["hyp"]] += 1
                if hyp:
                    mex, mrep = cs.parse_model_report(rep["model"])
                    if mex != oc or _canon_dummy_names(mrep, cat) != _canon_dummy_names(r["rep"], cat):
                        ctx.mismatch(d, [r["out"], r["rep"]], [mex, mrep])
                    lean_cls = rep.get("cls")
                    if rep.get("spec") == "0" and lean_cls != "F5":
                        ctx.inconsistent(d, "model report violates C20 outside the F5 class", rep["model"])
                    if py_f5 is not None and (lean_cls == "F5") != py_f5:
                        ctx.inconsistent(d, "lean-class=" + str(lean_cls), "python-class-F5=" + str(py_f5))
        if bad:
            if not hyp and py_f5 is None:
                ctx.dist["unclassified-outside-hyp"] += 1
                continue
            cls = "F5" if (lean_cls == "F5" if hyp else py_f5 is True) and _within_f5(bad) else None
            ctx.violation(d, [r["out"], r["rep"]], "; ".join(bad), cls=cls, what=WHAT + " (directory mode)")
            continue
        # one suite per file: every file the harness created and that is not silently filtered shows up once
        if r["rep"] not in (None, "malformed"):
            want_n = len(cat["compared"]) + len(cat["missing_src"]) + len(cat["missing_ref"]) + \
                len(cat["unsupported"]) + len(cat["discarded"])
            if len(r["rep"]) != want_n:
                ctx.violation(d, len(r["rep"]), want_n, cls=None, what="number of suites differs from the number of files")


def run(ctx):
    ctx.rule = ("cases = file-mode scenarios of C04 run with --junit-xml, and directory-mode runs over generated trees "
                "(0-5 relative paths in up to two sub-directory levels: pairs of tables (.csv / .tbl) with edits, one-sided "
                "files, unsupported files, files removed by --include/--exclude-files; all flag combinations); plus a directed "
                "batch in both modes with tables WITHOUT rows (header-only files) on both sides / one side; field names "
                "include XML-special and non-ASCII characters; "
                "non-trivial = file scenario with an edit/damage/flag tag resp. a tree with at least one file; "
                "distinct = distinct protocol line")
    ctx.assumptions += [
        "well-formedness = the bytes of the report decode in the declared encoding, contain only characters of the XML 1.0 "
        "Char production (also through character references), and expat, minidom and ElementTree parse them",
        "a header-only CSV file is a table without rows whose columns are empty non-float arrays (side-checked on every "
        "such file through the public reader; modelled as empty i64 columns: exact comparison)",
        "a JUnit consumer classifies a test case by its children: error > failure > skipped > passed",
        "directory categories (compared / missing / unsupported / filtered) are the ground truth of the tree the harness "
        "created, with the real fnmatch; os.walk is trusted",
        "all assumptions of C04 (readers, float(), fnmatch, mesh alignment inside meshHyp, numeric verdict of cluster A)",
    ]
    children_table(ctx)
    with jp.strict() as st:
        _run_scenarios(ctx)
    ctx.extra["reports_checked_strictly"] = st.n_checked
    for why in st.reasons:
        ctx.notes.append("report rejected by the strict XML 1.0 check: " + why)


def _run_scenarios(ctx):
    wd = cs.Workdir()
    try:
        n_file = ctx.scale(900, 40000)
        n_dir = ctx.scale(220, 8000)
        CH = 300
        done = 0
        while done < n_file:
            items = [cs.gen_scenario(ctx.rng) for _ in range(min(CH, n_file - done))]
            evaluate_files(ctx, items, wd)
            done += len(items)
        done = 0
        while done < n_dir:
            items = [cs.gen_dir_scenario(ctx.rng) for _ in range(min(100, n_dir - done))]
            evaluate_dirs(ctx, items, wd)
            done += len(items)
        # phase 5, directed: data sets with empty fields (tables without rows) in both modes
        evaluate_files(ctx, [jp.gen_empty_file_scenario(ctx.rng, k) for k in range(ctx.scale(60, 2000))], wd)
        evaluate_dirs(ctx, [jp.gen_empty_dir_scenario(ctx.rng, k) for k in range(ctx.scale(32, 800))], wd)
        # phase 6 (package G), directed: odd file names, many suites / test cases, --diff, stale report, paths used again
        fb = p6g.gen_batch_files(ctx.rng, ctx.scale(10, 300))
        evaluate_files(ctx, fb, wd)
        db = p6g.gen_batch_dirs(ctx.rng, ctx.scale(4, 120))
        evaluate_dirs(ctx, db, wd)
        # field names special to formatting layers ({0}, %s, backslash …) in .vtu files: file mode, and mesh files inside trees
        with p6g.fmt_names():
            ff = p6g.gen_fmt_file_scenarios(ctx.rng, ctx.scale(30, 600))
            fd = [p6g.gen_mesh_dir(ctx.rng, ctx.rng.randint(1, 3)) for _ in range(ctx.scale(16, 400))]
        evaluate_files(ctx, ff, wd)
        with p6g.mesh_dirs():
            evaluate_dirs(ctx, fd, wd)
        ctx.extra["p6g_batch"] = {"file_scenarios": len(fb) + len(ff), "dir_scenarios": len(db) + len(fd)}
        ctx.extra["f5_candidates"] = sum(1 for v in ctx.spec_viol if v.get("class") == "F5")
        # keep one small representative per class first
        ctx.spec_viol.sort(key=lambda v: (v.get("class") is not None, len(str(v["case"]))))
    finally:
        wd.close()


def _check_case(ctx, case):
    """-> (violated clauses, impl observable, class)"""
    with jp.strict(extend_names=False), p6g.mesh_dirs():
        return _check_case_strict(ctx, case)


def _check_case_strict(ctx, case):
    wd = cs.Workdir()
    try:
        if "files" in case:
            r = _run_dir(case, wd)
            oc = cs.outcome_class(r["out"])
            evs = [cs.py_eval(f["sc"]) for f in cs.dir_categories(case)["compared"]]
            f5 = any(e["f5"] is True for e in evs)
        else:
            r = _run_file(case, wd)
            oc = cs.outcome_class(r["out"])
            f5 = cs.py_eval(case)["f5"] is True
        bad = cs.py_report_check(oc, r["rep"])
        return bad, [r["out"], r["rep"]], "F5" if f5 and _within_f5(bad) else None
    finally:
        wd.close()


def replay_witness(ctx, entry):
    w = entry["witness"]
    if isinstance(w, dict) and "fn" in w:
        from fcv import core
        return core.run_named_witness(entry)
    bad, impl, _ = _check_case(ctx, w)
    return bool(bad), {"impl": impl, "violated": bad}


def replay(ctx, payload):
    case = payload["case"]
    if "op" in case:
        from fieldcompare._cli._junit import as_junit_xml_element
        from fieldcompare._cli._test_suite import TestStatus, TestSuite, TestResult
        st = TestStatus[case["status"]]
        el = as_junit_xml_element(TestSuite([TestResult("t", st, "", "out", None)], name="s"), "ts")
        tc = [e for e in el if e.tag == "testcase"][0]
        kind = cs.case_kind(tc)
        counts = [int(el.attrib[k]) for k in ("tests", "failures", "errors", "skipped")]
        want = [1, int(kind == "failure"), int(kind == "error"), int(kind == "skipped")]
        print(f"replay: one test of status {st.name}: test case kind={kind} counts={counts} expected={want}")
        if counts != want:
            print(f"VIOLATION property=C20 replay={payload.get('_path', '<replay>')}")
            return 1
        return 0
    bad, impl, cls = _check_case(ctx, case)
    print(f"replay: impl (exit, report) = {impl}; violated clauses = {bad}; class = {cls}")
    if bad:
        print(f"VIOLATION property=C20 replay={payload.get('_path', '<replay>')}")
        return 1
    return 0
