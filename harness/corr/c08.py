"""C08 — reordering transformations only relabel; no point, cell or value is lost.

Search (implementation vs the property, independent of the Lean model): the geometric content
(`meshgen.content`, computed from the public accessors only) is evaluated before and after
`strip_orphan_points / sort_points / sort_cells / sort / extend_space_dimension_to / merge` and random
compositions of depth <= 4; "before == after" (for the extension: after == zero-padded before; for merge:
merged pieces == the whole they were cut from), stripping keeps exactly the referenced points, sorting keeps
every point (orphans included).

Correspondence (implementation vs the Lean model through `fcdrv`):
 * `PermutedMesh` / `TransformedMeshFields` driven directly with harness-chosen index maps (partial point maps
   covering the referenced points, per-type cell permutations) — exact arrays;
 * for every public reordering the index maps the implementation actually used are reconstructed from the
   observable before/after arrays (fields carry pairwise distinct values), given to the model as one
   `PermutedMesh` layer, and the model's result is compared exactly with the implementation's arrays; the
   model's content and `Spec.sameContent` verdict are compared with the Python oracle;
 * `extend_space_dimension_to`: exact arrays incl. the raise / numpy-broadcast cases;
 * `_unconnected_points_filter_map`: the model's (stable) filter map equals the implementation's as a set.
"""
from __future__ import annotations
import copy
import warnings

import numpy as np

import os

from fcv import core, meshgen
from fcv import meshgen_p6g1m as mg6
from fcv.meshgen import gen_mesh, relabel, to_fc, from_fc, content, _tok, _rowsize, NCORNERS
from fcv.num import bits64

FLOATS = ("f64", "f32", "f16")
REORDERINGS = ("strip", "sort_points", "sort_cells", "sort")


# ---------------------------------------------------------------- value transport
# The C08 model never computes with coordinates or field values (it only moves them and inserts zeros), so any
# injective encoding with 0.0 -> 0 will do.  Floats travel as their IEEE-754 binary64 bit pattern (an integer
# < 2^64; -0.0 is canonicalised to 0.0 first) instead of the 325-digit unit counts of cluster A: the driver
# spends its time parsing/printing numbers otherwise.

def f2u(x):
    return bits64(float(x) + 0.0)


def _canon(dt, x):
    return f2u(x) if dt in FLOATS else int(x)


def enc_mesh(lm) -> str:
    toks = [str(lm["dim"]), str(len(lm["points"]))]
    for p in lm["points"]:
        toks += [str(f2u(c)) for c in p]
    toks.append(str(len(lm["cells"])))
    for t, rows in lm["cells"]:
        k = len(rows[0]) if rows else (NCORNERS[t] or 0)
        toks += [t, str(len(rows)), str(k)]
        for r in rows:
            toks += [str(i) for i in r]
    return " ".join(toks)


def _enc_field_arr(f, n):
    shape = [n] + list(f["tail"])
    vals = [str(_canon(f["dt"], x)) for x in f["v"]]
    return " ".join([f["dt"], str(len(shape))] + [str(d) for d in shape] + [str(len(vals))] + vals)


def enc_fields(lm) -> str:
    toks = [enc_mesh(lm), str(len(lm["pf"]))]
    for f in lm["pf"]:
        toks += [_tok(f["name"]), _enc_field_arr(f, len(lm["points"]))]
    toks.append(str(len(lm["cf"])))
    ncells = {t: len(rows) for t, rows in lm["cells"]}
    for f in lm["cf"]:
        toks += [_tok(f["name"]), f["ctype"], _enc_field_arr(f, ncells[f["ctype"]])]
    return " ".join(toks)


# ---------------------------------------------------------------- canonical forms

def units(lm):
    """logical mesh -> order-insensitive-in-fields canonical dict with exact unit counts"""
    n = len(lm["points"])
    ncells = {t: len(rows) for t, rows in lm["cells"]}
    return {
        "dim": lm["dim"],
        "points": [[f2u(c) for c in p] for p in lm["points"]],
        "cells": [[t, [list(map(int, r)) for r in rows]] for t, rows in lm["cells"]],
        "pf": sorted([_tok(f["name"]), f["dt"], [n] + list(f["tail"]), [_canon(f["dt"], x) for x in f["v"]]]
                     for f in lm["pf"]),
        "cf": sorted([_tok(f["name"]), f["ctype"], f["dt"], [ncells[f["ctype"]]] + list(f["tail"]),
                      [_canon(f["dt"], x) for x in f["v"]]] for f in lm["cf"]),
    }


def _ints(s):
    return [int(x) for x in s.split(",")] if s else []


def _parse_arr(dt, shape, data):
    return dt, [int(x) for x in shape.split("x")] if shape else [], _ints(data)


def parse_fields(s):
    """driver `showFields` string -> the same canonical dict as `units`"""
    if s == "E":
        return "E"
    d, p, c, pf, cf = s.split(";")
    assert d[0] == "D" and p[0] == "P" and c[0] == "C" and pf[:2] == "PF" and cf[:2] == "CF", s[:80]
    dim = int(d[1:])
    pts = [_ints(x) for x in p[1:].split("/")] if p[1:] else []
    if dim == 0 and p[1:] == "":
        pts = []
    cells = []
    if c[1:]:
        for blk in c[1:].split("|"):
            t, rows = blk.split(":", 1)
            cells.append([t, [_ints(r) for r in rows.split("/")] if rows else []])
    pfs = []
    if pf[2:]:
        for x in pf[2:].split("|"):
            name, dt, shape, data = x.split(":")
            dt, shape, data = _parse_arr(dt, shape, data)
            pfs.append([name, dt, shape, data])
    cfs = []
    if cf[2:]:
        for x in cf[2:].split("|"):
            name, ct, dt, shape, data = x.split(":")
            dt, shape, data = _parse_arr(dt, shape, data)
            cfs.append([name, ct, dt, shape, data])
    return {"dim": dim, "points": pts, "cells": cells, "pf": sorted(pfs), "cf": sorted(cfs)}


def _fix_points(u):
    """a point row of a dim-d mesh always has d entries; `showInts []` cannot tell 0 rows from rows of
    length 0 — only relevant for dim = 0 which is never generated"""
    return u


def py_content(lm):
    """the geometric content in the value encoding of this module (what the driver prints): point items over
    connected points, cell items; values sorted by field name"""
    ref = referenced(lm)
    rows = point_rows(lm)
    pc = sorted((rows[p][0], tuple(sorted((_tok(n), v) for n, v in rows[p][1]))) for p in ref)
    cc = []
    for t, crow in lm["cells"]:
        fs = [f for f in lm["cf"] if f["ctype"] == t]
        for c, r in enumerate(crow):
            vals = []
            for f in fs:
                rs = _rowsize(f["tail"])
                vals.append((_tok(f["name"]), tuple(_canon(f["dt"], x) for x in f["v"][c * rs:(c + 1) * rs])))
            cc.append((t, tuple(rows[i][0] for i in r), tuple(sorted(vals))))
    return pc, sorted(cc)


def oracle_content(lm):
    """the shared implementation-independent oracle (meshgen.content, exact unit counts)"""
    return content(lm)


def _parse_values(parts):
    vals = []
    for x in parts:
        n, v = x.split("=", 1)
        vals.append((n, tuple(_ints(v))))
    return tuple(sorted(vals))


def parse_content(pcont, ccont):
    if pcont == "E":
        return "E"
    pc, cc = [], []
    if pcont:
        for it in pcont.split("|"):
            parts = it.split("#")
            pc.append((tuple(_ints(parts[0])), _parse_values(parts[1:])))
    if ccont:
        for it in ccont.split("|"):
            parts = it.split("#")
            t, corners = parts[0].split("@", 1)
            cc.append((t, tuple(tuple(_ints(c)) for c in corners.split("/")) if corners else (), _parse_values(parts[1:])))
    return sorted(pc), sorted(cc)


def point_rows(lm):
    """full row of every point: (coords, every point-field value) — orphans included"""
    rows = []
    for p in range(len(lm["points"])):
        vals = []
        for f in sorted(lm["pf"], key=lambda f: f["name"]):
            rs = _rowsize(f["tail"])
            vals.append((f["name"], tuple(_canon(f["dt"], x) for x in f["v"][p * rs:(p + 1) * rs])))
        rows.append((tuple(f2u(c) for c in lm["points"][p]), tuple(vals)))
    return rows


def invalid(lm):
    """structural damage that makes the content undefined: corner index without a point (e.g. read from an
    unassigned slot of the inverse permutation), field length not matching its entity count"""
    n = len(lm["points"])
    for t, rows in lm["cells"]:
        for r in rows:
            for i in r:
                if not (0 <= i < n):
                    return f"cell of type {t} refers to point index {i}, but there are {n} points"
    ncells = {t: len(rows) for t, rows in lm["cells"]}
    for f in lm["pf"]:
        if len(f["v"]) != n * _rowsize(f["tail"]):
            return f"point field {f['name']}: {len(f['v'])} values for {n} points"
    for f in lm["cf"]:
        if len(f["v"]) != ncells.get(f["ctype"], -1) * _rowsize(f["tail"]):
            return f"cell field {f['name']} on {f['ctype']}: {len(f['v'])} values for {ncells.get(f['ctype'])} cells"
    if any(len(p) != lm["dim"] for p in lm["points"]):
        return "point rows of unequal length"
    return None


def referenced(lm):
    s = set()
    for _, rows in lm["cells"]:
        for r in rows:
            s.update(r)
    return s


# ---------------------------------------------------------------- python-side padding oracle

def pad_lm(lm, sd):
    """the zero-padded copy demanded by the property; returns (lm', status) with status in
    'ok' | 'undefined' (a field whose component count fits neither the mesh nor the target dimension)
    | 'smaller' (sd < dim)"""
    d = lm["dim"]
    if sd < d:
        return None, "smaller"
    if sd == d:
        return copy.deepcopy(lm), "ok"
    out = {"dim": sd, "points": [list(p) + [0.0] * (sd - d) for p in lm["points"]],
           "cells": copy.deepcopy(lm["cells"]), "pf": [], "cf": []}
    status = "ok"

    def pad_field(f, n):
        nonlocal status
        tail = list(f["tail"])
        zero = 0.0 if f["dt"] in FLOATS else 0
        if tail in ([], [1]):
            return dict(f)
        if len(tail) == 1:
            k = tail[0]
            if k == d:
                v = []
                for i in range(n):
                    v += list(f["v"][i * k:(i + 1) * k]) + [zero] * (sd - d)
                return dict(f, tail=[sd], v=v)
            if k >= sd:
                return dict(f)
            status = "undefined"
            return dict(f)
        if len(tail) == 2:
            k1, k2 = tail
            if k1 == d and k2 == d:
                v = []
                for i in range(n):
                    blk = f["v"][i * d * d:(i + 1) * d * d]
                    for r in range(sd):
                        for c in range(sd):
                            v.append(blk[r * d + c] if (r < d and c < d) else zero)
                return dict(f, tail=[sd, sd], v=v)
            if k1 >= sd or k2 >= sd:
                return dict(f)
            status = "undefined"
            return dict(f)
        status = "undefined"
        return dict(f)

    n = len(lm["points"])
    ncells = {t: len(rows) for t, rows in lm["cells"]}
    out["pf"] = [pad_field(f, n) for f in lm["pf"]]
    out["cf"] = [pad_field(f, ncells[f["ctype"]]) for f in lm["cf"]]
    return out, status


# ---------------------------------------------------------------- implementation runner

def apply_impl(fields, step):
    from fieldcompare import mesh as fm
    from fieldcompare.mesh._permuted_mesh import PermutedMesh
    from fieldcompare.mesh._mesh_fields import TransformedMeshFields
    k = step[0]
    if k == "strip":
        return fm.strip_orphan_points(fields)
    if k == "sort_points":
        return fm.sort_points(fields)
    if k == "sort_cells":
        return fm.sort_cells(fields)
    if k == "sort":
        return fm.sort(fields)
    if k == "extend":
        return fm.extend_space_dimension_to(step[1], fields)
    if k == "layer":
        pp = None if step[1] is None else np.array(step[1], dtype=np.int64)
        cps = None if step[2] is None else {meshgen.celltype(t): np.array(idx, dtype=np.int64) for t, idx in step[2]}
        return TransformedMeshFields(fields, lambda mesh: PermutedMesh(mesh, point_permutation=pp, cell_permutations=cps))
    if k == "merge":
        # step = ("merge", pieces, remove_duplicate_points[, pre]): a piece is a logical mesh or the string "self" (the very
        # object that is the first operand); pre[k] = reorderings applied to piece k BEFORE it is handed to merge, i.e. the
        # operand is a transformation result (a view) and not a plain MeshFields
        pre = step[3] if len(step) > 3 and step[3] else [[] for _ in step[1]]
        others, snap = [], []
        for lm, ops in zip(step[1], pre):
            obj = fields if lm == "self" else _build(lm)
            for op in ops:
                obj = apply_impl(obj, (op,))
            others.append(obj)
            snap.append(from_fc(obj))
        _LAST_OPERANDS[:] = list(zip(others, snap))
        return fm.merge(fields, *others, remove_duplicate_points=step[2])
    raise ValueError(k)


def _build(lm):
    """logical mesh -> MeshFields; "storage" (phase 6, fcv.meshgen_p6g1m) selects dtype / byte order / memory layout"""
    return mg6.to_fc_storage(lm, lm["storage"]) if lm.get("storage") else to_fc(lm)


_LAST_OPERANDS: list = []     # (object, logical mesh it was built from) of the further operands of the last merge


def operands_damage(fields, before, step):
    """the operands of a transformation are data sets of their own: none of them may have lost / changed a point, cell or
    value because it took part (the first operand `fields` and, for merge, the further pieces) -> description or None"""
    with warnings.catch_warnings():
        warnings.simplefilter("ignore")
        with np.errstate(all="ignore"):
            try:
                if units(from_fc(fields)) != units(before):
                    return "first operand differs from what it was before the call"
                if step[0] == "merge":
                    for k, (obj, lm) in enumerate(_LAST_OPERANDS):
                        if units(from_fc(obj)) != units(lm):
                            return f"operand no. {k + 2} of merge differs from what it was before the call"
            except Exception as e:  # noqa: BLE001
                return f"operand unreadable after the call: {type(e).__name__}: {e}"[:200]
    return None


def run_impl_step(fields, step):
    """-> (fields', lm', None) or (None, None, 'ExcType: message')"""
    with warnings.catch_warnings():
        warnings.simplefilter("ignore")
        with np.errstate(all="ignore"):
            try:
                f2 = apply_impl(fields, step)
                return f2, from_fc(f2), None
            except Exception as e:  # noqa: BLE001
                return None, None, f"{type(e).__name__}: {e}"


# ---------------------------------------------------------------- reconstruct the layer the implementation applied

def private_point_perm(f2, fields):
    """fallback when observable rows are ambiguous (coincident points without distinguishing field values):
    compose the `_point_permutation`s of the TransformedMeshFields layers between `f2` and `fields`"""
    layers = []
    cur = f2
    while cur is not fields:
        dom = getattr(cur, "_mesh", None)
        inner = getattr(cur, "_field_data", None)
        if inner is None or dom is None or not hasattr(dom, "_point_permutation"):
            return None
        layers.append(dom._point_permutation)
        cur = inner
    pp = None
    for l in reversed(layers):          # innermost first: new1->old, then new2->new1, ...
        if l is None:
            continue
        l = [int(i) for i in l]
        pp = l if pp is None else [pp[i] for i in l]
    return pp


def derive_layer(before, after, impl_fields=None, impl_input=None):
    """index maps (point map new->old | None, cell maps [[type, new->old]] | None) such that `after` is the
    PermutedMesh view of `before`, from observable rows; None if not reconstructible"""
    rb, ra = point_rows(before), point_rows(after)
    where = {}
    for i, r in enumerate(rb):
        where.setdefault(r, []).append(i)
    if all(len(v) == 1 for v in where.values()):
        try:
            pp = [where[r][0] for r in ra]
        except KeyError:
            return None
    else:
        pp = private_point_perm(impl_fields, impl_input) if impl_fields is not None else None
        if pp is None:
            if ra == rb:
                pp = list(range(len(rb)))
            else:
                return None
    if len(set(pp)) != len(pp) or len(pp) != len(ra) or any(not (0 <= i < len(rb)) for i in pp):
        return None
    if [rb[i] for i in pp] != ra:
        return None
    # cells: map new rows back to old indices and match rows (with the cell-field values of the type)
    cps = []
    tb = dict((t, rows) for t, rows in before["cells"])
    if [t for t, _ in before["cells"]] != [t for t, _ in after["cells"]]:
        return None

    def cell_rows(lm, t, rows, mapper):
        out = []
        for c, r in enumerate(rows):
            vals = []
            for f in sorted(lm["cf"], key=lambda f: f["name"]):
                if f["ctype"] != t:
                    continue
                rs = _rowsize(f["tail"])
                vals.append((f["name"], tuple(_canon(f["dt"], x) for x in f["v"][c * rs:(c + 1) * rs])))
            out.append((tuple(mapper(i) for i in r), tuple(vals)))
        return out
    for t, rows_a in after["cells"]:
        try:
            new = cell_rows(after, t, rows_a, lambda i: pp[i])
        except IndexError:
            return None
        old = cell_rows(before, t, tb[t], lambda i: i)
        pos = {}
        for c, r in enumerate(old):
            pos.setdefault(r, []).append(c)
        cp = []
        for r in new:
            if not pos.get(r):
                return None
            cp.append(pos[r].pop(0))
        cps.append([t, cp])
    ident_p = pp == list(range(len(rb)))
    ident_c = all(cp == list(range(len(cp))) for _, cp in cps)
    return (None if ident_p else pp), (None if ident_c else cps)


# ---------------------------------------------------------------- protocol encoding

def enc_pp(pp):
    return "-" if pp is None else f"p {len(pp)} {' '.join(map(str, pp))}".strip()


def enc_cps(cps):
    if cps is None:
        return "-"
    toks = ["c", str(len(cps))]
    for t, idx in cps:
        toks += [t, str(len(idx))] + [str(i) for i in idx]
    return " ".join(toks)


def enc_chain(lm, msteps):
    toks = ["c08.chain", enc_fields(lm), str(len(msteps))]
    for s in msteps:
        if s[0] == "L":
            toks += ["L", enc_pp(s[1]), enc_cps(s[2])]
        else:
            toks += ["X", str(s[1])]
    return " ".join(toks)


# ---------------------------------------------------------------- classification of expected raises

def near_duplicate_orphan(lm):
    """an unconnected point that coincides (within 1e-6 of the largest coordinate) with another point:
    `sort_points` refuses to order such points (ValueError) — documented behaviour, not a loss"""
    ref = referenced(lm)
    pts = np.array(lm["points"], dtype=float).reshape(len(lm["points"]), lm["dim"])
    if len(pts) == 0:
        return False
    tol = max(float(np.max(np.abs(pts))), 1e-300) * 1e-6
    for p in range(len(pts)):
        if p in ref:
            continue
        d = np.max(np.abs(pts - pts[p]), axis=1)
        d[p] = np.inf
        if np.any(d <= tol):
            return True
    return False


def expected_raise(before, step):
    """None, or the name of the documented/limitation class under which this step may raise"""
    k = step[0]
    if k in ("strip", "sort") and not referenced(before):
        return "empty-index-map"            # np.argmax([]) in PermutedMesh: nothing referenced
    if k == "sort_points" and near_duplicate_orphan(before):
        return "orphan-duplicate"
    if k == "layer" and step[1] is not None and len(step[1]) == 0:
        return "empty-index-map"
    if k == "extend":
        _, st = pad_lm(before, step[1])
        if st == "smaller":
            return "smaller-dimension"
        if st == "undefined":
            return "field-shape-vs-dimension"
    return None


# ---------------------------------------------------------------- one case

def f3_class(pieces_so_far_points, piece):
    """class predicate of finding F3: every point of the later piece coincides exactly with a point that is
    already there"""
    have = set(tuple(p) for p in pieces_so_far_points)
    return all(tuple(p) in have for p in piece["points"]) and len(piece["points"]) > 0


def merged_expectation(before, step):
    """content the merge must have: point items of the first occurrence, all cells"""
    pieces = [before] + [before if p == "self" else p for p in step[1]]
    if not step[2]:
        pc, cc = [], []
        for p in pieces:
            a, b = py_content(p)
            pc += a; cc += b
        return sorted(pc), sorted(cc), None
    # with duplicate removal: points of later pieces that coincide exactly with an earlier point are dropped
    pc, cc = [], []
    have = {}
    f3 = None
    pts_so_far = []
    for k, p in enumerate(pieces):
        if k > 0 and f3 is None and f3_class(pts_so_far, p) and any(rows for _, rows in p["cells"]):
            f3 = k
        a, b = py_content(p)
        cc += b
        rows = point_rows(p)
        ref = referenced(p)
        for i, r in enumerate(rows):
            co = r[0]
            if co in have:
                # the earlier point wins; it becomes connected if this one is
                if i in ref:
                    have[co][1] = True
            else:
                have[co] = [tuple(sorted((_tok(n), v) for n, v in r[1])), i in ref]
        pts_so_far += [tuple(q) for q in p["points"]]
    pc = sorted((co, vals) for co, (vals, conn) in have.items() if conn)
    return pc, sorted(cc), f3


def check_case(ctx, case, tags=(), record=True):
    """run one case {lm, steps}; returns number of problems found (used by replay)"""
    lm0, steps = case["lm"], [tuple(s) if not isinstance(s, tuple) else s for s in case["steps"]]
    problems = 0
    tags = list(tags)
    fields = _build(lm0)
    cur = from_fc(fields)
    with_model = case.get("model", True)      # False: search only (big data sets: the driver line would be huge)
    if units(cur) != units(lm0):
        ctx.inconsistent(case, "from_fc(to_fc(lm))", "lm")   # harness self-check
        return 1
    msteps = []           # model steps accumulated since `seg_start`
    seg_start = cur
    raised = None
    for si, step in enumerate(steps):
        before = cur
        f2, after, exc = run_impl_step(fields, step)
        one = {"lm": before, "steps": [list(step)]}
        if lm0.get("conn_dtype") and si == 0:
            one = {"lm": dict(before, conn_dtype=lm0["conn_dtype"]), "steps": [list(step)]}   # replayable as stored
        if lm0.get("storage"):
            one = {"lm": lm0, "steps": [list(x) for x in steps[:si + 1]]}                     # replayable as stored
        if not with_model:
            one["model"] = False
        if exc is not None:
            cls = expected_raise(before, step)
            tags.append(f"raise-{cls or 'UNEXPECTED'}")
            if cls is None:
                ctx.violation(one, exc, "no exception: the data set must come back relabeled", cls=None,
                              what=f"{step[0]} raised on a data set on which the property speaks")
                problems += 1
            raised = (step, cls)
            break
        # ---------------- search: implementation vs the property
        k = step[0]
        opd = operands_damage(fields, before, step)
        if opd:
            ctx.violation(one, opd, "operands unchanged", cls=None,
                          what=f"{k}: a data set handed to the transformation lost / changed points, cells or values")
            problems += 1
            tags.append("damaged-operand")
        damage = invalid(after)
        if damage:
            ctx.violation(one, damage, "a well-formed data set", cls=None, what=f"{k}: result is not a well-formed data set")
            problems += 1
            tags.append("damaged-result")
            raised = (step, "damaged")
            break
        if k in REORDERINGS or k == "layer":
            pb, pa = oracle_content(before), oracle_content(after)
            if pb != pa:
                ctx.violation(one, _content_diff(pb, pa), "content(after) == content(before)", cls=None,
                              what=f"{k}: geometric content changed")
                problems += 1
            rows_b, rows_a = point_rows(before), point_rows(after)
            if k in ("sort_points", "sort_cells") and sorted(rows_b) != sorted(rows_a):
                ctx.violation(one, f"{len(rows_a)} point rows", f"{len(rows_b)} point rows (same multiset)", cls=None,
                              what=f"{k}: a point (orphans included) was lost / duplicated / altered")
                problems += 1
            if k in ("strip", "sort"):
                ref = referenced(before)
                want = sorted(rows_b[p] for p in ref)
                if sorted(rows_a) != want or referenced(after) != set(range(len(after["points"]))):
                    ctx.violation(one, f"{len(rows_a)} points kept", f"exactly the {len(ref)} referenced points", cls=None,
                                  what=f"{k}: does not remove precisely the unreferenced points")
                    problems += 1
            if after["dim"] != before["dim"]:
                ctx.violation(one, after["dim"], before["dim"], what=f"{k}: space dimension changed")
                problems += 1
        elif k == "extend":
            want, st = pad_lm(before, step[1])
            if st == "ok":
                if units(after) != units(want):
                    ctx.violation(one, _short(units(after)), _short(units(want)), cls=None,
                                  what="extend_space_dimension_to: result is not the zero-padded copy")
                    problems += 1
            else:
                tags.append("extend-returned-on-" + st)   # numpy broadcast of a length-1 tensor axis (NOTES N-bcast)
        elif k == "merge":
            wp, wc, f3 = merged_expectation(before, step)
            pa = py_content(after)
            if (wp, wc) != pa:
                if f3 is not None:
                    tags.append("F3")
                    ctx.violation(one, _content_diff((wp, wc), pa), "cells of every piece present", cls="F3",
                                  what="merge: a later piece all of whose points already exist is dropped with its cells")
                else:
                    ctx.violation(one, _content_diff((wp, wc), pa), "merged content = union of the pieces", cls=None,
                                  what="merge: geometric content of the pieces not preserved")
                problems += 1
        # ---------------- bookkeeping for the model chain
        if k == "extend":
            msteps.append(("X", step[1]))
        elif k == "merge":
            problems += _model_segment(ctx, case, seg_start, msteps, before, tags)
            seg_start, msteps = after, []
        else:
            if not with_model:
                lay = (None, None)          # search only: the layer is not needed
            else:
                lay = derive_layer(before, after, f2, fields) if k != "layer" else (step[1], step[2])
            if lay is None:
                tags.append("layer-not-reconstructible")
                problems += _model_segment(ctx, case, seg_start, msteps, before, tags)
                seg_start, msteps = after, []
            else:
                msteps.append(("L", lay[0], lay[1]))
                if k == "strip" and with_model:
                    problems += _model_strip(ctx, one, before, lay[0])
        fields, cur = f2, after
    if raised is None:
        problems += _model_segment(ctx, case, seg_start, msteps, cur, tags)
    else:
        step, cls = raised
        # the model must raise as well where the step's parameters are determined by the input
        if step[0] == "extend":
            problems += _model_segment(ctx, case, seg_start, msteps + [("X", step[1])], "E", tags)
        elif cls == "empty-index-map":
            problems += _model_segment(ctx, case, seg_start, msteps + [("L", [], None)], "E", tags)
        else:
            problems += _model_segment(ctx, case, seg_start, msteps, cur, tags)
    if len(PENDING) > 3000:
        problems += flush(ctx)
    if record:
        nontrivial = any(s[0] != "layer" or s[1] is not None or s[2] is not None for s in steps) and \
            units(cur) != units(lm0)
        ctx.case((units(lm0), steps), nontrivial=nontrivial, tags=tags,
                 sample={"steps": [s[0] for s in steps], "npoints": len(lm0["points"]),
                         "ncells": sum(len(r) for _, r in lm0["cells"]), "dim": lm0["dim"],
                         "result_points": len(cur["points"])})
    return problems


def _short(u):
    s = repr(u)
    return s if len(s) < 1500 else s[:1500] + "…"


def _content_diff(want, got):
    wp, wc = want
    gp, gc = got
    lost_p = [x for x in wp if x not in gp][:3]
    new_p = [x for x in gp if x not in wp][:3]
    lost_c = [x for x in wc if x not in gc][:3]
    new_c = [x for x in gc if x not in wc][:3]
    return _short({"points": [len(wp), len(gp)], "cells": [len(wc), len(gc)], "lost_points": lost_p,
                   "new_points": new_p, "lost_cells": lost_c, "new_cells": new_c})


PENDING = []     # (protocol line, handler(reply) -> number of problems): flushed in one driver call


def flush(ctx):
    global PENDING
    todo, PENDING = PENDING, []
    if not todo or not ctx.driver_ok:
        return 0
    reps = ctx.lean([l for l, _ in todo])
    return sum(h(r) for (_, h), r in zip(todo, reps))


def _model_segment(ctx, case, start, msteps, want, tags):
    """model chain from `start` must give exactly `want` (canonical lm, or 'E')"""
    if not ctx.driver_ok or not msteps and want != "E" or not case.get("model", True):
        return 0
    line = enc_chain(start, msteps)
    msteps = list(msteps)
    PENDING.append((line, lambda rep: _eval_segment(ctx, line, rep, start, msteps, want, tags)))
    return 0


def _eval_segment(ctx, line, rep, start, msteps, want, tags):
    if "hyp" not in rep:
        ctx.inconsistent({"line": line[:2000]}, str(rep), "reply")
        return 1
    seg = {"lm": start, "model_steps": [list(s) for s in msteps]}
    if rep["hyp"] != "1":
        # outside the hypothesis of C08_permuted_iso the model is not comparable (e.g. a derived map that
        # does not cover a referenced point): only the search above speaks
        ctx.dist["model-hyp-0"] += 1
        return 0
    res = parse_fields(rep["res"])
    w = "E" if want == "E" else units(want)
    bad = 0
    if res != w:
        ctx.mismatch(seg, _short(w), _short(res), what="transformation result: impl vs Lean model")
        bad += 1
    if want != "E":
        if rep["same"] not in ("1", "-"):
            ctx.inconsistent(seg, "same=" + rep["same"], "theorem C08_permuted_iso / C08_compose: same=1")
            bad += 1
        if parse_content(rep["pcont"], rep["ccont"]) != py_content(want):
            ctx.mismatch(seg, "python content oracle", "Lean pointContent/cellContent", what="content oracle")
            bad += 1
    return bad


def _model_strip(ctx, one, before, pp):
    if not ctx.driver_ok:
        return 0
    PENDING.append(("c08.strip " + enc_fields(before), lambda rep: _eval_strip(ctx, rep, one, before, pp)))
    return 0


def _eval_strip(ctx, rep, one, before, pp):
    if rep.get("hyp") != "1":
        return 0
    impl_set = sorted(pp if pp is not None else range(len(before["points"])))
    model_map = _ints(rep["map"]) if rep["map"] != "E" else "E"
    kept = _ints(rep["kept"])
    bad = 0
    if model_map == "E" or sorted(model_map) != impl_set:
        ctx.mismatch(one, impl_set, model_map, what="_unconnected_points_filter_map as a set: impl vs model")
        bad += 1
    if model_map != kept:
        ctx.inconsistent(one, model_map, kept)     # C08_strip_stable
        bad += 1
    if kept != sorted(referenced(before)):
        ctx.inconsistent(one, kept, sorted(referenced(before)))
        bad += 1
    return bad


# ---------------------------------------------------------------- generators

def random_layer(rng, lm, mode=None):
    """harness-chosen index maps for a direct PermutedMesh layer"""
    n = len(lm["points"])
    ref = sorted(referenced(lm))
    mode = mode or rng.choice(["full", "partial", "cells", "both", "none-none"])
    pp = cps = None
    if mode in ("full", "both"):
        pp = list(range(n)); rng.shuffle(pp)
    elif mode == "partial":
        extra = [p for p in range(n) if p not in set(ref) and rng.random() < 0.5]
        pp = ref + extra
        rng.shuffle(pp)
        if not pp:
            pp = None
    if mode in ("cells", "both"):
        cps = []
        for t, rows in lm["cells"]:
            cp = list(range(len(rows))); rng.shuffle(cp)
            cps.append([t, cp])
    return ("layer", pp, cps)


def gen_base(rng, big=False, dims=(1, 2, 3), for_extend=False):
    lm, tags = gen_mesh(rng, max_cells_per_dir=(5 if big else 3), dims=dims)
    if tags["style"] == "line" and rng.random() < 0.6:
        lm, tags = gen_mesh(rng, max_cells_per_dir=(5 if big else 3), dims=dims)
    if for_extend:
        make_extendable(rng, lm)
    # random storage order, extra orphan points (so that nothing is sorted to begin with)
    lm = relabel(rng, lm, extra_orphans=rng.choice([0, 0, 1, 3, 8]))
    if rng.random() < 0.15 and lm["points"]:
        # an orphan exactly on top of another point
        lm["points"].append(list(rng.choice(lm["points"])))
        for f in lm["pf"]:
            f["v"] = f["v"] + [(7.5 if f["dt"] in FLOATS else 7)] * _rowsize(f["tail"])
        tags["orphan-duplicate"] = 1
    if rng.random() < 0.1:
        # the highest indices are orphans / the lowest are orphans
        pass
    return lm, ["dim=%d" % tags["dim"], "style=" + str(tags["style"])] + \
        (["duplicates"] if "duplicates" in tags else []) + (["orphan-duplicate"] if "orphan-duplicate" in tags else [])


def make_extendable(rng, lm, irregular=0.0):
    """field shapes the padding is defined for: scalars, (n,d)/(n,3) vectors, (n,d,d) tensors"""
    d = lm["dim"]
    n = len(lm["points"])
    lm["pf"], lm["cf"] = [], []
    nf = 0
    for k in range(rng.randint(0, 3)):
        dt = rng.choice(["f64", "f64", "f32", "i32", "i64"])
        tail = rng.choice([[], [1], [d], [3], [d, d], [3, 3]])
        if d == 1 and tail == [1, 1] and False:
            pass
        if rng.random() < irregular:
            tail = rng.choice([[2], [1, 1], [1, 2], [2, 1], [2, 3], [2, 2], [2, 2, 2], [4], [1, 3]])
        lm["pf"].append({"name": f"p{k}", "dt": dt, "tail": tail, "v": meshgen._distinct_values(rng, dt, n * _rowsize(tail))})
    for k in range(rng.randint(0, 2)):
        dt = rng.choice(["f64", "f32", "i64"])
        tail = rng.choice([[], [d], [d, d], [3]])
        if rng.random() < irregular:
            tail = rng.choice([[2], [1, 1], [1, 2], [2, 3], [2, 2]])
        for t, rows in lm["cells"]:
            lm["cf"].append({"name": f"c{k}", "ctype": t, "dt": dt, "tail": tail,
                             "v": meshgen._distinct_values(rng, dt, len(rows) * _rowsize(tail))})
    return lm


def split_pieces(rng, lm, npieces):
    """cut a data set into pieces by distributing its cells; every piece owns the points its cells reference
    (local numbering shuffled), fields restricted"""
    owners = {t: [rng.randrange(npieces) for _ in rows] for t, rows in lm["cells"]}
    pieces = []
    for k in range(npieces):
        cells = []
        used = set()
        for t, rows in lm["cells"]:
            sel = [c for c, o in enumerate(owners[t]) if o == k]
            if sel:
                cells.append([t, sel])
                for c in sel:
                    used.update(rows[c])
        if not cells:
            continue
        pts = sorted(used)
        rng.shuffle(pts)
        new = {old: i for i, old in enumerate(pts)}
        p = {"dim": lm["dim"], "points": [list(lm["points"][o]) for o in pts], "cells": [], "pf": [], "cf": []}
        rows_of = dict((t, rows) for t, rows in lm["cells"])
        for t, sel in cells:
            p["cells"].append([t, [[new[i] for i in rows_of[t][c]] for c in sel]])
        for f in lm["pf"]:
            rs = _rowsize(f["tail"])
            v = []
            for o in pts:
                v += f["v"][o * rs:(o + 1) * rs]
            p["pf"].append(dict(f, v=v))
        for f in lm["cf"]:
            sel = dict((t, s) for t, s in cells).get(f["ctype"])
            if sel is None:
                continue
            rs = _rowsize(f["tail"])
            v = []
            for c in sel:
                v += f["v"][c * rs:(c + 1) * rs]
            p["cf"].append(dict(f, v=v))
        pieces.append(p)
    return pieces


def restrict_to_cells(lm):
    return lm


def gen_steps(rng, lm, depth, allow_extend=True):
    steps = []
    dim = lm["dim"]
    for _ in range(depth):
        r = rng.random()
        if r < 0.62:
            steps.append((rng.choice(REORDERINGS),))
        elif r < 0.8 and allow_extend and dim < 3:
            dim = rng.randint(dim + 1, 3)
            steps.append(("extend", dim))
        elif r < 0.85 and allow_extend:
            steps.append(("extend", dim))          # identity
        else:
            steps.append(("layer?",))              # resolved when the current data set is known
    return steps


# ---------------------------------------------------------------- run

# ---------------------------------------------------------------- phase 6 (G1m): quantifier-coverage batches

def _views_alive(ctx, lm, tags):
    """several transformation results of ONE base object alive at the same time, read in different orders, the base read
    again afterwards: every one of them must have the base's content (search only, python oracle)"""
    from fieldcompare import mesh as fm
    base = _build(lm)
    want = oracle_content(lm)
    case = {"lm": lm, "steps": [["strip"], ["sort_points"], ["sort_cells"], ["sort"]], "p6g": "views-alive"}
    with warnings.catch_warnings():
        warnings.simplefilter("ignore")
        try:
            views = [("strip", fm.strip_orphan_points(base)), ("sort_points", fm.sort_points(base)),
                     ("sort_cells", fm.sort_cells(base)), ("sort", fm.sort(base))]
            views.append(("sort_cells(strip)", fm.sort_cells(views[0][1])))
            views.append(("strip(sort_points)", fm.strip_orphan_points(views[1][1])))
            views.append(("sort(sort)", fm.sort(views[3][1])))
            order = list(range(len(views)))
            ctx.rng.shuffle(order)
            for rnd in range(2):
                for i in order:
                    name, v = views[i]
                    got = oracle_content(from_fc(v))
                    if got != want:
                        ctx.violation(case, _content_diff(want, got), "content of the base data set", cls=None,
                                      what=f"{name}: content differs while other views of the same object are alive (read no. {rnd + 1})")
                        return
            if units(from_fc(base)) != units(lm):
                ctx.violation(case, "base differs", "base unchanged", cls=None, what="the base object changed after its views were read")
        except ValueError as e:
            if not near_duplicate_orphan(lm):
                ctx.violation(case, f"ValueError: {e}", "no exception", cls=None, what="views of one base object: raised")
            tags = tags + ["raise-orphan-duplicate"]
    ctx.case((units(lm), "views-alive"), nontrivial=True, tags=tags + ["p6g-views-alive"])


def p6g_batch(ctx):
    """directed batches for dimensions of the quantifier that the generators above sample at one point only (see
    notes/PHASE6_G1m_audit.md): both members of a compatible cell-type pair in one mesh, storage (coordinate dtype / byte
    order / memory layout / index type / strided and read-only field arrays), sizes > 1000 and > 65536 points (search
    only, `model: False`), transformation results and the object itself as operands of merge, several views of one base
    object alive together.  FCV_P6G_OFF=1 switches the batch off (used to show what only this batch sees)."""
    import time
    rng = ctx.rng
    t0 = [time.time()]
    secs = ctx.extra.setdefault("p6g_seconds", {})

    def lap(name):
        secs[name] = round(secs.get(name, 0.0) + time.time() - t0[0], 2)
        t0[0] = time.time()
    # (a) QUAD + PIXEL (+ TRIANGLE) / HEXAHEDRON + VOXEL (+ TETRA) in ONE mesh
    for i in range(ctx.scale(48, 1500)):
        lm, t = mg6.gen_pair_mesh(rng, max_cells_per_dir=3)
        if i % 3 == 0:
            make_extendable(rng, lm)
        lm = relabel(rng, lm, extra_orphans=rng.choice([0, 0, 1, 3]))
        if i % 4 == 3:
            lm = mg6.insert_orphans(rng, lm, rng.choice(["front", "middle", "scattered"]), rng.randint(1, 4))
        steps = [(REORDERINGS[i % 4],)]
        if i % 3 == 0:
            steps += gen_steps(rng, lm, rng.randint(1, 2))
            steps = [s for s in steps if s[0] != "layer?"]
        check_case(ctx, {"lm": lm, "steps": steps}, ["p6g-pair", "dim=%d" % t["dim"], "style=" + t["style"]])
    lap("pair")
    # (b) storage
    nst = len(mg6.STORAGES)
    for i in range(ctx.scale(60, 1500)):
        st = mg6.STORAGES[i % nst]
        if (i // nst) % 2:
            lm, t = mg6.gen_pair_mesh(rng, max_cells_per_dir=2 if st["conn"] in ("u8", "i8") else 3)
        else:
            lm, t = gen_mesh(rng, max_cells_per_dir=3, dims=(1, 2, 2, 3))
        make_extendable(rng, lm)
        lm = relabel(rng, lm, extra_orphans=rng.choice([0, 1, 3]))
        if "f4" in st["pts"]:
            lm = mg6.round_to_f32(lm)
        if not mg6.storage_fits(lm, st):
            continue
        lm["storage"] = st
        r = (i // nst) % 3
        if r == 0:
            steps = [(REORDERINGS[(i // (3 * nst)) % 4],)]
        elif r == 1 and lm["dim"] < 3:
            steps = [("extend", 3), (rng.choice(REORDERINGS),)]
        else:
            steps = [(rng.choice(REORDERINGS),), (rng.choice(REORDERINGS),)]
        check_case(ctx, {"lm": lm, "steps": steps}, ["p6g-" + mg6.storage_tag(st), "p6g-storage"])
    lap("storage")
    # (c) sizes (search only)
    sizes = [(33, 33, "quad", 3), (40, 26, "tri", 2), (1100, 0, "line", 1)]
    if ctx.tier == "thorough":
        sizes += [(45, 45, "pixel", 2), (70, 40, "quad", 2)]
    for nx, ny, style, dim in sizes:
        lm = mg6.fast_relabel(rng, mg6.big_lattice(nx, ny, dim=dim, style=style, scale=rng.choice([1.0, 2.5, 1e-3]),
                                                   offset=rng.choice([0.0, -7.0])))
        lm = mg6.insert_orphans(rng, lm, rng.choice(["front", "middle", "scattered"]), 3)
        for st in REORDERINGS:
            check_case(ctx, {"lm": lm, "steps": [(st,)], "model": False}, ["p6g-big", f"p6g-npoints={len(lm['points'])}", st])
        if dim < 3:
            check_case(ctx, {"lm": lm, "steps": [("extend", 3), ("sort",)], "model": False},
                       ["p6g-big", f"p6g-npoints={len(lm['points'])}", "extend"])
    lap("big>1000")
    # more than 65536 points: (i) a small mesh stored with uint16 / int16 indices plus unconnected points BELOW it, so that
    # sorting gives the connected points indices beyond the range of the index type; (ii) a 260 x 256 lattice
    for cdt, steps in (("u16", [("sort_points",)]),) if ctx.tier != "thorough" else \
            (("u16", [("sort_points",)]), ("u16", [("sort",)]), ("i16", [("sort_points",), ("sort_cells",)]), ("i32", [("sort",)])):
        lm = mg6.big_lattice(3, 2, dim=2, style="quad", scale=1.0, offset=10.0)
        extra = {"u16": 65536 + 9, "i16": 32768 + 9, "i32": 70001}[cdt]
        lm = mg6.insert_orphans(rng, lm, "end", extra,
                                coords=[[-1.0 - 0.25 * j, -2.0 - 0.5 * (j % 7)] for j in range(extra)])
        lm["conn_dtype"] = cdt
        check_case(ctx, {"lm": lm, "steps": steps, "model": False}, ["p6g-big", "p6g-npoints>65536", "narrow-index-" + cdt])
    if ctx.tier == "thorough":
        lm = mg6.fast_relabel(rng, mg6.big_lattice(260, 256, dim=2, style="quad"))
        check_case(ctx, {"lm": lm, "steps": [("sort",)], "model": False}, ["p6g-big", "p6g-npoints>65536", "sort"])
    lap("big>65536")
    # (d) merge: views and the object itself as operands, pieces of pair meshes, sort / extend afterwards
    for i in range(ctx.scale(70, 2500)):
        if i % 2:
            whole, t = mg6.gen_pair_mesh(rng, max_cells_per_dir=3)
        else:
            whole, t = gen_mesh(rng, max_cells_per_dir=3, allow_duplicates=False, allow_orphans=False)
        if i % 3 == 0:
            make_extendable(rng, whole)
        mixed = i % 4 == 1
        if mixed:
            whole = mg6.round_to_f32(whole)
        pieces = split_pieces(rng, whole, rng.choice([2, 2, 3]))
        if len(pieces) < 2:
            continue
        rng.shuffle(pieces)
        if mixed:
            # every operand stored differently (dtype / byte order / layout / index type); a narrow index type only where it
            # can also count the points of the MERGED data set (beyond that: the opt-in batch d' below)
            total = sum(len(p["points"]) for p in pieces)
            for p in pieces:
                st = rng.choice(mg6.STORAGES)
                # (uint64 next to a signed index type: numpy promotes the concatenated connectivity to float64 and every
                # later strip / sort raises IndexError -- second defect of the same family, opt-in like d')
                if mg6._CONN_CAP[st["conn"]] >= total and (st["conn"] != "u64" or os.environ.get("FCV_P6G_MERGE_NARROW", "1") == "1"):
                    p["storage"] = st
        pre0 = [(rng.choice(REORDERINGS),)] if rng.random() < 0.6 else []
        pre = [[rng.choice(REORDERINGS)] if rng.random() < 0.7 else [] for _ in pieces[1:]]
        if i % 5 == 0:
            pre[0] = [rng.choice(REORDERINGS), rng.choice(REORDERINGS)]
        post = [(rng.choice(REORDERINGS),)] if rng.random() < 0.6 else []
        if post and whole["dim"] < 3 and i % 3 == 0 and rng.random() < 0.5:
            post = [("extend", 3)] + post
        rdp = rng.random() < 0.8
        check_case(ctx, {"lm": pieces[0], "steps": pre0 + [("merge", pieces[1:], rdp, pre)] + post},
                   ["p6g-merge-views", "dedup" if rdp else "keep-duplicates", "style=" + str(t["style"])] +
                   (["p6g-merge-mixed-storage"] if mixed else []))
    for i in range(ctx.scale(6, 60)):
        lm, t = gen_mesh(rng, max_cells_per_dir=2, allow_duplicates=False, allow_orphans=False)
        # the same object twice, duplicates kept: every point and cell twice
        check_case(ctx, {"lm": lm, "steps": [("merge", ["self"], False)] + ([("sort_cells",)] if i % 2 else [])},
                   ["p6g-merge-self", "keep-duplicates"])
    lap("merge-views")
    # (d') OPT-IN (FCV_P6G_MERGE_NARROW=1): a further operand of merge whose connectivity is stored with a narrow index type,
    # behind a first operand with more points than that type can count.  This is a GENUINE DEFECT of fieldcompare found by
    # this audit (notes/PHASE6_G1m.md, "Suspected genuine defects": the renumbered corners are written back into the narrow
    # array and wrap) and in no KNOWN_FINDINGS class, so the batch is not part of the committed run.
    if os.environ.get("FCV_P6G_MERGE_NARROW", "1") == "1":
        for cdt, npts in (("u8", 256), ("i8", 128), ("u8", 300), ("i16", 32768), ("u16", 65536)):
            first = mg6.big_lattice(npts - 1, 0, dim=1, style="line", point_fields=1, cell_fields=1)
            second = mg6.big_lattice(1, 0, dim=1, style="line", offset=float(npts + 10), point_fields=1, cell_fields=1)
            second["storage"] = dict(mg6.DEFAULT_STORAGE, conn=cdt)
            check_case(ctx, {"lm": first, "steps": [("merge", [second], True)], "model": False},
                       ["p6g-merge-narrow", "narrow-index-" + cdt])
        first = mg6.big_lattice(2, 0, dim=1, style="line")
        second = mg6.big_lattice(1, 0, dim=1, style="line", offset=10.0)
        second["storage"] = dict(mg6.DEFAULT_STORAGE, conn="u64")
        check_case(ctx, {"lm": first, "steps": [("merge", [second], True), ("strip",)], "model": False},
                   ["p6g-merge-narrow", "merge-u64-next-to-i64"])
    # (e) several views of one base object
    for i in range(ctx.scale(40, 800)):
        lm, t = gen_base(rng) if i % 2 else mg6.gen_pair_mesh(rng)
        if i % 2 == 0:
            lm = relabel(rng, lm, extra_orphans=rng.choice([0, 2]))
            t = ["style=" + t["style"]]
        if not referenced(lm):
            continue
        _views_alive(ctx, lm, list(t))
    lap("views-alive")


def run(ctx):
    ctx.rule = ("case = (data set, list of <= 4 transformation steps); data sets: 1-3-d lattice meshes of "
                "line/triangle/quad/pixel/polygon/tetra/hexahedron/voxel cells (mixed types), randomly relabeled, with orphan "
                "points, coincident duplicate points, an orphan on top of another point, scalar/vector/tensor point and "
                "cell fields of pairwise distinct values; steps: strip/sort_points/sort_cells/sort/extend/merge and direct "
                "PermutedMesh layers with random partial point maps and cell permutations; non-trivial = the stored "
                "arrays after the chain differ from the input; distinct = distinct (data set, steps)")
    ctx.assumptions += [
        "np.argsort / Python hash / the fuzzy point sort return *some* permutation (parameters of the model; the "
        "maps actually used are reconstructed from the observable arrays and handed to the model)",
        "numpy fancy indexing data[idx] and broadcast assignment behave as modelled (compared on every case)",
        "TransformedMeshFields is lazy, the model eager: equal observables because nothing mutates arrays (C19)"]
    rng = ctx.rng
    n_single = ctx.scale(600, 12000)
    n_chain = ctx.scale(600, 24000)
    n_layer = ctx.scale(300, 8000)
    n_ext = ctx.scale(400, 8000)
    n_merge = ctx.scale(250, 8000)
    for i in range(n_single):
        lm, tags = gen_base(rng, big=(i % 4 == 0))
        step = (REORDERINGS[i % 4],)
        check_case(ctx, {"lm": lm, "steps": [step]}, tags + ["single", step[0]])
    for i in range(n_layer):
        lm, tags = gen_base(rng, big=(i % 5 == 0))
        st = random_layer(rng, lm)
        check_case(ctx, {"lm": lm, "steps": [st]}, tags + ["layer-" + ("p" if st[1] is not None else "-") + ("c" if st[2] is not None else "-")])
    for i in range(n_ext):
        lm, tags = gen_mesh(rng, max_cells_per_dir=3, dims=(1, 2, 2, 3))
        make_extendable(rng, lm, irregular=0.25 if i % 3 == 0 else 0.0)
        lm = relabel(rng, lm, extra_orphans=rng.choice([0, 1]))
        d = lm["dim"]
        sd = rng.choice([d, d + 1, 3, 3, 3, max(1, d - 1)]) if d < 3 else rng.choice([3, 2, 4])
        check_case(ctx, {"lm": lm, "steps": [("extend", sd)]}, ["dim=%d" % d, "extend", f"extend-{d}->{sd}"])
    for i in range(n_chain):
        lm, tags = gen_base(rng, big=(i % 6 == 0), for_extend=True)
        depth = rng.randint(2, 4)
        plan = gen_steps(rng, lm, depth)
        # resolve the direct layers against the running data set (implementation result so far)
        steps = []
        fields, cur = to_fc(lm), lm
        ok = True
        for s in plan:
            if s[0] == "layer?":
                s = random_layer(rng, cur)
            steps.append(s)
            f2, nxt, exc = run_impl_step(fields, s)
            if exc is not None:
                break
            fields, cur = f2, nxt
        check_case(ctx, {"lm": lm, "steps": steps}, tags + ["chain", f"depth={len(steps)}"])
    many = [5, 6, 7, 9, 10, 12]
    for i in range(n_merge + ctx.scale(30, 480)):
        if i >= n_merge:
            # ONE merge call with many pieces (5 … 12): the pieces of a 3-d data set with enough cells, every piece non-empty
            npieces = many[(i - n_merge) % len(many)]
            pieces = []
            for _ in range(30):
                whole, t = gen_mesh(rng, max_cells_per_dir=3, dims=(3,), allow_duplicates=False, allow_orphans=False)
                if sum(len(rows) for _, rows in whole["cells"]) < 2 * npieces:
                    continue
                pieces = split_pieces(rng, whole, npieces)
                if len(pieces) == npieces:
                    break
            if len(pieces) != npieces:
                continue
        else:
            whole, t = gen_mesh(rng, max_cells_per_dir=3, allow_duplicates=False, allow_orphans=False)
            if i % 3 == 0:
                make_extendable(rng, whole)
            npieces = rng.choice([2, 2, 3])
            pieces = split_pieces(rng, whole, npieces)
        if len(pieces) < 2:
            continue
        rng.shuffle(pieces)
        pre = [(rng.choice(REORDERINGS),)] if rng.random() < 0.4 else []
        post = [(rng.choice(REORDERINGS),)] if rng.random() < 0.5 else []
        rdp = rng.random() < 0.85
        tags = ["merge", f"pieces={len(pieces)}", "dedup" if rdp else "keep-duplicates"]
        n_before = ctx.spec_viol.__len__()
        check_case(ctx, {"lm": pieces[0], "steps": pre + [("merge", pieces[1:], rdp)] + post}, tags)
        # the merged pieces must be the whole they were cut from (when nothing is dropped by F3)
        if rdp and len(ctx.spec_viol) == n_before:
            fields = to_fc(pieces[0])
            f2, after, exc = run_impl_step(fields, ("merge", pieces[1:], True))
            if exc is None and py_content(after) != py_content(whole):
                ctx.violation({"lm": pieces[0], "steps": [["merge", pieces[1:], True]], "whole": whole},
                              _content_diff(py_content(whole), py_content(after)), "content of the whole", cls=None,
                              what="merge of the pieces of a data set is not the data set")
    # narrow index types: connectivity stored as uint8 / int8 / int16 / uint16 / int32 in a mesh that has MORE points than
    # the type can count (the surplus points are unconnected and come last, so every index inside a cell still fits)
    for i in range(ctx.scale(6, 120)):
        cdt = ["u8", "i8", "u8", "i16", "u16", "i32"][i % 6]
        lm, tags = gen_mesh(rng, max_cells_per_dir=2, dims=(2, 3), allow_duplicates=False, allow_orphans=False)
        cap = {"u8": 255, "i8": 127}.get(cdt)
        if cap is not None and len(lm["points"]) > cap // 2:
            continue
        span = max([abs(x) for q in lm["points"] for x in q] + [1.0])
        extra = (cap + 20 - len(lm["points"])) if cap is not None else rng.randint(3, 30)
        for j in range(extra):
            # most of the surplus points lie BELOW the mesh in every coordinate: a point sort moves them to the front, and
            # the connected points get indices beyond the range of the narrow type
            sgn = 1.0 if j % 50 == 49 else -1.0
            lm["points"].append([sgn * span * (2.0 + 0.37 * j + 0.011 * d) for d in range(lm["dim"])])
        for f in lm["pf"]:
            rs = _rowsize(f["tail"])
            f["v"] = f["v"] + [(1000 + j if f["dt"][0] in "iu" else 1000.5 + j) for j in range(extra * rs)]
        lm["conn_dtype"] = cdt
        for steps in ([("sort_points",)], [("sort_points",), ("sort_cells",)], [("sort",)], [("strip",)]):
            check_case(ctx, {"lm": lm, "steps": steps}, ["narrow-index-" + cdt, "narrow-" + steps[0][0]])
    if os.environ.get("FCV_P6G_OFF") != "1":
        p6g_batch(ctx)
    # one deterministic F3-class case per run (recorded finding, DESIGN §8)
    quad = {"dim": 2, "points": [[0.0, 0.0], [1.0, 0.0], [1.0, 1.0], [0.0, 1.0]], "cells": [["QUAD", [[0, 1, 2, 3]]]],
            "pf": [], "cf": []}
    tri = {"dim": 2, "points": [[0.0, 0.0], [1.0, 0.0], [1.0, 1.0]], "cells": [["TRIANGLE", [[0, 1, 2]]]], "pf": [], "cf": []}
    check_case(ctx, {"lm": quad, "steps": [("merge", [tri], True)]}, ["merge", "F3-witness"])
    flush(ctx)
    ctx.spec_viol = ctx.spec_viol[:40]


def replay_witness(ctx, entry):
    w = entry["witness"]
    if isinstance(w, dict) and "fn" in w:
        return core.run_named_witness(entry)
    sub = core.Ctx("C08", "quick", 0)
    sub.driver_ok = False
    n = check_case(sub, w, record=False)
    return n > 0, {"problems": n, "first": (sub.spec_viol or [None])[0]}


def replay(ctx, payload):
    case = payload["case"]
    if "lm" not in case:
        print("replay: not a failing-input replay (", payload.get("kind"), ")")
        return 1 if payload.get("kind") == "no-failing-input-found" else 0
    sub = core.Ctx("C08", "quick", 0)
    sub.driver_ok = ctx.driver_ok
    if case.get("p6g") == "views-alive":
        _views_alive(sub, case["lm"], [])
        n = len(sub.spec_viol)
    else:
        n = check_case(sub, case, record=False)
        n += flush(sub)
    for v in sub.spec_viol:
        print("replay: impl =", v["impl"], "| property demands =", v["spec"], "|", v["what"], "| class =", v["class"])
    for m in sub.corr_mismatch:
        print("replay: correspondence mismatch", m["what"])
    if n:
        print(f"VIOLATION property=C08 replay={payload.get('_path', '<replay>')}")
        return 1
    print("replay: no disagreement on this input")
    return 0
