"""C03 — a passing mesh comparison implies equality up to reordering (no false PASS).

Cases: a logical mesh with fields (fcv.meshgen), optionally relabeled (points / cells / type blocks
permuted), followed by ONE single-site modification of a given site class; compared with the
unmodified mesh in both roles by `MeshFieldsComparator(src, ref)()`.

Search (implementation vs the property): a modification that is a real change beyond the tolerances
(moved coordinate of a connected point, rewired corner, added / removed cell, one-sided type block, changed
field entry) must make `bool(suite)` False — any PASS is a violation.  Modifications that are not a change
of the compared object (rewiring to a coincident duplicate point, permuting the corners of a cell — the
code compares corner SETS —, touching an orphan point that the comparator strips, sub-tolerance moves) are
classified and not asserted; neither are meshes whose own point spacing is below the mesh tolerance.

Correspondence (implementation vs Lean model through the driver):
  * `src.domain.equals(ref.domain)` vs `Fc.C03.meshEqualWith`, and the model against `Fc.C03.meshEqualSpec`;
  * the whole comparator: the (source, reference) pairs of every rung are produced with the implementation's
    own public transformations; the model runs the ladder's control flow (`Fc.C03.ladder`) over that chain,
    evaluating `Fc.C16.equals` (Mesh = min of both tolerances, PermutedMesh = receiver's) and the field
    comparisons on every visited rung; observable = (bool(domain_equality_check), bool(suite)).

File-level batch (phase 5, `file_batch`): hand-written ascii `.vtu` files (fcv.vtufile_p5b) whose cell types are
INTERLEAVED in file order (triangle, quad, triangle, ...; as VTK / ParaView / DUNE write them, unlike the type-grouped
files of fieldcompare.io.write / meshio), carrying point and cell data.  source = reference except ONE changed entry
of the file (every cell-field row, every point-field row, every coordinate, one corner per cell, the type entry of
4-corner cells), with and without renumbering of the points / cells of the changed file, both roles; compared by the
CLI (`fieldcompare file`) and by `MeshFieldsComparator` on `fieldcompare.io.read` of both files.
  * search: a real change (geometric key of the data the FILE states differs) must give CLI exit code != 0 and
    bool(suite) False (the property; the changes are >= 25 % / 0.28 lattice spacings, far beyond every tolerance);
  * correspondence: the arrays stated by the generated text are parsed by the harness' own reference parser, grouped
    per cell type by the Lean VTU layout model (`Fc.vtuLayout` / `Fc.splitCellData`, driver op c05vtu; cross-checked
    with an independent Python grouping), turned into API objects, and the Lean ladder model evaluated on them gives
    the expected (domain check, suite) of the API comparison of the READ data and the expected CLI verdict
    (exit code 0 iff suite; CLI and API use different default tolerances - the relation is claimed only because
    every change is either absent or far beyond both).  Unchanged (renumbered) copies are expected to pass this way.
"""
from __future__ import annotations
import copy
import io
import warnings

import numpy as np

import os

from fcv import meshgen, c16io, core
from fcv import meshgen_p6g1m as mg6
from fcv import vtufile_p5b as vf
from fcv.num import f2u

REL = 1e-8


# ---------------------------------------------------------------- helpers on logical meshes

def _rowsize(tail):
    r = 1
    for d in tail:
        r *= d
    return r


def connected_points(lm):
    s = set()
    for _, rows in lm["cells"]:
        for r in rows:
            s.update(r)
    return s


def geom_key(lm):
    """the compared object: connected points with their values; cells as (type, corner coordinate SET, values)"""
    conn = connected_points(lm)
    coords = [tuple(f2u(c) for c in p) for p in lm["points"]]
    pitems = []
    for p in sorted(conn):
        vals = tuple((f["name"], tuple(repr(x) for x in f["v"][p * _rowsize(f["tail"]):(p + 1) * _rowsize(f["tail"])]))
                     for f in lm["pf"])
        pitems.append((coords[p], vals))
    citems = []
    for t, rows in lm["cells"]:
        for c, r in enumerate(rows):
            vals = tuple((f["name"], tuple(repr(x) for x in f["v"][c * _rowsize(f["tail"]):(c + 1) * _rowsize(f["tail"])]))
                         for f in lm["cf"] if f["ctype"] == t)
            citems.append((t, tuple(sorted(coords[i] for i in r)), vals))
    return sorted(pitems), sorted(citems)


def max_abs(lm):
    return max([abs(c) for p in lm["points"] for c in p] + [0.0])


def separated(lm, factor=2000.0):
    """distinct coordinate values of one column are further apart than `factor` x the mesh tolerance"""
    tol = max_abs(lm) * REL
    for j in range(lm["dim"]):
        vals = sorted(set(p[j] for p in lm["points"]))
        for a, b in zip(vals, vals[1:]):
            if b - a <= factor * max(tol, max(abs(a), abs(b)) * REL):
                return False
    return True


# ---------------------------------------------------------------- single-site modifications

SITES = ["coord-beyond", "coord-beyond", "coord-below", "rewire", "swap-corners", "permute-corners", "add-cell", "remove-cell",
         "drop-block", "add-block", "pfield-entry", "cfield-entry", "orphan-coord", "extra-column"]


def mutate(rng, lm, site):
    """-> (mutated lm, tag, expect_fail: True / False / None(not asserted))"""
    m = copy.deepcopy(lm)
    conn = sorted(connected_points(m))
    maxc = max_abs(m)
    npnt = len(m["points"])
    if site in ("coord-beyond", "coord-below"):
        p = rng.choice(conn)
        j = rng.randrange(m["dim"])
        x = m["points"][p][j]
        thr = max(abs(x) * REL, maxc * REL) or 1e-300
        f = rng.choice([3.0, 30.0, 1000.0]) if site == "coord-beyond" else rng.choice([0.0, 0.2, 0.5])
        m["points"][p][j] = x + (1 if rng.random() < 0.5 else -1) * f * thr
        return m, f"{site}-f{f}", (True if site == "coord-beyond" else None)
    if site == "orphan-coord":
        orphans = [p for p in range(npnt) if p not in set(conn)]
        if not orphans:
            return m, "orphan-none", None
        p = rng.choice(orphans)
        m["points"][p][0] += 1000.0 * (maxc * REL or 1.0)
        return m, "orphan-coord", None          # the comparator strips orphan points: not asserted
    if site in ("rewire", "permute-corners"):
        blocks = [b for b in m["cells"] if b[1]]
        b = rng.choice(blocks)
        c = rng.randrange(len(b[1]))
        row = b[1][c]
        if site == "permute-corners":
            if len(row) < 2:
                return m, "permute-none", None
            b[1][c] = row[1:] + row[:1]
            return m, "permute-corners", None   # same corner set: the code (and the property) call this equal
        k = rng.randrange(len(row))
        q = rng.randrange(npnt)
        if q == row[k]:
            q = (q + 1) % npnt
        if q == row[k]:
            return m, "rewire-none", None
        row[k] = q
        return m, "rewire", True
    if site == "swap-corners":
        # exchange one corner between two cells of a block: every index keeps its number of uses
        blocks = [b for b in m["cells"] if len(b[1]) >= 2]
        if not blocks:
            return m, "swap-none", None
        b = rng.choice(blocks)
        c1, c2 = rng.sample(range(len(b[1])), 2)
        k1, k2 = rng.randrange(len(b[1][c1])), rng.randrange(len(b[1][c2]))
        b[1][c1][k1], b[1][c2][k2] = b[1][c2][k2], b[1][c1][k1]
        return m, "swap-corners", True
    if site == "add-cell":
        b = rng.choice([b for b in m["cells"] if b[1]])
        if rng.random() < 0.5:
            row = list(rng.choice(b[1]))
            tag = "add-cell-duplicate"
        else:
            k = len(b[1][0])
            row = [rng.randrange(npnt) for _ in range(k)]
            tag = "add-cell-new"
        b[1].append(row)
        for f in m["cf"]:
            if f["ctype"] == b[0]:
                f["v"] = f["v"] + [(x + 1) for x in f["v"][-_rowsize(f["tail"]):]]
        return m, tag, True
    if site == "remove-cell":
        b = rng.choice([b for b in m["cells"] if b[1]])
        c = rng.randrange(len(b[1]))
        b[1].pop(c)
        for f in m["cf"]:
            if f["ctype"] == b[0]:
                rs = _rowsize(f["tail"])
                f["v"] = f["v"][:c * rs] + f["v"][(c + 1) * rs:]
        return m, "remove-cell" + ("-last" if not b[1] else ""), True
    if site == "drop-block":
        if len(m["cells"]) < 2:
            return m, "drop-none", None
        i = rng.randrange(len(m["cells"]))
        t = m["cells"][i][0]
        m["cells"].pop(i)
        m["cf"] = [f for f in m["cf"] if f["ctype"] != t]
        return m, "drop-block", True
    if site == "add-block":
        have = {t for t, _ in m["cells"]}
        cand = [(t, k) for t, k in (("TRIANGLE", 3), ("LINE", 2), ("VERTEX", 1), ("QUAD", 4), ("TETRA", 4), ("PIXEL", 4))
                if t not in have and k <= npnt]
        if not cand:
            return m, "addblock-none", None
        t, k = rng.choice(cand)
        # a compatible type next to its partner (quad block added to a pixel mesh) is one-sided as well
        m["cells"].insert(rng.randrange(len(m["cells"]) + 1), [t, [rng.sample(range(npnt), k)]])
        names, extra = [], []
        for f in m["cf"]:
            if f["name"] not in names:
                names.append(f["name"])
                extra.append(dict(f, ctype=t, v=([f["v"][0]] if f["v"] else [0]) * _rowsize(f["tail"])))
        m["cf"] += extra
        return m, f"add-block-{t}", True
    if site == "pfield-entry":
        if not m["pf"]:
            return m, "pfield-none", None
        f = rng.choice(m["pf"])
        p = rng.choice(conn)
        rs = _rowsize(f["tail"])
        i = p * rs + rng.randrange(rs)
        f["v"][i] = _changed(f["dt"], f["v"][i])
        return m, "pfield-" + f["dt"], True
    if site == "cfield-entry":
        fs = [f for f in m["cf"] if f["v"]]
        if not fs:
            return m, "cfield-none", None
        f = rng.choice(fs)
        i = rng.randrange(len(f["v"]))
        f["v"][i] = _changed(f["dt"], f["v"][i])
        return m, "cfield-" + f["dt"], True
    if site == "extra-column":
        if m["dim"] >= 3:
            return m, "column-none", None
        m["points"] = [p + [0.0] for p in m["points"]]
        m["dim"] += 1
        return m, "extra-zero-column", None     # C17: only zeros added, expected to pass
    raise ValueError(site)


def _changed(dt, x):
    if dt in ("i32", "i64"):
        return int(x) + 1
    if dt == "f32":
        return float(np.float32(float(x) * 1.01 + 0.5))
    return float(x) * 1.001 + 1e-3


# ---------------------------------------------------------------- implementation side

def run_comparator(src, ref, flags):
    from fieldcompare.mesh import MeshFieldsComparator
    with warnings.catch_warnings():
        warnings.simplefilter("ignore")
        with np.errstate(all="ignore"):
            try:
                suite = MeshFieldsComparator(
                    src, ref, disable_mesh_reordering=flags[0], disable_orphan_point_removal=flags[1],
                    disable_space_dimension_matching=flags[2])(fieldcomp_callback=lambda _: None)
                return ("1" if bool(suite.domain_equality_check) else "0") + ("1" if bool(suite) else "0")
            except Exception as e:  # noqa: BLE001
                return f"X:{type(e).__name__}"


def build_chain(src, ref, flags):
    """the (source, reference) pairs of every rung, produced by the implementation's public transformations"""
    from fieldcompare.mesh import strip_orphan_points, sort_points, sort_cells, extend_space_dimension_to
    chain = [(src, ref)]
    try:
        ds, dr = src.domain.points.shape[1], ref.domain.points.shape[1]
        if ds != dr and not flags[2]:
            d = max(ds, dr)
            src, ref = extend_space_dimension_to(d, src), extend_space_dimension_to(d, ref)
            chain.append((src, ref))
        if not flags[0]:
            def perm(f):
                return sort_points(f if flags[1] else strip_orphan_points(f))
            src, ref = perm(src), perm(ref)
            chain.append((src, ref))
            src, ref = sort_cells(src), sort_cells(ref)
            chain.append((src, ref))
    except Exception:  # noqa: BLE001 - a rung the comparator might never reach
        pass
    return chain


def enc_side(fields) -> str:
    from fieldcompare.mesh import Mesh
    dom = fields.domain
    kind = "E" if isinstance(dom, Mesh) else "P"
    lm = meshgen.from_fc(fields)
    return f"{kind} {f2u(dom.relative_tolerance)} {f2u(dom.absolute_tolerance)} {meshgen.enc_fields(lm)}"


def ladder_line(chain, flags) -> str:
    toks = ["c03ladder", "1" if flags[0] else "0", "1" if flags[2] else "0", str(len(chain))]
    with warnings.catch_warnings():
        warnings.simplefilter("ignore")
        for s, r in chain:
            toks += [enc_side(s), enc_side(r)]
    return " ".join(toks)


# ---------------------------------------------------------------- one case

def check_case(ctx, case, rows):
    """case = {"src": lm, "ref": lm, "flags": [..], "expect_fail": bool|None, "tag": str, "role": str}"""
    src, ref = meshgen.to_fc(case["src"]), meshgen.to_fc(case["ref"])
    flags = case["flags"]
    impl = run_comparator(src, ref, flags)
    eq0 = c16io.run_equals(src.domain, ref.domain)
    tags = list(case.get("tags", [])) + ["impl-" + impl, "site-" + case["tag"].split("-f")[0]]
    if impl.startswith("X:"):
        # extend_space_dimension_to / sort_points may legitimately refuse (documented ValueError); never a PASS
        tags.append("raised")
    if case["expect_fail"] is True:
        tags.append("assert-fail")
        if impl[-1] == "1" and not impl.startswith("X:"):
            ctx.violation({k: case[k] for k in ("src", "ref", "flags", "tag", "role")}, "PASS", "FAIL", cls=None,
                          what=f"single-site modification '{case['tag']}' beyond tolerance but the comparison passes")
    elif case["expect_fail"] is None:
        tags.append("not-asserted")
    # rung 0 against the independent oracle (index-wise equality with the smaller tolerances)
    ta, tb = c16io.tolerances(src.domain), c16io.tolerances(ref.domain)
    orc = c16io.oracle_mesh_equal(dict(case["src"]), dict(case["ref"]), min(ta[1], tb[1]), min(ta[0], tb[0]))
    if eq0 in ("T", "F") and (eq0 == "T") != orc:
        ctx.violation({k: case[k] for k in ("src", "ref")}, eq0, "T" if orc else "F", cls=None,
                      what="Mesh.equals differs from index-wise equality of points / type sets / corner sets")
    if eq0.startswith("X:"):
        ctx.violation({k: case[k] for k in ("src", "ref")}, eq0, "T|F", cls=None, what="Mesh.equals raised")
    ctx.case((case["src"], case["ref"], flags), nontrivial=case["tag"] != "none", tags=tags,
             sample={"tag": case["tag"], "role": case["role"], "flags": flags, "impl": impl, "equals": eq0,
                     "expect_fail": case["expect_fail"], "npoints": len(case["ref"]["points"])})
    if ctx.driver_ok:
        rel, abs_ = f2u(min(ta[1], tb[1])), f2u(min(ta[0], tb[0]))
        rows.append(("eq", case, eq0,
                     f"c03eq {rel} {abs_} {meshgen.enc_mesh(case['src'])} {meshgen.enc_mesh(case['ref'])}"))
        if case.get("ladder", True) and not impl.startswith("X:"):
            chain = build_chain(src, ref, flags)
            rows.append(("ladder", case, impl, ladder_line(chain, flags)))


def flush(ctx, rows):
    if not rows or not ctx.driver_ok:
        return
    reps = ctx.lean([r[3] for r in rows])
    for (kind, case, impl, _), rep in zip(rows, reps):
        small = {k: case[k] for k in ("src", "ref", "flags", "tag", "role")}
        if "hyp" not in rep:
            ctx.inconsistent(small, str(rep), "bad-op")
            continue
        ctx.dist[f"{kind}-hyp-{rep['hyp']}"] += 1
        if rep["hyp"] != "1":
            continue
        if kind == "eq":
            if rep["model"] != impl:
                ctx.mismatch(small, impl, rep["model"], what="Mesh.equals: impl vs model meshEqualWith")
            if rep["spec"] != rep["model"]:
                ctx.inconsistent(small, rep["model"], rep["spec"])
        else:
            ctx.dist["ladder-rung-" + rep.get("rung", "?")] += 1
            if rep.get("err") == "1":
                continue
            if rep["model"] != impl:
                ctx.mismatch(small, impl, rep["model"] + " rung=" + rep.get("rung", "?"),
                             what="MeshFieldsComparator (domain check, suite): impl vs model ladder")


# ---------------------------------------------------------------- file-level batch: interleaved cell types in .vtu files

def _file_state(ctx, texts):
    """{text: (arrays stated by the file, logical mesh, how)}: grouping per cell type by the Lean VTU layout model;
    by the Python grouping if the driver is not available.  The two groupings must agree (else `inconsistent`)."""
    uniq = list(dict.fromkeys(texts))
    arrs = [vf.parse_vtu(t) for t in uniq]
    reps = ctx.lean([vf.layout_line(a) for a in arrs]) if ctx.driver_ok else [None] * len(uniq)
    out = {}
    for t, a, rep in zip(uniq, arrs, reps):
        py = vf.group_py(a)
        lm, how = py, "python-grouping"
        if rep is not None:
            lm = vf.lm_from_layout(a, rep)
            how = "lean-vtuLayout"
            if lm is None or lm != py:
                ctx.inconsistent({"vtu_text": t}, str(rep)[:2000], "python grouping of the stated arrays")
                lm, how = py, "python-grouping"
        out[t] = (a, lm, how)
    return out


def run_files(src_text, ref_text, tmpdir):
    """-> (api (domain,suite) code on the READ data, CLI outcome)"""
    import os
    from fcv import cli
    sp, rp = os.path.join(tmpdir, "source.vtu"), os.path.join(tmpdir, "reference.vtu")
    with open(sp, "w") as fh:
        fh.write(src_text)
    with open(rp, "w") as fh:
        fh.write(ref_text)
    try:
        from fieldcompare.io import read
        with warnings.catch_warnings():
            warnings.simplefilter("ignore")
            api = run_comparator(read(sp), read(rp), [False, False, False])
    except Exception as e:  # noqa: BLE001
        api = f"X:read:{type(e).__name__}"
    code, _ = cli.run_cli(["file", sp, rp])
    return api, code


def file_cases(rng, thorough):
    """enumerated: base mesh x every site x renumbering variant x role (full cross for the cell-field rows, cycling
    for the other site classes) + unchanged copies in every variant and both roles"""
    cases = []
    for label, fm in vf.base_meshes(rng, thorough):
        il = "interleaved" if vf.interleaved(fm) else "grouped"
        k = 0
        for variant in vf.VARIANTS:
            for role in ("mutated-as-source", "mutated-as-reference"):
                cases.append({"base": label, "tag": "file-unchanged", "variant": variant, "role": role, "orig": fm,
                              "other": vf.renumbered(rng, fm, variant), "tags": [il]})
        for site in vf.sites(rng, fm):
            mut, tag = vf.apply_site(fm, site)
            full = site[0] == "cfield"
            variants = vf.VARIANTS if full else [vf.VARIANTS[k % 4]]
            for vi, variant in enumerate(variants):
                roles = ["mutated-as-source", "mutated-as-reference"]
                roles = roles if thorough else [roles[(k + vi) % 2]]
                for role in roles:
                    cases.append({"base": label, "tag": "file-" + tag, "variant": variant, "role": role, "orig": fm,
                                  "other": vf.renumbered(rng, mut, variant), "tags": [il], "site": list(site)})
            k += 1
    return cases


def check_file_cases(ctx, cases):
    import tempfile
    for c in cases:
        c["other_text"], c["orig_text"] = vf.vtu_text(c["other"]), vf.vtu_text(c["orig"])
    state = _file_state(ctx, [c["orig_text"] for c in cases] + [c["other_text"] for c in cases])
    rows = []
    with tempfile.TemporaryDirectory(prefix="fcv_c03_files_") as tmp:
        for c in cases:
            mutated_is_src = c["role"] == "mutated-as-source"
            st, rt = (c["other_text"], c["orig_text"]) if mutated_is_src else (c["orig_text"], c["other_text"])
            lm_s, lm_r = state[st][1], state[rt][1]
            small = {"kind": "vtu-files", "fm_src": c["other"] if mutated_is_src else c["orig"],
                     "fm_ref": c["orig"] if mutated_is_src else c["other"], "tag": c["tag"], "role": c["role"],
                     "variant": c["variant"], "base": c["base"], "flags": [False, False, False]}
            changed = geom_key(lm_s) != geom_key(lm_r)
            if c["tag"] == "file-unchanged":
                expect = False if not changed else None
            else:
                expect = True if (changed and separated(lm_s) and separated(lm_r)) else None
            api, code = run_files(st, rt, tmp)
            tags = list(c["tags"]) + ["file-level", "site-" + c["tag"], c["variant"], c["role"], f"api-{api}", f"cli-{code}",
                                      "grouping-" + state[st][2]]
            if expect is True:
                tags.append("assert-fail")
                bad = []
                if not api.startswith("X:") and api[-1] == "1":
                    bad.append("MeshFieldsComparator on the read data")
                if code == 0:
                    bad.append("CLI `fieldcompare file` (exit code 0)")
                if bad:
                    ctx.violation(small, f"PASS by {' and '.join(bad)} (api={api}, cli={code})", "FAIL", cls=None,
                                  what=f"single-site modification '{c['tag']}' of a .vtu file with {c['tags'][0]} cell types "
                                       f"({c['variant']}) beyond tolerance but the comparison passes")
            elif expect is None:
                tags.append("not-asserted")
            if api.startswith("X:") or not isinstance(code, int):
                ctx.violation(small, f"api={api}, cli={code}", "a verdict", cls=None,
                              what="reading / comparing a well-formed ascii .vtu file raised")
            ctx.case((st, rt), nontrivial=c["tag"] != "file-unchanged", tags=tags,
                     sample={"tag": c["tag"], "variant": c["variant"], "role": c["role"], "base": c["base"], "api": api,
                             "cli": code, "expect_fail": expect, "file_cell_types": [t for t, _ in small["fm_src"]["cells"]]})
            if ctx.driver_ok and not api.startswith("X:") and c.get("ladder", True):
                src, ref = meshgen.to_fc(lm_s), meshgen.to_fc(lm_r)
                chain = build_chain(src, ref, [False, False, False])
                rows.append((small, api, code, expect, ladder_line(chain, [False, False, False])))
    if not rows:
        return
    reps = ctx.lean([r[4] for r in rows])
    for (small, api, code, expect, _), rep in zip(rows, reps):
        if "hyp" not in rep:
            ctx.inconsistent(small, str(rep), "bad-op")
            continue
        ctx.dist[f"file-ladder-hyp-{rep['hyp']}"] += 1
        if rep["hyp"] != "1" or rep.get("err") == "1":
            continue
        model = rep["model"]
        if expect is not None and (model[-1] == "1") != (not expect):
            ctx.inconsistent(small, model, "FAIL" if expect else "PASS")      # model on the stated data vs the property
        if model != api:
            ctx.mismatch(small, api, model + " rung=" + rep.get("rung", "?"),
                         what="MeshFieldsComparator on fieldcompare.io.read of the .vtu files vs the model ladder on the data "
                              "the files state (own parser + Lean VTU layout)")
        if isinstance(code, int) and (code == 0) != (model[-1] == "1"):
            ctx.mismatch(small, f"cli-exit-{code}", model,
                         what="CLI `fieldcompare file` verdict vs the model ladder on the data the files state")


def file_batch(ctx):
    cases = file_cases(ctx.rng, ctx.tier == "thorough")
    # the model ladder (large driver lines) on the unchanged copies and on every 3rd (thorough: 2nd) changed pair; the
    # property (a real change must fail) is asserted on every pair
    step = 2 if ctx.tier == "thorough" else 3
    for i, c in enumerate(cases):
        c["ladder"] = c["tag"] == "file-unchanged" or i % step == 0
    CHF = 400
    for i in range(0, len(cases), CHF):
        check_file_cases(ctx, cases[i:i + CHF])
    ctx.extra["file_level_cases"] = len(cases)
    ctx.notes.append("file-level batch: ascii .vtu files with interleaved cell types (plus one type-grouped control), every "
                     "single entry of the file changed once, x renumbering of points / cells of the changed file, via CLI and "
                     "MeshFieldsComparator(read(..), read(..)); expected verdicts from the property and from the Lean ladder "
                     "model evaluated on the data the file states (harness parser + Lean VTU layout model)")


# ---------------------------------------------------------------- phase 6 (G1m): quantifier-coverage batches

def _fails(ctx, small, src_fc, ref_fc, tags, what):
    """search: the pair differs by a real change beyond the tolerances -> the comparison must not pass"""
    impl = run_comparator(src_fc, ref_fc, [False, False, False])
    ctx.case((repr(small.get("key")), small["tag"], small["role"]), nontrivial=True, tags=tags + ["impl-" + impl, "assert-fail"])
    if impl[-1] == "1" and not impl.startswith("X:"):
        ctx.violation({k: v for k, v in small.items() if k != "key"}, "PASS", "FAIL", cls=None, what=what)
        return True
    return False


def _sweep_sites(lm):
    """EVERY single site of a logical mesh once: (tag, mutated lm)"""
    maxc = max_abs(lm)
    conn = sorted(connected_points(lm))
    npnt = len(lm["points"])
    for p in conn:
        for j in range(lm["dim"]):
            m = copy.deepcopy(lm)
            x = m["points"][p][j]
            m["points"][p][j] = x + (1 if (p + j) % 2 else -1) * 1000.0 * (max(abs(x) * REL, maxc * REL) or 1e-300)
            yield f"sweep-coord-p{p}-c{j}", m
    for b, (t, rows) in enumerate(lm["cells"]):
        for c, row in enumerate(rows):
            m = copy.deepcopy(lm)
            m["cells"][b][1].pop(c)
            for f in m["cf"]:
                if f["ctype"] == t:
                    rs = _rowsize(f["tail"])
                    f["v"] = f["v"][:c * rs] + f["v"][(c + 1) * rs:]
            yield f"sweep-remove-{t}-{c}", m
            for k in range(len(row)):
                q = next((q for q in ((row[k] + d) % npnt for d in range(1, npnt)) if q not in row), None)
                if q is None:
                    continue
                m = copy.deepcopy(lm)
                m["cells"][b][1][c][k] = q
                yield f"sweep-rewire-{t}-{c}-{k}", m
    for fi, f in enumerate(lm["pf"]):
        rs = _rowsize(f["tail"])
        for p in conn:
            for e in range(rs):
                m = copy.deepcopy(lm)
                m["pf"][fi]["v"][p * rs + e] = _changed6(f["dt"], f["v"][p * rs + e])
                yield f"sweep-pfield-{f['dt']}-p{p}-e{e}", m
    for fi, f in enumerate(lm["cf"]):
        for i in range(len(f["v"])):
            m = copy.deepcopy(lm)
            m["cf"][fi]["v"][i] = _changed6(f["dt"], f["v"][i])
            yield f"sweep-cfield-{f['dt']}-{f['ctype']}-{i}", m


def _changed6(dt, x):
    if dt == "str":
        return str(x) + "x"
    if dt[0] in "iu":
        return int(x) + 1 if int(x) < 100 else int(x) - 1
    return _changed(dt, x)


def _relabel6(rng, lm):
    """meshgen.relabel for logical meshes that may carry string fields (orphan rows get "" instead of 0)"""
    out = meshgen.relabel(rng, lm)
    return out


def _big_modify(lm, other, kind, ix):
    """`other` (a storage of `lm`: same order or relabelled) with ONE change at the entity that has index `ix` in `lm`
    (found in `other` through its pairwise distinct field value): coord / pfield / cfield / rewire"""
    n, ncell = len(lm["points"]), len(lm["cells"][0][1])
    m = {"dim": other["dim"], "points": other["points"], "cells": other["cells"], "pf": other["pf"], "cf": other["cf"]}
    if kind in ("coord", "pfield"):
        pos = other["pf"][0]["v"].index(lm["pf"][0]["v"][ix % n])
        if kind == "coord":
            m["points"] = list(other["points"])
            m["points"][pos] = [m["points"][pos][0] + 0.37] + list(m["points"][pos][1:])
        else:
            f = dict(other["pf"][0], v=list(other["pf"][0]["v"]))
            f["v"][pos] += 0.125
            m["pf"] = [f]
    else:
        pos = other["cf"][0]["v"].index(lm["cf"][0]["v"][ix % ncell])
        if kind == "cfield":
            f = dict(other["cf"][0], v=list(other["cf"][0]["v"]))
            f["v"][pos] += 1
            m["cf"] = [f]
        else:
            t, rws = other["cells"][0]
            rws = list(rws)
            row = list(rws[pos])
            row[-1] = next(q for q in range(n) if q not in row and (q + 1) % n not in row)
            rws[pos] = row
            m["cells"] = [[t, rws]]
    return m


def p6g_batch(ctx, rows):
    """directed batches for dimensions of the quantifier sampled at one point only before (notes/PHASE6_G1m_audit.md).
    FCV_P6G_OFF=1 switches them off."""
    import time
    rng = ctx.rng
    t0 = [time.time()]
    secs = ctx.extra.setdefault("p6g_seconds", {})

    def lap(name):
        secs[name] = round(secs.get(name, 0.0) + time.time() - t0[0], 2)
        t0[0] = time.time()
    # (a) both members of a compatible pair in ONE mesh x every site class: full machinery (Lean eq / ladder model)
    for i in range(ctx.scale(56, 700)):
        site = SITES[i % len(SITES)]
        lm, t = mg6.gen_pair_mesh(rng, max_cells_per_dir=3, scale=rng.choice([1e-3, 1.0, 1.0, 2.5, 1e3]))
        if i % 5 == 4:
            lm = mg6.insert_orphans(rng, lm, rng.choice(["front", "middle", "scattered"]), 2)
        sep = separated(lm)
        base_key = geom_key(lm)
        relabeled = rng.random() < 0.6
        other = meshgen.relabel(rng, lm, extra_orphans=rng.choice([0, 0, 1])) if relabeled else copy.deepcopy(lm)
        mut, tag, expect = mutate(rng, other, site)
        if expect is True:
            if geom_key(mut) == base_key:
                expect, tag = None, tag + "-no-real-change"
            elif not sep:
                expect, tag = None, tag + "-unseparated"
        tags = ["p6g-pair", f"dim{t['dim']}", "style-" + t["style"], "relabeled" if relabeled else "same-order"]
        for role in ("mutated-as-source", "mutated-as-reference"):
            s, rf = (mut, lm) if role == "mutated-as-source" else (lm, mut)
            check_case(ctx, {"src": s, "ref": rf, "flags": [False, False, False], "expect_fail": expect, "tag": tag, "role": role,
                             "tags": tags + [role], "ladder": ctx.tier == "thorough" or i % 4 == 0}, rows)
    lap("pair")
    # (b) EVERY site of a few meshes (each point x coordinate, each cell, each corner, each field entry), the unmodified
    # object REUSED for all comparisons, storage of either side varied (search only)
    nst = len(mg6.STORAGES)
    for i in range(ctx.scale(2, 60)):
        if i % 2:
            lm, t = mg6.gen_pair_mesh(rng, max_cells_per_dir=2, scale=rng.choice([1.0, 2.5, 1e3]))
        else:
            lm, t = meshgen.gen_mesh(rng, max_cells_per_dir=2, dims=(2, 3), allow_duplicates=False, allow_orphans=False,
                                     scale=rng.choice([1.0, 2.5]))
            for _ in range(20):
                if t["jitter"] == 0.0 and t["topo"] >= 2:
                    break
                lm, t = meshgen.gen_mesh(rng, max_cells_per_dir=2, dims=(2, 3), allow_duplicates=False, allow_orphans=False,
                                         scale=rng.choice([1.0, 2.5]))
        lm = mg6.add_odd_fields(rng, lm, names=(i % 4 < 2), strings=True)
        lm = mg6.round_to_f32(lm)
        if not separated(lm):
            continue
        st_ref = mg6.STORAGES[(2 * i) % nst] if i % 3 else mg6.DEFAULT_STORAGE
        if not mg6.storage_fits(lm, st_ref):
            st_ref = mg6.DEFAULT_STORAGE
        ref_fc = mg6.to_fc_storage(lm, st_ref)                   # built ONCE, used in every comparison below
        base_key = geom_key(lm)
        relab = i % 2 == 0
        for k, (tag, mut) in enumerate(_sweep_sites(lm)):
            st = mg6.STORAGES[(i + k) % nst] if k % 2 else mg6.DEFAULT_STORAGE
            if "f4" in st["pts"] or "f4" in st_ref["pts"]:
                mut = mg6.round_to_f32(mut)
            if geom_key(mut) == base_key:
                continue
            if relab:
                mut = _relabel6(rng, mut)
            if not mg6.storage_fits(mut, st):
                st = mg6.DEFAULT_STORAGE
            mut_fc = mg6.to_fc_storage(mut, st)
            for role in ("mutated-as-source", "mutated-as-reference"):
                s, r = (mut_fc, ref_fc) if role == "mutated-as-source" else (ref_fc, mut_fc)
                small = {"kind": "p6g-storage", "src": mut if s is mut_fc else lm, "ref": lm if s is mut_fc else mut,
                         "st_src": st if s is mut_fc else st_ref, "st_ref": st_ref if s is mut_fc else st,
                         "flags": [False, False, False], "tag": tag, "role": role, "key": (i, k)}
                _fails(ctx, small, s, r, ["p6g-sweep", "site-" + tag.split("-")[1], "p6g-" + mg6.storage_tag(st),
                                          "relabeled" if relab else "same-order", role],
                       f"single-site modification '{tag}' beyond tolerance but the comparison passes "
                       f"(storage {mg6.storage_tag(st)} vs {mg6.storage_tag(st_ref)}, reference object reused)")
        # the reused reference object still is what it was
        if c08units(meshgen_from_any(ref_fc)) != c08units(lm):
            ctx.violation({"kind": "p6g-storage", "src": lm, "ref": lm, "st_src": st_ref, "st_ref": st_ref, "tag": "reuse",
                           "role": "-", "flags": [False, False, False]}, "changed", "unchanged", cls=None,
                          what="a data set changed by being compared repeatedly")
    lap("sweep")
    # (c) sizes: more than 1000 / more than 65536 points, the modified site at the first / last / middle entity and next to
    # the powers of two (search only)
    bigs = [(mg6.big_lattice(33, 34, dim=2, style="quad"),
             [0, 999, 1000, 1023, 1024, -1] if ctx.tier != "thorough" else [0, 1, 511, 512, 999, 1000, 1023, 1024, -2, -1]),
            (mg6.big_lattice(1100, 0, dim=1, style="line"), [0, 1000, 1024, -1])]
    if True:
        bigs.append((mg6.big_lattice(260, 256, dim=3, style="quad"),
                     [65536, -1] if ctx.tier != "thorough" else [0, 1, 1000, 32768, 65535, 65536, 65537, -2, -1]))
    for lm, idxs in bigs:
        n, ncell = len(lm["points"]), len(lm["cells"][0][1])
        st = {"pts": "<f8", "layout": "C", "conn": "i32", "fields": "C"} if n > 60000 else mg6.DEFAULT_STORAGE
        ref_fc = mg6.to_fc_storage(lm, st)
        same = mg6.fast_relabel(rng, lm, "identity")
        perm = mg6.fast_relabel(rng, lm, "random")
        for variant, other in (("same-order", same), ("relabeled", perm)):
            for k, ix in enumerate(idxs):
                kinds = ["coord", "pfield", "cfield", "rewire"] if n < 60000 else [["coord", "cfield", "pfield", "rewire"][k % 4]]
                for kind in kinds:
                    m = _big_modify(lm, other, kind, ix)
                    mut_fc = mg6.to_fc_storage(m, st)
                    for role in (("mutated-as-source", "mutated-as-reference") if ctx.tier == "thorough" and n < 60000 else
                                 (("mutated-as-source",) if (k + len(kind)) % 2 else ("mutated-as-reference",))):
                        s, r = (mut_fc, ref_fc) if role == "mutated-as-source" else (ref_fc, mut_fc)
                        small = {"kind": "p6g-big", "nx_ny_dim_style": None, "npoints": n, "site": kind, "index": ix,
                                 "variant": variant, "tag": f"big-{kind}-at-{ix}", "role": role, "key": (n, kind, ix, variant),
                                 "flags": [False, False, False]}
                        if n < 1300:
                            small.update({"kind": "p6g-storage", "src": m if s is mut_fc else lm, "ref": lm if s is mut_fc else m,
                                          "st_src": st, "st_ref": st})
                        else:
                            small["lattice"] = [260, 256, 3, "quad"]        # regenerated by replay()
                        _fails(ctx, small, s, r, ["p6g-big", f"p6g-npoints={n}", "site-big-" + kind, variant, role,
                                                  f"p6g-index={ix}"],
                               f"{n} points: single-site modification '{kind}' at original index {ix} but the comparison passes")
    lap("big")


def c08units(lm):
    return {"points": [[f2u(c) for c in p] for p in lm["points"]], "cells": lm["cells"],
            "pf": sorted([f["name"], f["dt"], f["tail"], [repr(x) for x in f["v"]]] for f in lm["pf"]),
            "cf": sorted([f["name"], f["ctype"], f["dt"], f["tail"], [repr(x) for x in f["v"]]] for f in lm["cf"])}


def meshgen_from_any(fields):
    return mg6.from_fc_any(fields)


# ---------------------------------------------------------------- phase 6: a selected predicate that RAISES on the deviating field

class _RaisesOnDeviation:
    """user predicate in the style of numpy.testing.assert_allclose: returns success or RAISES (AssertionError)"""

    def __call__(self, a, b):
        from fieldcompare.predicates import PredicateResult
        np.testing.assert_allclose(a, b, rtol=1e-9, atol=0.0)
        return PredicateResult(True)

    def __str__(self):
        return "RaisesOnDeviation(rtol=1e-9)"


class _Recording:
    """wraps a predicate and records the (annotation-free) field names on which it raised"""

    def __init__(self, inner, log, name):
        self.inner, self.log, self.name = inner, log, name

    def __call__(self, a, b):
        try:
            return self.inner(a, b)
        except Exception:
            self.log.append(self.name)
            raise

    def __str__(self):
        return "Recording(" + str(self.inner) + ")"


def _pred_selector(kind, log):
    from fieldcompare.predicates import DefaultEquality, FuzzyEquality

    def sel(sf, rf):
        if kind == "a":
            inner = _RaisesOnDeviation()
        elif kind == "c" and sf.name == "v":
            # per-component tolerances of the WRONG length (the field has 2 or 3 components)
            inner = FuzzyEquality(abs_tol=np.array([1e-9] * 5), rel_tol=1e-9)
        else:
            inner = DefaultEquality()
        return _Recording(inner, log, sf.name)
    return sel


def run_pred_case(case):
    """-> observable dict of MeshFieldsComparator(src, ref)(predicate_selector=...) for a p6-predicate-raises case"""
    from fieldcompare.mesh import MeshFieldsComparator
    log, msgs = [], []
    src, ref = mg6.to_fc_storage(case["src"]), mg6.to_fc_storage(case["ref"])
    with warnings.catch_warnings():
        warnings.simplefilter("ignore")
        with np.errstate(all="ignore"):
            try:
                suite = MeshFieldsComparator(src, ref)(predicate_selector=_pred_selector(case["pred"], log),
                                                       fieldcomp_callback=lambda _: None, reordering_callback=msgs.append)
            except Exception as e:  # noqa: BLE001
                return {"escaped": type(e).__name__, "raised": sorted(set(log))}
    rung = "as-is"
    for m in msgs:
        if "Retrying with " in m:
            rung = m.split("Retrying with ")[-1].rstrip(".").replace(" ", "-")
    return {"suite": bool(suite), "status": suite.status.name, "domain": bool(suite.domain_equality_check),
            "statuses": sorted((c.name, c.status.name) for c in suite), "failed": sorted(c.name for c in suite.failed),
            "passed": sorted(c.name for c in suite.passed), "skipped": sorted(c.name for c in suite.skipped),
            "raised": sorted(set(log)), "rung": rung, "report": suite.report}


def pred_case_problems(case, obs):
    """what the property demands of such a case -> list of problem descriptions"""
    if "escaped" in obs:
        return []                       # an exception that leaves the comparator is not a PASS
    bad = []
    base = lambda n: n.split(" @ ")[0]   # noqa: E731
    for name in obs["raised"]:
        comps = [(n, st) for n, st in obs["statuses"] if base(n) == name]
        if not comps or any(st not in ("error", "failed") for _, st in comps if st != "passed") or \
                not any(st in ("error", "failed") for _, st in comps):
            bad.append(f"the predicate raised on field '{name}' but its comparison is reported as {comps}")
        if not any(base(n) == name for n in obs["failed"]):
            bad.append(f"the predicate raised on field '{name}' but the comparison is not among suite.failed")
        if any(base(n) == name for n in obs["skipped"]):
            bad.append(f"the predicate raised on field '{name}' and the comparison is counted as skipped")
    if obs["raised"] and (obs["suite"] or obs["status"] != "failed"):
        bad.append(f"a predicate raised ({obs['raised']}) but bool(suite)={obs['suite']}, suite.status={obs['status']}")
    if case["changed"] and (obs["suite"] or obs["status"] != "failed"):
        bad.append(f"one changed entry ({case['changed']}) with a predicate that raises on it, but bool(suite)={obs['suite']}, "
                   f"suite.status={obs['status']}")
    return bad


def _pad3(lm):
    """the same 2-d data set stored with three coordinate columns (zero z, vectors padded)"""
    out = copy.deepcopy(lm)
    out["points"] = [p + [0.0] for p in out["points"]]
    out["dim"] = 3
    for f in out["pf"] + out["cf"]:
        if f["tail"] == [2]:
            v = []
            for i in range(0, len(f["v"]), 2):
                v += f["v"][i:i + 2] + [0.0]
            f["tail"], f["v"] = [3], v
    return out


def _perm_points_only(rng, lm):
    """points (and point fields) permuted, cells and type blocks in place"""
    n = len(lm["points"])
    perm = list(range(n))
    rng.shuffle(perm)
    inv = {old: new for new, old in enumerate(perm)}
    out = {"dim": lm["dim"], "points": [list(lm["points"][o]) for o in perm],
           "cells": [[t, [[inv[i] for i in r] for r in rows]] for t, rows in lm["cells"]], "pf": [], "cf": copy.deepcopy(lm["cf"])}
    for f in lm["pf"]:
        rs = _rowsize(f["tail"])
        out["pf"].append(dict(f, v=[x for o in perm for x in f["v"][o * rs:(o + 1) * rs]]))
    return out


def pred_raises_batch(ctx):
    """tag p6-predicate-raises: the selected predicate RAISES on the deviating field (per-field status `error`):
    (a) a user predicate that raises only on deviation, (b) DefaultEquality on a float field vs a STRING field of the same
    name, (c) FuzzyEquality with a per-component tolerance array of the wrong length.  Operands prepared so that each rung of
    the retry ladder is the deciding one (as-is / extended dimension / sorted points / sorted cells).  Demanded: a raise is
    reported as `error`, counted among suite.failed (never skipped / passed), bool(suite) False, suite.status failed; with ONE
    changed entry the suite fails.  Search only (python-side expectation; the Lean ladder model has no raising predicates)."""
    import os as _os
    import tempfile
    from fcv import cli
    rng = ctx.rng
    n_viol = 0
    for i in range(ctx.scale(3, 40)):
        if i % 3 == 0:
            lm = mg6.big_lattice(3, 2, dim=2, style="quad", point_fields=0, cell_fields=0)
        else:
            lm, _ = mg6.gen_pair_mesh(rng, topo=2, dim=2, max_cells_per_dir=3, scale=rng.choice([1.0, 2.5]), fields=False)
        n = len(lm["points"])
        lm["pf"] = [{"name": "u", "dt": "f64", "tail": [], "v": [1.5 + 0.25 * k for k in range(n)]},
                    {"name": "v", "dt": "f64", "tail": [2], "v": [3.0 + 0.5 * k for k in range(2 * n)]}]
        lm["cf"] = [{"name": "c", "ctype": t, "dt": "f64", "tail": [], "v": [7.0 + 0.125 * k + 100 * b for k in range(len(rows))]}
                    for b, (t, rows) in enumerate(lm["cells"])]
        variants = [("as-is", lambda m: copy.deepcopy(m)),
                    ("3d-vs-2d", _pad3),
                    ("points-permuted+orphan", lambda m: mg6.insert_orphans(rng, _perm_points_only(rng, m), "front", 1)),
                    ("relabelled+orphans", lambda m: meshgen.relabel(rng, m, extra_orphans=2)),
                    ("3d+relabelled", lambda m: meshgen.relabel(rng, _pad3(m), extra_orphans=1))]
        sites = [None, ("u", 0), ("u", n - 1), ("u", n // 2), ("v", 2 * n - 1), ("v", 0), ("c", 0)]
        for vi, (vname, prep) in enumerate(variants):
            for pred in ("a", "b", "c"):
                for si, site in enumerate(sites):
                    if ctx.tier != "thorough" and site is not None and (si + vi + i) % 3 != 0 and pred != "a":
                        continue
                    mut = copy.deepcopy(lm)
                    if site is not None:
                        fs = [f for f in mut["pf"] + mut["cf"] if f["name"] == site[0]]
                        fs[0]["v"][site[1] % len(fs[0]["v"])] += 0.0625
                    if pred == "b":
                        # the float field `u` is a STRING field of the same name on the modified side
                        mut["pf"][0] = dict(mut["pf"][0], dt="str", v=[repr(x) for x in mut["pf"][0]["v"]])
                    other = prep(mut)
                    for role in ("mutated-as-source", "mutated-as-reference"):
                        s_, r_ = (other, lm) if role == "mutated-as-source" else (lm, other)
                        case = {"kind": "p6-pred", "src": s_, "ref": r_, "pred": pred, "changed": list(site) if site else None,
                                "variant": vname, "role": role, "tag": f"pred-{pred}-{site[0] if site else 'unchanged'}",
                                "flags": [False, False, False]}
                        obs = run_pred_case(case)
                        probs = pred_case_problems(case, obs)
                        ctx.case(("p6-pred", i, vname, pred, si, role), nontrivial=site is not None or pred != "a",
                                 tags=["p6-predicate-raises", "pred-" + pred, "variant-" + vname, role,
                                       "rung-" + obs.get("rung", "escaped"), "changed" if site else "unchanged",
                                       "raised" if obs.get("raised") else "not-raised",
                                       "suite-" + str(obs.get("suite", "escaped:" + str(obs.get("escaped"))))],
                                 sample={"pred": pred, "variant": vname, "changed": site, "obs": obs} if si == 1 and vi == 3 else None)
                        if probs and n_viol < 20:
                            n_viol += 1
                            ctx.violation(case, "; ".join(probs)[:1500] + f" | statuses={obs.get('statuses')} rung={obs.get('rung')}",
                                          "FAIL (error status counted as failure)", cls=None,
                                          what="a raising predicate / a changed entry under a raising predicate does not make the comparison fail")
    # (b) through the CLI: a numeric column vs a string column of the same name (tabular files; VTK formats cannot state strings)
    with tempfile.TemporaryDirectory(prefix="fcv_c03_pred_") as tmp:
        fa, fb, fc_ = (_os.path.join(tmp, x) for x in ("a.csv", "b.csv", "c.csv"))
        open(fa, "w").write("x,u\n0.0,1.5\n1.0,2.5\n2.0,3.5\n")
        open(fb, "w").write("x,u\n0.0,abc\n1.0,def\n2.0,ghi\n")
        open(fc_, "w").write("x,u\n0.0,1.5\n1.0,2.5\n2.0,3.5\n")
        for name, args, want_zero in (("num-vs-str", [fa, fb], False), ("str-vs-num", [fb, fa], False), ("same", [fa, fc_], True)):
            code, _ = cli.run_cli(["file"] + args)
            ctx.case(("p6-pred-cli", name), nontrivial=True, tags=["p6-predicate-raises", "pred-b-cli", f"cli-{code}"])
            if (code == 0) != want_zero and not want_zero:
                ctx.violation({"kind": "p6-pred-cli", "files": {"a.csv": open(args[0]).read(), "b.csv": open(args[1]).read()}, "tag": name,
                               "role": "-", "flags": []}, f"exit={code}", "exit != 0", cls=None,
                              what="CLI: numeric column vs string column of the same name compares as passed")


def gen_cases(rng, i, ladder=True):
    """cases derived from one base mesh"""
    site = SITES[i % len(SITES)]
    want_topo2 = rng.random() < 0.7
    for _ in range(40):
        kw = {}
        if site == "drop-block":
            kw = {"dims": (2, 3), "types": rng.choice(["mixed2", "mixed3"])}
        lm, t = meshgen.gen_mesh(rng, max_cells_per_dir=3, allow_orphans=True, allow_duplicates=True, **kw)
        if site == "drop-block":
            if len(lm["cells"]) >= 2:
                break
        elif t["topo"] >= 2 or not want_topo2:
            break
    sep = separated(lm)
    base_key = geom_key(lm)
    out = []
    relabeled = rng.random() < 0.6
    other = meshgen.relabel(rng, lm, extra_orphans=rng.choice([0, 0, 1])) if relabeled else copy.deepcopy(lm)
    mut, tag, expect = mutate(rng, other, site)
    if expect is True:
        if geom_key(mut) == base_key:
            expect, tag = None, tag + "-no-real-change"     # e.g. rewired to a coincident duplicate point
        elif not sep:
            expect, tag = None, tag + "-unseparated"        # the mesh's own spacing is below its tolerance
    r = rng.random()
    flags = [r < 0.08, 0.08 <= r < 0.16, 0.16 <= r < 0.22]
    tags = [f"dim{t['dim']}", f"style-{t['style']}", "relabeled" if relabeled else "same-order",
            "sep" if sep else "unsep"] + (["duplicates"] if "duplicates" in t else []) + (["orphans"] if "orphans" in t else [])
    for role in ("mutated-as-source", "mutated-as-reference"):
        s, rf = (mut, lm) if role == "mutated-as-source" else (lm, mut)
        out.append({"src": s, "ref": rf, "flags": flags, "expect_fail": expect, "tag": tag, "role": role,
                    "tags": tags + [role], "ladder": ladder})
    return out


def run(ctx):
    ctx.rule = ("case = (source, reference, comparator flags): a generated mesh with fields (1-3 coordinate columns, "
                "line/triangle/quad/pixel/polygon/tetra/hexahedron/voxel, hybrid, orphan points, coincident duplicate points), "
                "optionally relabeled, with ONE single-site modification (site classes: coordinate beyond / below tolerance, "
                "rewired corner, permuted corners, added / removed cell, dropped / added type block, point / cell field entry, "
                "orphan coordinate, extra zero column), in both roles; plus file-level cases: a pair of ascii .vtu files with "
                "interleaved cell types differing in ONE entry (cell / point field row, coordinate, corner, type entry), "
                "with / without renumbered points / cells, compared by the CLI and by the API on the read data; "
                "non-trivial = a modification was applied; distinct = distinct (source, reference, flags)")
    ctx.assumptions += [
        "the transformations applied by the retry ladder are content-preserving relabelings (C08) / zero padding (C17): "
        "named hypotheses of C03_ladder_sound; their outputs enter the model ladder as data produced by the implementation",
        "numpy float64 arithmetic is IEEE round-to-nearest-even (Fc.rndMag)",
    ]
    rng = ctx.rng
    n = ctx.scale(420, 3000)
    rows = []
    for i in range(n):
        # the whole-comparator correspondence (large driver lines) on every 4th base mesh in the quick tier
        for case in gen_cases(rng, i, ladder=(ctx.tier == "thorough" or i % 4 == 0)):
            check_case(ctx, case, rows)
        if len(rows) >= 1500:
            flush(ctx, rows)
            rows = []
    flush(ctx, rows)
    if os.environ.get("FCV_P6G_OFF") != "1":
        rows = []
        p6g_batch(ctx, rows)
        flush(ctx, rows)
        pred_raises_batch(ctx)
    file_batch(ctx)
    ctx.spec_viol = sorted(ctx.spec_viol, key=lambda v: len(str(v["case"])))[:100]


# ---------------------------------------------------------------- witnesses / replay

def replay_witness(ctx, entry):
    w = entry.get("witness", {})
    if isinstance(w, dict) and "fn" in w:
        return core.run_named_witness(entry)
    impl = run_comparator(meshgen.to_fc(w["src"]), meshgen.to_fc(w["ref"]), w.get("flags", [False, False, False]))
    return impl[-1] == "1", f"comparator={impl}"


def replay_files(ctx, payload):
    import tempfile
    case = payload["case"]
    st, rt = vf.vtu_text(case["fm_src"]), vf.vtu_text(case["fm_ref"])
    with tempfile.TemporaryDirectory(prefix="fcv_c03_replay_") as tmp:
        api, code = run_files(st, rt, tmp)
    lm_s, lm_r = vf.group_py(vf.parse_vtu(st)), vf.group_py(vf.parse_vtu(rt))
    changed = geom_key(lm_s) != geom_key(lm_r)
    print(f"replay: .vtu files, file order of the cell types {[t for t, _ in case['fm_src']['cells']]} (source), "
          f"modification={case.get('tag')} numbering={case.get('variant')} role={case.get('role')}")
    print(f"replay: data stated by the two files differ: {changed}; MeshFieldsComparator(read, read) (domain,suite)={api} "
          f"CLI exit code={code}")
    passed = (not api.startswith("X:") and api[-1] == "1") or code == 0
    bad = (payload.get("spec") == "FAIL" and changed and passed) or api.startswith("X:") or not isinstance(code, int)
    if payload.get("model") is not None and isinstance(payload.get("model"), str) and not bad:
        # replay of a correspondence mismatch: unchanged copies must pass, changed ones must fail
        bad = (not changed and not passed) or (changed and passed)
    if bad:
        print(f"VIOLATION property=C03 replay={payload.get('_path', '<replay>')}")
        return 1
    print("replay: no violation")
    return 0


def replay(ctx, payload):
    case = payload["case"]
    if case.get("kind") == "vtu-files":
        return replay_files(ctx, payload)
    if case.get("kind") == "p6-pred":
        obs = run_pred_case(case)
        probs = pred_case_problems(case, obs)
        print(f"replay: predicate kind {case['pred']} ({case['variant']}, {case['role']}, changed entry {case['changed']}): {obs}")
        for pr in probs:
            print("replay: problem:", pr)
        if probs:
            print(f"VIOLATION property=C03 replay={payload.get('_path', '<replay>')}")
            return 1
        print("replay: no violation")
        return 0
    if case.get("kind") == "p6-pred-cli":
        import tempfile
        from fcv import cli
        with tempfile.TemporaryDirectory(prefix="fcv_c03_pred_") as tmp:
            import os as _os
            fa, fb = _os.path.join(tmp, "a.csv"), _os.path.join(tmp, "b.csv")
            open(fa, "w").write(case["files"]["a.csv"])
            open(fb, "w").write(case["files"]["b.csv"])
            code, _ = cli.run_cli(["file", fa, fb])
        print(f"replay: CLI exit code {code} for a numeric vs a string column of the same name")
        if code == 0:
            print(f"VIOLATION property=C03 replay={payload.get('_path', '<replay>')}")
            return 1
        return 0
    if case.get("kind") == "p6g-big":
        import random
        nx, ny, dim, style = case["lattice"]
        lm = mg6.big_lattice(nx, ny, dim=dim, style=style)
        other = mg6.fast_relabel(random.Random(0), lm, "identity" if case["variant"] == "same-order" else "random")
        st = {"pts": "<f8", "layout": "C", "conn": "i32", "fields": "C"}
        mut_fc, ref_fc = mg6.to_fc_storage(_big_modify(lm, other, case["site"], case["index"]), st), mg6.to_fc_storage(lm, st)
        s_, r_ = (mut_fc, ref_fc) if case["role"] == "mutated-as-source" else (ref_fc, mut_fc)
        impl = run_comparator(s_, r_, [False, False, False])
        print(f"replay: {len(lm['points'])}-point lattice ({case['variant']}), '{case['site']}' changed at original index {case['index']}, "
              f"{case['role']}: comparator (domain,suite)={impl}")
        if impl[-1] == "1" and not impl.startswith("X:"):
            print(f"VIOLATION property=C03 replay={payload.get('_path', '<replay>')}")
            return 1
        print("replay: no violation")
        return 0
    if case.get("kind") == "p6g-storage":
        src, ref = mg6.to_fc_storage(case["src"], case["st_src"]), mg6.to_fc_storage(case["ref"], case["st_ref"])
        impl = run_comparator(src, ref, case.get("flags", [False, False, False]))
        changed = geom_key(case["src"]) != geom_key(case["ref"])
        print(f"replay: storage {mg6.storage_tag(case['st_src'])} vs {mg6.storage_tag(case['st_ref'])}: comparator "
              f"(domain,suite)={impl}, data sets differ: {changed}, modification={case.get('tag')}")
        if changed and impl[-1] == "1" and not impl.startswith("X:"):
            print(f"VIOLATION property=C03 replay={payload.get('_path', '<replay>')}")
            return 1
        print("replay: no violation")
        return 0
    src, ref = meshgen.to_fc(case["src"]), meshgen.to_fc(case["ref"])
    flags = case.get("flags", [False, False, False])
    impl = run_comparator(src, ref, flags)
    eq0 = c16io.run_equals(src.domain, ref.domain)
    ta, tb = c16io.tolerances(src.domain), c16io.tolerances(ref.domain)
    orc = c16io.oracle_mesh_equal(case["src"], case["ref"], min(ta[1], tb[1]), min(ta[0], tb[0]))
    print(f"replay: comparator (domain,suite)={impl} Mesh.equals={eq0} index-wise oracle={'T' if orc else 'F'} "
          f"modification={case.get('tag')}")
    bad = (payload.get("spec") == "FAIL" and impl[-1] == "1" and not impl.startswith("X:")) or \
          (payload.get("spec") in ("T", "F") and eq0 != payload.get("spec"))
    if bad:
        print(f"VIOLATION property=C03 replay={payload.get('_path', '<replay>')}")
        return 1
    print("replay: no violation")
    return 0
