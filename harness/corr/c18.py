"""C18 — a truncated or damaged result file never compares as passed.

Fault enumeration (the body of this check): for one generated file of every kind
  .vtu  x {ascii, inline base64, appended base64, appended raw} x {uncompressed, zlib}, UInt32 / UInt64 headers,
  .vtp, .vti, .vtr, .vts, .pvtu (+ pieces), .pvd (+ steps), .csv (last column float / int / string)
the file is cut at byte offsets (quick: every 7th offset + every structural boundary + the last 48 bytes; thorough:
every offset) and every single data array / piece / step / column is removed; `fieldcompare._cli.main(["file", …])`
is run in-process with the damaged file as result and as reference.  An exception leaving `main` is a violation.
A fault is *data-losing* iff the independent reference parser (`fcv/c18files.py`) obtains a different logical
content from the damaged file than from the complete one; a data-losing fault with exit 0 is a violation.
CSV cuts that change the last number by no more than the default tolerance (eps) are reported separately
("tolerance"): by C01 the comparison has to accept them.

Correspondence with the Lean model (`Fc.W`, FcModel/Truncation.lean):
  * the fallback parser `_find_appendix_positions` / `_determine_encoding` vs `Fc.W.fallback` on every cut prefix
    of the appended-data files,
  * `NoCompressor` / `ZLIBCompressor.get_decompressed_data` on every prefix of an encoded array vs
    `Fc.W.noCompReadE` / `compReadE` (codec as a finite table) and the length assertion,
  * the decision structure: `main` with the reader patched to raise every exception class the readers can raise
    (and with in-memory data sets of every field-status combination) vs `Fc.W.runFileMode`,
  * the stored form of a compressed array: the harness' encoder vs `Fc.W.encodeComp` (codec as a table), and the
    codec hypotheses of C18_payload_short_compressed (`CodecOK`) observed for zlib / lzma / lz4 on every block,
  * expat vs the `XmlLite` scanner (`Fc.XmlLite.scan`) on every enumerated cut of every VTK-XML file; every
    generated file is re-serialized by `Fc.XmlLite.Doc.ser` from its token tree (it is in the image of the
    serializer, so C18_xml_prefix speaks about it) and the theorem's prediction is re-checked per offset.
"""
from __future__ import annotations
import contextlib
import io
import itertools
import os
import shutil
import tempfile
import lzma
import warnings
import zlib

import numpy as np

from fcv import core
from fcv import c18files as cf

# ------------------------------------------------------------------ file sets


class FileSet:
    """files of one comparison: `main` is handed to the CLI, `target` is the file that gets damaged"""

    def __init__(self, label, kind, files: dict, main: str, target: str):
        self.label, self.kind, self.files, self.main, self.target = label, kind, files, main, target


def build_sets(rng):
    ds = cf.small_dataset(rng)
    vals = [rng.uniform(1, 2), rng.randint(3, 9) + 0.5, rng.uniform(0.1, 0.2)]
    sets = []
    cfgs = [cf.Cfg("ascii"), cf.Cfg("binary", None, "UInt64"), cf.Cfg("binary", "zlib", "UInt32"),
            cf.Cfg("appended-base64", None, "UInt32"), cf.Cfg("appended-base64", "zlib", "UInt64"),
            cf.Cfg("appended-raw", None, "UInt64"), cf.Cfg("appended-raw", "zlib", "UInt32")]
    cfgs.append(cf.Cfg("binary", "lzma", "UInt32", 64))
    if "lz4" in cf.COMPRESS:
        cfgs.append(cf.Cfg("appended-raw", "lz4", "UInt64", 64))
    for c in cfgs:
        sets.append(FileSet(f"vtu-{c.label}", "vtk", {"m.vtu": cf.vtu_bytes(ds, c)}, "m.vtu", "m.vtu"))
    sets.append(FileSet("vtp-binary", "vtk", {"m.vtp": cf.vtp_bytes(ds, cf.Cfg("binary", None, "UInt32"))}, "m.vtp", "m.vtp"))
    sets.append(FileSet("vtp-appended-raw", "vtk", {"m.vtp": cf.vtp_bytes(ds, cf.Cfg("appended-raw"))}, "m.vtp", "m.vtp"))
    sets.append(FileSet("vti-ascii", "vtk", {"m.vti": cf.vti_bytes(vals, cf.Cfg("ascii"))}, "m.vti", "m.vti"))
    sets.append(FileSet("vti-appended-base64", "vtk", {"m.vti": cf.vti_bytes(vals, cf.Cfg("appended-base64"))}, "m.vti", "m.vti"))
    sets.append(FileSet("vtr-binary-zlib", "vtk", {"m.vtr": cf.vtr_bytes(vals, cf.Cfg("binary", "zlib", "UInt64"))}, "m.vtr", "m.vtr"))
    # file kinds on which a reader that tolerates a missing tail of the appended data would go wrong (seeded change
    # "rsplit instead of find + assert" in the fallback parser): a rectilinear grid that is flat in z, whose last
    # appended block is the single z ordinate, and poly data with lines / vertices only, whose last appended blocks
    # (the empty Strips / Polys arrays) are never read
    sets.append(FileSet("vtr-flat-appended-raw", "vtk", {"m.vtr": cf.vtr_bytes(vals, cf.Cfg("appended-raw", None, "UInt32"))}, "m.vtr", "m.vtr"))
    sets.append(FileSet("vtp-lines-appended-raw", "vtk", {"m.vtp": cf.vtp_single_bytes(ds, cf.Cfg("appended-raw", None, "UInt32"), "Lines")}, "m.vtp", "m.vtp"))
    sets.append(FileSet("vtp-lines-appended-base64", "vtk", {"m.vtp": cf.vtp_single_bytes(ds, cf.Cfg("appended-base64", None, "UInt32"), "Lines")}, "m.vtp", "m.vtp"))
    sets.append(FileSet("vtp-verts-appended-raw", "vtk", {"m.vtp": cf.vtp_single_bytes(ds, cf.Cfg("appended-raw", None, "UInt64"), "Verts")}, "m.vtp", "m.vtp"))
    sets.append(FileSet("vtp-verts-appended-base64", "vtk", {"m.vtp": cf.vtp_single_bytes(ds, cf.Cfg("appended-base64", None, "UInt64"), "Verts")}, "m.vtp", "m.vtp"))
    sets.append(FileSet("vts-appended-raw", "vtk", {"m.vts": cf.vts_bytes(vals, cf.Cfg("appended-raw", None, "UInt32"))}, "m.vts", "m.vts"))
    sets.append(FileSet("vts-ascii", "vtk", {"m.vts": cf.vts_bytes(vals, cf.Cfg("ascii"))}, "m.vts", "m.vts"))
    # parallel file with two pieces (disjoint point sets, own data)
    p0 = cf.vtu_bytes(ds, cf.Cfg("binary"))
    p1 = cf.vtu_bytes(cf.shifted(ds, 5.0, 1000.0), cf.Cfg("appended-raw"))
    pv = {"set.pvtu": cf.pvtu_bytes(["p0.vtu", "p1.vtu"]), "p0.vtu": p0, "p1.vtu": p1}
    sets.append(FileSet("pvtu-index", "vtk", pv, "set.pvtu", "set.pvtu"))
    sets.append(FileSet("pvtu-piece", "vtk", pv, "set.pvtu", "p1.vtu"))
    # time series with two steps
    s0 = cf.vtu_bytes(ds, cf.Cfg("ascii"))
    s1 = cf.vtu_bytes(cf.shifted(ds, 0.0, 3.0), cf.Cfg("binary", "zlib", "UInt32"))
    sq = {"series.pvd": cf.pvd_bytes(["s0.vtu", "s1.vtu"]), "s0.vtu": s0, "s1.vtu": s1}
    sets.append(FileSet("pvd-index", "vtk", sq, "series.pvd", "series.pvd"))
    sets.append(FileSet("pvd-step", "vtk", sq, "series.pvd", "s1.vtu"))
    for last in ("float", "int", "str", "ulp"):
        sets.append(FileSet(f"csv-last-{last}", "csv", {"t.csv": cf.csv_bytes(rng, last)}, "t.csv", "t.csv"))
    return sets


# ------------------------------------------------------------------ running the CLI

class Runner:
    def __init__(self):
        self.root = tempfile.mkdtemp(prefix="fcv_c18_")
        self.n_runs = 0

    def close(self):
        shutil.rmtree(self.root, ignore_errors=True)

    def install(self, fs: FileSet):
        self.cdir = os.path.join(self.root, fs.label, "complete")
        self.ddir = os.path.join(self.root, fs.label, "damaged")
        for d in (self.cdir, self.ddir):
            os.makedirs(d, exist_ok=True)
            for name, data in fs.files.items():
                os.makedirs(os.path.dirname(os.path.join(d, name)), exist_ok=True)
                with open(os.path.join(d, name), "wb") as fh:
                    fh.write(data)

    def damage(self, fs: FileSet, data: bytes):
        with open(os.path.join(self.ddir, fs.target), "wb") as fh:
            fh.write(data)

    def cli(self, res: str, ref: str):
        """exit code (int) or ('raised', type name, message)"""
        from fieldcompare._cli import main
        self.n_runs += 1
        out = io.StringIO()
        try:
            with warnings.catch_warnings(), contextlib.redirect_stdout(out), contextlib.redirect_stderr(out), \
                    np.errstate(all="ignore"):
                warnings.simplefilter("ignore")
                code = main(["file", res, ref, "--verbosity", "0"])
            return int(code)
        except KeyboardInterrupt:
            raise
        except BaseException as e:  # noqa: BLE001  (anything leaving the entry point is what the property forbids)
            return ("raised", type(e).__name__, str(e)[:160])

    def both_roles(self, fs: FileSet):
        d = os.path.join(self.ddir, fs.main)
        c = os.path.join(self.cdir, fs.main)
        return self.cli(d, c), self.cli(c, d)


def read_class(path: str) -> str:
    """outcome class of `fieldcompare.io.read` (sequences are stepped through): ok / io / other"""
    from fieldcompare.io import read
    from fieldcompare import protocols
    try:
        with warnings.catch_warnings(), np.errstate(all="ignore"):
            warnings.simplefilter("ignore")
            r = read(path)
            if isinstance(r, protocols.FieldDataSequence):
                for _ in r:
                    pass
        return "ok"
    except OSError:
        return "io"
    except Exception:  # noqa: BLE001
        return "other"


def f15_class(fs: FileSet, full: bytes, part: bytes) -> bool:
    """class predicate of finding F15: a CSV cut that removes exactly the last cell, that cell being the integer -1
    (numpy.genfromtxt fills a missing integer cell with -1)"""
    if fs.kind != "csv" or not part.endswith(b","):
        return False
    return full[len(part):].strip(b"\n") == b"-1" and full.startswith(part)


# ------------------------------------------------------------------ enumeration

def enumerate_faults(ctx, runner: Runner, fs: FileSet, thorough: bool, phase: int, offsets=None):
    full = fs.files[fs.target]
    runner.install(fs)
    sane = runner.both_roles(fs)
    if sane != (0, 0):
        # the model says: a complete, valid generated file compares equal to itself in both roles.  An implementation
        # that rejects it breaks the correspondence the fault enumeration rests on (the premise "valid file" can no
        # longer be established for this file set); reported as such, never as an infrastructure failure.
        ctx.mismatch({"kind": "complete-file-self-comparison", "set": fs.label, "target": fs.target,
                      "content_hex": full.hex()[:4000]}, {"exit_both_roles": list(sane)}, {"exit_both_roles": [0, 0]},
                     what="a complete generated file does not compare equal to itself")
        return
    stats = ctx.extra.setdefault("fault_statistics", {})
    st = stats.setdefault(fs.label, {"size": len(full), "cuts": 0, "lost": 0, "same": 0, "tolerance": 0,
                                     "exit0": 0, "exit_nonzero": 0, "removals": 0, "shortened": 0})
    faults = [("cut", off, full[:off]) for off in (offsets if offsets is not None else cf.cut_offsets(full, thorough, 7, phase))]
    if fs.kind == "csv":
        faults += [("remove-column", lab, d) for lab, d in cf.csv_column_removals(full)]
    elif fs.target.endswith(".pvtu"):
        faults += [("remove-piece", lab, d) for lab, d in cf.line_removals(full, b"<Piece Source")]
    elif fs.target.endswith(".pvd"):
        faults += [("remove-step", lab, d) for lab, d in cf.line_removals(full, b"<DataSet")]
    else:
        faults += [("remove-array", lab, d) for lab, d in cf.array_removals(full)]
        faults += [("shorten-array", lab, d) for lab, d in cf.array_shortenings(full)]
    dec_lines, dec_meta = [], []
    for kind, where, data in faults:
        runner.damage(fs, data)
        r_res, r_ref = runner.both_roles(fs)
        if kind == "cut":
            cls = cf.classify_cut("csv" if fs.kind == "csv" else "vtk", full, data)
            st["cuts"] += 1
        else:
            cls = "lost"
            st["shortened" if kind == "shorten-array" else "removals"] += 1
        st[cls] += 1
        for role, r in (("result", r_res), ("reference", r_ref)):
            tag_exit = "raised" if isinstance(r, tuple) else ("exit0" if r == 0 else "exit-nonzero")
            ctx.case((fs.label, kind, where, role), nontrivial=(cls == "lost"),
                     tags=[f"kind-{fs.label}", f"fault-{kind}", f"content-{cls}", tag_exit, f"role-{role}"],
                     sample={"case": {"file": fs.label, "fault": kind, "at": where, "role": role}, "impl": r, "content": cls})
            case = {"kind": "fault", "set": fs.label, "fault": kind, "at": where, "role": role,
                    "files_hex": {n: d.hex() for n, d in fs.files.items()}, "main": fs.main, "target": fs.target,
                    "damaged_hex": data.hex()}
            if isinstance(r, tuple):
                ctx.violation(case, f"{r[1]} raised out of main: {r[2]}", "an exit code",
                              what="exception leaves the command-line entry point")
            elif r == 0:
                st["exit0"] += 1
                if cls == "lost":
                    known = "F15" if (kind == "cut" and f15_class(fs, full, data)) else None
                    ctx.violation(case, "exit 0", "exit != 0 (the damaged file lost data)", cls=known,
                                  what=f"data-losing {kind} at {where} of {fs.label} ({role} role) compares as passed")
            else:
                st["exit_nonzero"] += 1
        # decision-model correspondence on a sample of the faults: observed reader outcome -> predicted exit
        if ctx.driver_ok and (kind != "cut" or (isinstance(where, int) and where % 3 == 0) or cls != "lost"):
            rc = read_class(os.path.join(runner.ddir, fs.main))
            cmp_tok = "f 1 passed" if cls in ("same", "tolerance") else "dom"
            for role, r in (("result", r_res), ("reference", r_ref)):
                a, b = (rc, "ok") if role == "result" else ("ok", rc)
                if rc == "ok" and cls == "lost":
                    continue       # which of domain / field mismatch occurs is not predicted here (spec: non-zero)
                dec_lines.append(f"c18run 0 0 {a} {b} {cmp_tok}")
                dec_meta.append((fs.label, kind, where, role, r, rc))
    if dec_lines:
        for (lab, kind, where, role, r, rc), rep in zip(dec_meta, ctx.lean(dec_lines)):
            ctx.dist["decision-model-compared"] += 1
            want = rep.get("exit")
            got = "raises" if isinstance(r, tuple) else str(r)
            if want != got:
                ctx.mismatch({"kind": "decision", "set": lab, "fault": kind, "at": where, "role": role, "read": rc},
                             got, want, what="exit code differs from Fc.W.runFileMode for the observed reader outcome")


# ------------------------------------------------------------------ correspondence: fallback parser

def impl_fallback(content: bytes):
    from fieldcompare.io.vtk import _xml_reader as xr
    try:
        b, e = xr._find_appendix_positions(content)
        enc = xr._determine_encoding(content[b - 100:])
        head = content[:b].decode("ascii").rsplit("<AppendedData")[0]
        return f"{b},{e},{enc.encode('ascii').hex() or '-'},{len(head)}"
    except Exception:  # noqa: BLE001
        return "none"


def corr_fallback(ctx, sets, thorough):
    if not ctx.driver_ok:
        return
    extra = [("tiny-1", b'<AppendedData encoding="raw">_ab</AppendedData>'),
             ("tiny-2", b'x<AppendedData  encoding = "base64" >\n _QUJD\n</AppendedData></VTKFile>'),
             ("nested", b'<A><AppendedData encoding="raw"><<>>_>_x</AppendedData>'),
             ("no-marker", b'<VTKFile><AppendedData encoding="raw">abc</AppendedData>'),
             ("two", b'<AppendedData encoding="raw">_a</AppendedData><AppendedData encoding="base64">_b</AppendedData>'),
             ("quote-end", b'<AppendedData encoding="raw>_a</AppendedData>"')]
    items = [(fs.label, fs.files[fs.target]) for fs in sets if b"<AppendedData" in fs.files[fs.target]] + extra
    for label, content in items:
        offs = list(range(len(content) + 1)) if (thorough or len(content) < 200) else \
            sorted(set(cf.cut_offsets(content, False, 11, 3)) | {len(content)})
        rep = ctx.lean([f"c18fb {content.hex()} {len(offs)} " + " ".join(map(str, offs))])[0]
        got = rep.get("r", "").split("/")
        for off, m in zip(offs, got):
            impl = impl_fallback(content[:off])
            ctx.case(("fallback", label, off), nontrivial=(impl != "none"), tags=["corr-fallback", "fallback-" + ("ok" if impl != "none" else "none")])
            if impl != m:
                ctx.mismatch({"kind": "fallback", "file": label, "content_hex": content.hex(), "cut": off}, impl, m,
                             what="fallback parser differs from Fc.W.fallback")



# ------------------------------------------------------------------ correspondence: expat vs XmlLite

def expat_accepts(data: bytes) -> bool:
    from xml.etree import ElementTree
    try:
        ElementTree.fromstring(data)
        return True
    except ElementTree.ParseError:
        return False


def corr_xml(ctx, sets, thorough):
    """The assumption "ElementTree raises on this prefix" against the `XmlLite` scanner of the model, on every
    enumerated cut of every VTK-XML file (hyp: the prefix is printable ASCII - both parsers are then talking about
    the same alphabet), plus the well-formed damaged files (array removed / shortened).  For files that are in the
    image of `Fc.XmlLite.Doc.ser` (checked by re-serializing their token tree in the driver) the verdict predicted by
    C18_xml_prefix (accepted iff the cut lies behind the last byte of the root element) is re-checked as well."""
    if not ctx.driver_ok:
        return
    st = ctx.extra.setdefault("xml_prefix", {"files": 0, "in_image": 0, "not_in_image": [], "cuts_compared": 0,
                                             "both_reject": 0, "both_accept": 0, "outside_hyp": 0,
                                             "theorem_rechecked": 0, "wellformed_variants": 0})
    seen = set()
    for fs in sets:
        if fs.kind != "vtk":
            continue
        content = fs.files[fs.target]
        if (fs.target, content) in seen:
            continue
        seen.add((fs.target, content))
        st["files"] += 1
        # (a) the file as a document of the model
        root = None
        line = cf.xmllite_doc_line(content)
        if line is not None:
            rep = ctx.lean([line])[0]
            if rep.get("hyp") == "1" and rep.get("model") == content.hex():
                root = int(rep["root"])
        if root is None:
            st["not_in_image"].append(fs.label)
        else:
            st["in_image"] += 1
        # (b) verdicts on the enumerated cuts (+ the complete file)
        offs = sorted(set(cf.cut_offsets(content, thorough, 7, 3)) | {len(content)})
        rep = ctx.lean([f"c18xml {content.hex()} {len(offs)} " + " ".join(map(str, offs))])[0]
        got = rep.get("r", "").split("/")
        for off, g in zip(offs, got):
            part = content[:off]
            if root is not None:
                st["theorem_rechecked"] += 1
                want = "1" if off > root else "0"
                if g != want:
                    ctx.inconsistent({"kind": "xml-prefix", "file": fs.label, "cut": off, "root_end": root}, g, want,
                                     what="XmlLite.scan on a prefix differs from what C18_xml_prefix says")
            if not cf.ascii_clean(part):
                st["outside_hyp"] += 1
                continue
            e = "1" if expat_accepts(part) else "0"
            st["cuts_compared"] += 1
            if e == g:
                st["both_accept" if e == "1" else "both_reject"] += 1
            ctx.case(("xml-prefix", fs.label, off), nontrivial=(off < len(content)),
                     tags=["corr-xml-prefix", "xml-" + ("accept" if e == "1" else "reject")])
            if e != g:
                ctx.mismatch({"kind": "xml-prefix", "file": fs.label, "content_hex": content.hex(), "cut": off}, e, g,
                             what="expat and the XmlLite scanner disagree on a prefix (1 = accepted)")
        # (c) well-formed damaged files
        if not fs.target.endswith((".pvtu", ".pvd")):
            variants = [d for _, d in cf.array_removals(content)] + [d for _, d in cf.array_shortenings(content)]
            variants = [d for d in variants if cf.ascii_clean(d)]
            if variants:
                rep = ctx.lean([f"c18xml {d.hex()} 1 {len(d)}" for d in variants])
                for d, r in zip(variants, rep):
                    e = "1" if expat_accepts(d) else "0"
                    st["wellformed_variants"] += 1
                    ctx.case(("xml-variant", fs.label, d.hex()[:64], len(d)), nontrivial=True, tags=["corr-xml-variant"])
                    if e != r.get("r"):
                        ctx.mismatch({"kind": "xml-variant", "file": fs.label, "content_hex": d.hex()}, e, r.get("r"),
                                     what="expat and the XmlLite scanner disagree on a damaged but well-formed file")

# ------------------------------------------------------------------ correspondence: payload prefixes

def _impl_payload(comp, enc, data: bytes, dtype, declared):
    from fieldcompare.io.vtk._encoders import Base64Encoder, NoEncoder
    try:
        out = comp.get_decompressed_data(data, Base64Encoder() if enc == "b64" else NoEncoder())
        out = bytes(out)
    except Exception:  # noqa: BLE001
        return "none:0"
    try:
        items = np.frombuffer(out, dtype)
        ok = int(len(items) == declared)
    except Exception:  # noqa: BLE001
        ok = 0
    return f"{out.hex() or '-'}:{ok}"


def corr_payload(ctx, rng, thorough):
    if not ctx.driver_ok:
        return
    from fieldcompare.io.vtk._compressors import NoCompressor, ZLIBCompressor
    lines, wants, metas, declared_of = [], [], [], {}
    lens = [0, 1, 2, 3, 4, 5, 8, 9, 16, 24, 25] + [rng.randint(26, 90) for _ in range(ctx.scale(3, 40))]
    for n, h, enc in itertools.product(lens, (4, 8), ("b64", "raw")):
        size = rng.choice([1, 2, 4, 8])
        payload = bytes(rng.getrandbits(8) for _ in range(n - n % size))
        declared = len(payload) // size
        cfg = cf.Cfg("binary", None, "UInt64" if h == 8 else "UInt32")
        data = cf.encode_inline(cfg, payload) if enc == "b64" else cf.encode_raw(cfg, payload)
        offs = list(range(len(data) + 1))
        comp = NoCompressor(header_type=np.dtype("<u8" if h == 8 else "<u4"))
        lines.append(f"c18pay {h} {enc} {size} {declared} {data.hex() or '-'} {len(offs)} " + " ".join(map(str, offs)))
        wants.append([_impl_payload(comp, enc, data[:o], np.dtype(f"<u{size}"), declared) for o in offs])
        metas.append(("nocomp", h, enc, data, offs))
        declared_of[id(data)] = declared
    from fieldcompare.io.vtk import _compressors as _cmod
    codecs = [("zlib", ZLIBCompressor, lambda c, n: zlib.decompress(c))]
    codecs.append(("lzma", _cmod.LZMACompressor, lambda c, n: lzma.decompress(c)))
    if "lz4" in cf.COMPRESS and getattr(_cmod, "_HAVE_LZ4", False):
        import lz4.block as _lz4b
        codecs.append(("lz4", _cmod.LZ4Compressor, lambda c, n: _lz4b.decompress(c, uncompressed_size=n)))
    codec_obs = ctx.extra.setdefault("codec_hypotheses", {})
    enc_lines, enc_meta = [], []
    combos = [("zlib",) + t for t in itertools.product([0, 1, 7, 16, 33, 70], (4, 8), ("b64", "raw"), (16, 32))]
    for cname in [c[0] for c in codecs[1:]]:
        combos += [(cname, 33, 4, "raw", 16), (cname, 70, 8, "b64", 32), (cname, 7, 4, "b64", 16), (cname, 40, 8, "raw", 16)]
    for cname, n, h, enc, bs in combos:
        _, comp_cls, dec_fn = next(c for c in codecs if c[0] == cname)
        size = rng.choice([1, 2, 4])
        payload = bytes(rng.getrandbits(3) for _ in range(n - n % size))
        declared = len(payload) // size
        cfg = cf.Cfg("binary", cname, "UInt64" if h == 8 else "UInt32", bs)
        data = cf.encode_inline(cfg, payload) if enc == "b64" else cf.encode_raw(cfg, payload)
        blocks = [payload[i:i + bs] for i in range(0, len(payload), bs)]
        table = [(cf.COMPRESS[cname][0](b), b) for b in blocks]
        # the stored form: harness encoder vs the spec writer of the model (`encodeComp`, codec as a table)
        tb_enc = " ".join(f"{b.hex() or '-'} {c.hex() or '-'}" for c, b in table)
        enc_lines.append(" ".join(f"c18enc {h} {enc} {bs} {len(table)} {tb_enc} {payload.hex() or '-'}".split()))
        enc_meta.append((cname, h, enc, bs, payload, data))
        # the codec hypotheses of the theorem (`CodecOK`), observed on every block and every strict prefix of it;
        # the model's codec table knows complete blocks only, so a prefix the real codec accepts also shows up as an
        # implementation / model mismatch below
        ob = codec_obs.setdefault(cname, {"blocks": 0, "prefixes": 0, "prefix_raises": 0, "prefix_shorter": 0,
                                          "prefix_not_shorter": 0, "roundtrip_failures": 0})
        for c, b in list(table):
            ob["blocks"] += 1
            if dec_fn(c, bs) != b or len(c) >= 256 ** h:
                ob["roundtrip_failures"] += 1
            for t in range(len(c)):
                ob["prefixes"] += 1
                try:
                    y = dec_fn(c[:t], bs)
                except Exception:  # noqa: BLE001
                    ob["prefix_raises"] += 1
                    continue
                ob["prefix_shorter" if len(y) < len(b) else "prefix_not_shorter"] += 1
                table.append((c[:t], bytes(y)))     # keep the model's codec table faithful to the real codec
        offs = list(range(len(data) + 1)) if (thorough or len(data) < 120) else sorted(set(range(0, len(data) + 1, 3)) | {len(data)})
        comp = comp_cls(header_type=np.dtype("<u8" if h == 8 else "<u4"))
        tb = " ".join(f"{c.hex() or '-'} {d.hex() or '-'}" for c, d in table)
        lines.append(f"c18comp {h} {enc} {size} {declared} {len(table)} {tb} {data.hex() or '-'} {len(offs)} "
                     + " ".join(map(str, offs)).strip())
        lines[-1] = " ".join(lines[-1].split())
        wants.append([_impl_payload(comp, enc, data[:o], np.dtype(f"<u{size}"), declared) for o in offs])
        metas.append((cname, h, enc, data, offs))
        declared_of[id(data)] = declared
    for (cname, h, enc, bs, payload, data), rep in zip(enc_meta, ctx.lean(enc_lines)):
        got = rep.get("model", "")
        ctx.case(("stored-form", cname, h, enc, bs, payload.hex()), nontrivial=len(payload) > 0, tags=[f"corr-stored-form-{cname}"])
        if got != (data.hex() or "-"):
            ctx.mismatch({"kind": "stored-form", "codec": cname, "header": h, "encoder": enc, "block": bs, "payload_hex": payload.hex()},
                         data.hex(), got, what="the harness' encoder and Fc.W.encodeComp disagree on the stored form of a compressed array")
    for cname, ob in codec_obs.items():
        if ob["roundtrip_failures"] or ob["prefix_not_shorter"]:
            ctx.notes.append(f"codec hypothesis of C18_payload_short_compressed NOT observed for {cname}: {ob}")
    reps = ctx.lean(lines)
    for (kind, h, enc, data, offs), want, rep in zip(metas, wants, reps):
        got = rep.get("r", "").split("/")
        for off, w, g in zip(offs, want, got):
            full = off == len(data)
            ctx.case(("payload", kind, h, enc, data.hex(), off), nontrivial=not full,
                     tags=[f"corr-payload-{kind}-{enc}", "payload-" + ("raises" if w.startswith("none") else ("complete" if w.endswith(":1") else "short"))])
            if w != g:
                ctx.mismatch({"kind": "payload", "reader": kind, "header": h, "encoder": enc, "data_hex": data.hex(), "cut": off},
                             w, g, what="payload reader on a prefix differs from the Lean reader model")
            if not full and w.endswith(":1") and declared_of[id(data)] > 0:
                # spec: a strict prefix never yields the declared number of items
                ctx.violation({"kind": "payload", "reader": kind, "header": h, "encoder": enc, "data_hex": data.hex(), "cut": off},
                              w, "error or fewer items than declared", what="a strict prefix of an encoded array reads as complete")


# ------------------------------------------------------------------ correspondence: decision structure

EXC_CLASSES = {
    "io": ["IOError", "FileNotFoundError", "PermissionError", "IsADirectoryError"],
    "other": ["AssertionError", "ValueError", "KeyError", "IndexError", "RuntimeError", "NotImplementedError", "TypeError",
              "xml.etree.ElementTree.ParseError", "zlib.error", "binascii.Error", "UnicodeDecodeError", "lzma.LZMAError",
              "AttributeError", "ZeroDivisionError", "OverflowError", "MemoryError", "StopIteration"],
}


def _make_exc(name: str):
    import binascii
    import lzma
    from xml.etree.ElementTree import ParseError
    if name == "UnicodeDecodeError":
        return UnicodeDecodeError("ascii", b"\xff", 0, 1, "ordinal not in range")
    table = {"xml.etree.ElementTree.ParseError": ParseError, "zlib.error": zlib.error, "binascii.Error": binascii.Error,
             "lzma.LZMAError": lzma.LZMAError}
    cls = table.get(name) or getattr(__import__("builtins"), name)
    return cls("injected by the C18 check")


def _table(names_vals: dict, nrows=None):
    from fieldcompare.tabular import Table, TabularFields
    n = nrows if nrows is not None else len(next(iter(names_vals.values())))
    return TabularFields(Table(num_rows=n), {k: np.array(v) for k, v in names_vals.items()})


def corr_decision(ctx, rng):
    """`main` with `fieldcompare._cli._file_comparison.read` replaced by a stub that returns in-memory data or
    raises the chosen exception; compared with Fc.W.runFileMode"""
    from fieldcompare._cli import _file_comparison as fcmod
    from fieldcompare._cli import main
    base = {"a": [1.0, 2.0, 3.0], "b": [4, 5, 6]}
    scenarios = []   # (res outcome, ref outcome, cmp tokens, res data, ref data)
    ok_tab = _table(base)
    for rk, names in EXC_CLASSES.items():
        for nm in names:
            scenarios.append((("raise", rk, nm), ("data", ok_tab), "f 2 passed passed"))
            scenarios.append((("data", ok_tab), ("raise", rk, nm), "f 2 passed passed"))
            scenarios.append((("raise", rk, nm), ("raise", "other", "ValueError"), "f 2 passed passed"))
            scenarios.append((("raise", rk, nm), ("raise", "io", "IOError"), "f 2 passed passed"))
    data_cases = [
        (_table(base), _table(base), "f 2 passed passed"),
        (_table(base), _table({"a": [1.0, 2.0, 3.5], "b": [4, 5, 6]}), "f 2 failed passed"),
        (_table(base), _table({"a": [1.0, 2.0, 3.0], "b": [4, 5, 7]}), "f 2 passed failed"),
        (_table({"a": [1.0, 2.0, 3.0]}), _table(base), "f 2 passed missing_source"),
        (_table(base), _table({"b": [4, 5, 6]}), "f 2 missing_reference passed"),
        (_table(base), _table({"a": [1.0, 2.0], "b": [4, 5]}), "dom"),
        (_table({}, 3), _table({}, 3), "f 0"),
        (_table(base), _table({"a": [[1.0, 1.0], [2.0, 2.0], [3.0, 3.0]], "b": [4, 5, 6]}), "f 2 failed passed"),
    ]
    for a, b, tok in data_cases:
        scenarios.append((("data", a), ("data", b), tok))
        scenarios.append((("data", b), ("data", a), tok.replace("missing_source", "MS").replace("missing_reference", "missing_source").replace("MS", "missing_reference")))
    orig = fcmod.read
    lines, obs = [], []
    try:
        for res, ref, tok in scenarios:
            plan = {"RES": res, "REF": ref}

            def stub(filename, plan=plan):
                what = plan[filename]
                if what[0] == "raise":
                    raise _make_exc(what[2])
                return what[1]
            fcmod.read = stub
            out = io.StringIO()
            try:
                with contextlib.redirect_stdout(out), contextlib.redirect_stderr(out), warnings.catch_warnings():
                    warnings.simplefilter("ignore")
                    code = str(int(main(["file", "RES", "REF", "--verbosity", "0"])))
            except KeyboardInterrupt:
                raise
            except BaseException as e:  # noqa: BLE001
                code = "raises:" + type(e).__name__
            a = "ok" if res[0] == "data" else res[1]
            b = "ok" if ref[0] == "data" else ref[1]
            lines.append(f"c18run 0 0 {a} {b} {tok}")
            obs.append((code, res if res[0] == "raise" else "data", ref if ref[0] == "raise" else "data", tok))
    finally:
        fcmod.read = orig
    reps = ctx.lean(lines) if ctx.driver_ok else [None] * len(lines)
    for (code, res, ref, tok), rep, ln in zip(obs, reps, lines):
        failing = ("raise" in (res[0], ref[0])) or tok == "dom" or any(s in tok for s in ("failed", "error", "missing"))
        ctx.case(("decision", str(res), str(ref), tok), nontrivial=failing,
                 tags=["corr-decision", "decision-" + ("failing" if failing else "passing")])
        case = {"kind": "decision-stub", "res": str(res), "ref": str(ref), "cmp": tok}
        if code.startswith("raises"):
            ctx.violation(case, code, "an exit code", what="exception class leaves the command-line entry point")
        elif failing and code == "0":
            ctx.violation(case, "exit 0", "exit != 0", what="reader failure / mismatch yields exit 0")
        if rep is not None and rep.get("exit") != code.split(":")[0]:
            ctx.mismatch(case, code, rep.get("exit"), what="exit code differs from Fc.W.runFileMode")


# ------------------------------------------------------------------ search cases for the CSV missing-cell rule

def search_csv_fill(ctx, runner):
    """a table whose last cell is the integer -1: cutting the file right after the last delimiter"""
    full = b"t,x,k\n0.5,1.25,3\n1.5,2.5,-1\n"
    fs = FileSet("csv-last-int-minus1", "csv", {"t.csv": full}, "t.csv", "t.csv")
    runner.install(fs)
    for off in range(len(full) - 6, len(full)):
        part = full[:off]
        runner.damage(fs, part)
        cls = cf.classify_cut("csv", full, part)
        for role, r in zip(("result", "reference"), runner.both_roles(fs)):
            ctx.case(("csv-fill", off, role), nontrivial=(cls == "lost"), tags=["search-csv-missing-cell", f"content-{cls}"])
            case = {"kind": "fault", "set": fs.label, "fault": "cut", "at": off, "role": role,
                    "files_hex": {"t.csv": full.hex()}, "main": "t.csv", "target": "t.csv", "damaged_hex": part.hex()}
            if isinstance(r, tuple):
                ctx.violation(case, f"{r[1]} raised out of main", "an exit code", what="exception leaves the entry point")
            elif r == 0 and cls == "lost":
                ctx.violation(case, "exit 0", "exit != 0", cls="F15" if f15_class(fs, full, part) else None,
                              what=f"CSV cut at {off} (last integer cell -1 removed) compares as passed ({role} role)")


# ------------------------------------------------------------------ run

def run(ctx):
    ctx.rule = ("case = (file kind/encoding, fault, role): a cut at one byte offset or one removed data array / piece / step "
                "/ column, with the damaged file as result or as reference; non-trivial = the reference parser finds the "
                "fault data-losing; plus correspondence items (fallback-parser prefixes, payload prefixes, decision scenarios)")
    ctx.assumptions += [
        "expat (xml.etree.ElementTree) rejects the truncated prefixes enumerated here: proved for the XmlLite scanner of "
        "the model (C18_xml_prefix); that expat agrees with XmlLite is observed on every enumerated cut (xml_prefix)",
        "codec hypotheses of C18_payload_short_compressed: decompress(compress(b)) = b, and a strict prefix of a "
        "compressed block raises (zlib, lzma) or decodes to fewer bytes (lz4) - observed on every enumerated block "
        "(codec_hypotheses)",
        "numpy.genfromtxt / np.fromstring text parsing (observed)",
        "data-losing is judged by the harness' reference parser (fcv/c18files.py): complete data arrays + complete open "
        "tags + terminated appendix; CSV cells by numeric value, float differences within eps counted as 'tolerance'",
    ]
    thorough = ctx.tier == "thorough"
    runner = Runner()
    try:
        sets = build_sets(ctx.rng)
        corr_decision(ctx, ctx.rng)
        corr_payload(ctx, ctx.rng, thorough)
        corr_fallback(ctx, sets, thorough)
        corr_xml(ctx, sets, thorough)
        for i, fs in enumerate(sets):
            enumerate_faults(ctx, runner, fs, thorough, phase=ctx.rng.randrange(7))
        search_csv_fill(ctx, runner)
        # phase 6 (package G): directed file sets (flavour x encoding matrix, sizes, piece positions / sub-directories,
        # CSV shapes); quick: a sparse set of cut offsets per file, thorough: every offset
        from fcv import c18_sets_p6g as pg
        p6g = pg.matrix_sets(ctx.rng, thorough) + pg.size_sets(ctx.rng, thorough) + pg.parallel_sets(ctx.rng) + pg.csv_sets(ctx.rng)
        for label, kind, files, main_, target in p6g:
            fs = FileSet(label, kind, files, main_, target)
            full = files[target]
            offs = None if (thorough and len(full) < 6000) else pg.sparse_offsets(ctx.rng, full, ctx.scale(14, 1500))
            enumerate_faults(ctx, runner, fs, thorough, phase=0, offsets=offs)
        ctx.extra["cli_runs"] = runner.n_runs
        ctx.exhaustive = thorough
    finally:
        runner.close()
    # keep the replay small: one candidate per (set, class)
    seen, keep = set(), []
    for v in ctx.spec_viol:
        k = (v["case"].get("set"), v["case"].get("fault"), v.get("class"), v["what"][:40])
        if k not in seen or len(keep) < 5:
            keep.append(v)
            seen.add(k)
    ctx.spec_viol = keep[:60]


# ------------------------------------------------------------------ known findings / replay

def replay_witness(ctx, entry):
    return core.run_named_witness(entry)


def replay(ctx, payload) -> int:
    c = payload["case"]
    if c.get("kind") != "fault":
        print("replay: correspondence item (no implementation-side failing input):", str(c)[:300])
        return 0
    runner = Runner()
    try:
        files = {n: bytes.fromhex(h) for n, h in c["files_hex"].items()}
        fs = FileSet(c["set"], "csv" if c["main"].endswith(".csv") else "vtk", files, c["main"], c["target"])
        runner.install(fs)
        data = bytes.fromhex(c["damaged_hex"])
        runner.damage(fs, data)
        r = dict(zip(("result", "reference"), runner.both_roles(fs)))[c["role"]]
        cls = cf.classify_cut(fs.kind, files[c["target"]], data) if c["fault"] == "cut" else "lost"
    finally:
        runner.close()
    print(f"replay: {c['set']} {c['fault']} at {c['at']} ({c['role']} role): outcome={r} content={cls}")
    if isinstance(r, tuple) or (r == 0 and cls == "lost"):
        print(f"VIOLATION property=C18 replay={payload.get('_path', '<replay>')}")
        return 1
    return 0
