"""C16 — mesh equality is sound, symmetric and independent of the mesh representation.

Correspondence: `a.equals(b)` of the implementation (explicit Mesh, PermutedMesh view, ImageMesh,
RectilinearMesh, StructuredMesh; every ordered pair of representations) vs the Lean model `Fc.C16.equals`
(FcModel/MeshEqual.lean, FcModel/StructuredEq.lean); the explicit points / connectivity / default
tolerances the model generates for structured grids vs the ones the objects expose (`c16gen`);
`CellType.is_compatible_with` vs the regenerated table, exhaustively over all type pairs.

Search (implementation vs the property, independent Python oracle in fcv/c16io.py):
  S1 never an exception;  S2 a.equals(b) == b.equals(a);
  S3 structured short-cut answers 'equal'  =>  the explicit representation of the same grids answers 'equal';
  S4 all defining parameters within the (smaller) tolerance  =>  'equal';
  S5 generic path: 'equal' => oracle(max tolerance) and oracle(min tolerance) => 'equal'.
Known classes: F7 (ImageMesh.equals compares spacing/basis with the coordinate-scaled absolute tolerance),
F14 (short-cuts and PermutedMesh.equals use the receiver's tolerances only: asymmetric when they differ).
"""
from __future__ import annotations
import copy
import itertools
import math

from fcv import c16io, meshgen, core
from fcv.num import f2u

REL = 1e-8


# ---------------------------------------------------------------- generators

def _ext(rng, maxc=4):
    while True:
        e = [rng.choice([0, 0, 1, 2, 3, maxc]) for _ in range(3)]
        if any(e):
            return e


def _scale_off(rng):
    sc = rng.choice([1e-6, 1e-3, 1.0, 1.0, 2.5, 1e3, 1e6])
    off = rng.choice([0.0, 0.0, 1.0, -3.0, 1e3, -1e5]) * (sc if rng.random() < 0.6 else 1.0)
    return sc, off


def gen_rect(rng):
    ext = _ext(rng)
    sc, off = _scale_off(rng)
    ords = []
    for e in ext:
        if e == 0:
            ords.append([] if rng.random() < 0.3 else [rng.choice([0.0, off, 5.0 * sc, -2.0 * sc])])
        else:
            x, o = off, []
            for _ in range(e + 1):
                o.append(x)
                x = x + sc * rng.choice([1.0, 0.5, 1.25, rng.uniform(0.1, 2.0)])
            ords.append(o)
    return {"k": "R", "ext": ext, "ords": ords}


def rect_points(spec):
    ords = [o if o else [0.0] for o in spec["ords"]]
    return [[x, y, z] for z in ords[2] for y in ords[1] for x in ords[0]]


def gen_struct(rng):
    r = gen_rect(rng)
    pts = rect_points(r)
    dim = 3
    if rng.random() < 0.3 and r["ext"][2] == 0 and (not r["ords"][2] or r["ords"][2] == [0.0]):
        dim = 2
        pts = [p[:2] for p in pts]
    if rng.random() < 0.4:      # curvilinear: shear
        s = rng.choice([0.25, -0.5])
        pts = [[p[0] + s * p[1]] + p[1:] for p in pts]
    return {"k": "S", "ext": r["ext"], "dim": dim, "points": pts}


BASES = {
    "none": None,
    "id": [[1.0, 0.0, 0.0], [0.0, 1.0, 0.0], [0.0, 0.0, 1.0]],
    "perm": [[0.0, 1.0, 0.0], [1.0, 0.0, 0.0], [0.0, 0.0, 1.0]],
    "diag": [[2.0, 0.0, 0.0], [0.0, -1.0, 0.0], [0.0, 0.0, 0.5]],
    "rot": [[0.6, -0.8, 0.0], [0.8, 0.6, 0.0], [0.0, 0.0, 1.0]],
}


def gen_image(rng, big=False):
    ext = _ext(rng, maxc=(rng.choice([40, 300]) if big else 4))
    sc, off = _scale_off(rng)
    origin = [rng.choice([0.0, off, -off, 7.0 * sc]) for _ in range(3)]
    spacing = [sc * rng.choice([1.0, 0.5, 0.1, 3.0]) for _ in range(3)]
    b = rng.choice(["none", "none", "none", "id", "perm", "diag", "rot"])
    return {"k": "I", "ext": ext, "origin": origin, "spacing": spacing, "basis": copy.deepcopy(BASES[b])}, b


def image_as_rect(spec):
    """the same grid as a rectilinear mesh (standard basis only): ordinates o + s*i"""
    ords = []
    for d in range(3):
        ords.append([spec["origin"][d] + spec["spacing"][d] * i for i in range(spec["ext"][d] + 1)])
    return {"k": "R", "ext": list(spec["ext"]), "ords": ords}


def _max_abs(vals):
    return max([abs(float(v)) for v in vals] + [0.0])


def _threshold(x, maxc):
    return max(abs(x) * REL, maxc * REL)


FACTORS = [0.0, 0.3, 0.9, 0.999, 1.001, 1.1, 3.0, 1e3]


def _perturb(rng, x, maxc):
    f = rng.choice(FACTORS)
    t = _threshold(x, maxc) or 1e-300
    return x + (1 if rng.random() < 0.5 else -1) * f * t, f


def mutate_rect(rng, spec):
    s = copy.deepcopy(spec)
    kind = rng.choice(["same", "ord", "ord", "ord", "flat", "ext", "emptyzero"])
    maxc = _max_abs(x for o in s["ords"] for x in o)
    tag = kind
    if kind == "ord":
        d = rng.choice([d for d in range(3) if s["ords"][d]] or [0])
        if s["ords"][d]:
            i = rng.randrange(len(s["ords"][d]))
            s["ords"][d][i], f = _perturb(rng, s["ords"][d][i], maxc)
            tag = f"ord-d{d}-f{f}"
    elif kind == "flat":
        flats = [d for d in range(3) if s["ext"][d] == 0]
        if flats:
            d = rng.choice(flats)
            s["ords"][d] = [(s["ords"][d][0] if s["ords"][d] else 0.0) + rng.choice([1.0, 5.0, 1e-3]) * (maxc or 1.0)]
            tag = f"flat-d{d}"
    elif kind == "ext":
        d = rng.randrange(3)
        if s["ext"][d] > 0 and rng.random() < 0.5:
            s["ext"][d] -= 1
            s["ords"][d] = s["ords"][d][:-1]
        else:
            s["ext"][d] += 1
            last = s["ords"][d][-1] if s["ords"][d] else 0.0
            s["ords"][d] = (s["ords"][d] or [0.0]) + [last + 1.0]
        if not any(s["ext"]):
            return copy.deepcopy(spec), "same"
    elif kind == "emptyzero":
        # [] and [0.0] are the same ordinate array for a flat direction
        for d in range(3):
            if s["ext"][d] == 0 and s["ords"][d] in ([], [0.0]):
                s["ords"][d] = [] if s["ords"][d] else [0.0]
    return s, tag


def mutate_struct(rng, spec):
    s = copy.deepcopy(spec)
    kind = rng.choice(["same", "pt", "pt", "pt", "ext"])
    maxc = _max_abs(c for p in s["points"] for c in p)
    tag = kind
    if kind == "pt":
        i = rng.randrange(len(s["points"]))
        j = rng.randrange(s["dim"])
        s["points"][i][j], f = _perturb(rng, s["points"][i][j], maxc)
        tag = f"pt-c{j}-f{f}"
    elif kind == "ext":
        # same number of points, different extents (e.g. 1x3x0 vs 3x1x0) when possible
        e = s["ext"]
        perm = [e[1], e[0], e[2]]
        if perm != e:
            s["ext"] = perm
        else:
            tag = "same"
    return s, tag


def mutate_image(rng, spec, directed_f7=False):
    s = copy.deepcopy(spec)
    maxc = max(max(abs(s["origin"][d]), abs(s["origin"][d] + s["spacing"][d] * s["ext"][d])) for d in range(3))
    kind = rng.choice(["same", "origin", "spacing", "spacing", "basis", "ext"]) if not directed_f7 else "spacing-f7"
    tag = kind
    if kind == "origin":
        d = rng.randrange(3)
        s["origin"][d], f = _perturb(rng, s["origin"][d], maxc)
        tag = f"origin-f{f}"
    elif kind == "spacing":
        d = rng.randrange(3)
        s["spacing"][d], f = _perturb(rng, s["spacing"][d], maxc)
        tag = f"spacing-f{f}"
    elif kind == "spacing-f7":
        ds = [d for d in range(3) if s["ext"][d] >= 2] or [0]
        d = rng.choice(ds)
        s["spacing"][d] = s["spacing"][d] + 0.9 * maxc * REL
    elif kind == "basis":
        if s["basis"] is None:
            s["basis"] = copy.deepcopy(BASES["id"])
        r, c = rng.randrange(3), rng.randrange(3)
        s["basis"][r][c], f = _perturb(rng, s["basis"][r][c], maxc)
        tag = f"basis-f{f}"
    elif kind == "ext":
        d = rng.randrange(3)
        s["ext"][d] += 1
    return s, tag


def _rename_compatible(lm, rng):
    """store quads as pixels / hexahedra as voxels (and back): the same cells, the other type"""
    out = copy.deepcopy(lm)
    q = [0, 1, 3, 2]
    h = [0, 1, 3, 2, 4, 5, 7, 6]
    ren = {"QUAD": ("PIXEL", q), "PIXEL": ("QUAD", q), "HEXAHEDRON": ("VOXEL", h), "VOXEL": ("HEXAHEDRON", h)}
    done = False
    names = [t for t, _ in out["cells"]]
    for blk in out["cells"]:
        if blk[0] in ren and ren[blk[0]][0] not in names:
            nm, p = ren[blk[0]]
            blk[1] = [[row[i] for i in p] for row in blk[1]]
            blk[0] = nm
            done = True
    return out, done


def mutate_explicit(rng, lm):
    """second mesh of an explicit pair"""
    kind = rng.choice(["same", "coord", "coord", "compat", "compat", "onesided", "dropblock", "cell", "count",
                       "compat+coord", "shuffleblocks", "extrapoint", "dim"])
    out = copy.deepcopy(lm)
    tag = kind
    maxc = _max_abs(c for p in out["points"] for c in p)
    if kind in ("coord", "compat+coord"):
        i, j = rng.randrange(len(out["points"])), rng.randrange(out["dim"])
        out["points"][i][j], f = _perturb(rng, out["points"][i][j], maxc)
        tag = f"{kind}-f{f}"
    if kind in ("compat", "compat+coord"):
        out, done = _rename_compatible(out, rng)
        if not done:
            tag = tag.replace("compat", "nocompat")
    if kind == "onesided":
        have = {t for t, _ in out["cells"]}
        n = len(out["points"])
        cand = [("TRIANGLE", 3), ("LINE", 2), ("QUAD", 4), ("PIXEL", 4), ("VERTEX", 1), ("TETRA", 4)]
        cand = [(t, k) for t, k in cand if t not in have and k <= n]
        if cand:
            t, k = rng.choice(cand)
            out["cells"].insert(rng.randrange(len(out["cells"]) + 1), [t, [rng.sample(range(n), k)]])
            tag = f"onesided-{t}"
    elif kind == "dropblock":
        if len(out["cells"]) > 1:
            out["cells"].pop(rng.randrange(len(out["cells"])))
        else:
            tag = "same"
    elif kind == "cell":
        b = rng.choice(out["cells"])
        if b[1]:
            c = rng.randrange(len(b[1]))
            k = rng.randrange(len(b[1][c]))
            how = rng.choice(["rewire", "permute", "swap"])
            if how == "swap" and len(b[1]) >= 2:
                c2 = (c + 1 + rng.randrange(len(b[1]) - 1)) % len(b[1])
                k2 = rng.randrange(len(b[1][c2]))
                b[1][c][k], b[1][c2][k2] = b[1][c2][k2], b[1][c][k]
            elif how == "rewire" or how == "swap":
                b[1][c][k] = (b[1][c][k] + 1 + rng.randrange(max(len(out["points"]) - 1, 1))) % len(out["points"])
            else:
                r = b[1][c]
                b[1][c] = r[1:] + r[:1]
            tag = f"cell-{how}"
    elif kind == "count":
        b = rng.choice(out["cells"])
        if len(b[1]) > 1 and rng.random() < 0.5:
            b[1].pop(rng.randrange(len(b[1])))
            tag = "count-remove"
        elif b[1]:
            b[1].append(list(rng.choice(b[1])))
            tag = "count-add"
    elif kind == "shuffleblocks":
        rng.shuffle(out["cells"])
    elif kind == "extrapoint":
        out["points"].append([0.0] * out["dim"])
    elif kind == "dim":
        if out["dim"] < 3:
            out["points"] = [p + [0.0] for p in out["points"]]
            out["dim"] += 1
        else:
            tag = "same"
    return out, tag


def _maybe_tol(rng, spec, p=0.12):
    if rng.random() < p:
        spec = dict(spec, tol=[rng.choice([1e-12, 1e-6, 1e-3, 0.1]), rng.choice([1e-8, 1e-8, 1e-10, 1e-5])])
    return spec


def gen_pair(rng, i):
    """-> (specA, specB, tags)"""
    r = rng.random()
    if r < 0.30:
        ka = "P" if rng.random() < 0.3 else "E"
        kb = "P" if rng.random() < 0.3 else "E"
        lm, t = meshgen.gen_mesh(rng, max_cells_per_dir=3, fields=False, allow_orphans=(ka + kb == "EE"))
        if "P" in ka + kb:
            # start from the canonical (sorted) storage order so that the permuted view and the explicit mesh
            # are comparable index by index
            try:
                lm = c16io.explicit_lm(c16io.build({"k": "P", "lm": lm}))
            except Exception:  # noqa: BLE001 - sort_points refuses unconnected duplicate points
                ka = kb = "E"
        lm2, tag = mutate_explicit(rng, lm)
        a, b = {"k": ka, "lm": lm}, {"k": kb, "lm": lm2}
        tags = [f"pair-{ka}{kb}", "mut-" + tag, "style-" + str(t["style"])]
    elif r < 0.50:
        a = gen_rect(rng)
        b, tag = mutate_rect(rng, a)
        tags = ["pair-RR", "mut-" + tag, "flat" + str(sum(1 for e in a["ext"] if e == 0))]
    elif r < 0.63:
        a = gen_struct(rng)
        b, tag = mutate_struct(rng, a)
        tags = ["pair-SS", "mut-" + tag, "flat" + str(sum(1 for e in a["ext"] if e == 0))]
    elif r < 0.83:
        big = rng.random() < 0.08
        a, bn = gen_image(rng, big=big)
        b, tag = mutate_image(rng, a, directed_f7=(rng.random() < 0.1))
        tags = ["pair-II", "mut-" + tag, "basis-" + bn, "flat" + str(sum(1 for e in a["ext"] if e == 0))]
    else:
        # mixed representations of the same / a perturbed grid
        a, bn = gen_image(rng)
        a["basis"] = rng.choice([None, copy.deepcopy(BASES["id"])])
        rct = image_as_rect(a)
        if rng.random() < 0.5:
            rct, tag = mutate_rect(rng, rct)
        else:
            tag = "same"
        kind = rng.choice(["IR", "IS", "RS", "IE", "RE", "SE", "RP"])
        st = {"k": "S", "ext": list(rct["ext"]), "dim": 3, "points": rect_points(rct)}
        objs = {"I": a, "R": rct, "S": st}
        first = objs[kind[0]] if kind[0] != "R" else image_as_rect(a)
        if kind[1] in "EP":
            src = {"I": a, "R": rct, "S": st}[kind[0]]
            ex = c16io.explicit_lm(c16io.build(st if kind[0] != "S" else rct))
            a2, b2 = src, {"k": kind[1], "lm": ex}
        else:
            a2, b2 = first, objs[kind[1]]
        a, b = a2, b2
        tags = [f"pair-{kind}", "mut-" + tag]
    a = _maybe_tol(rng, a)
    b = _maybe_tol(rng, b)
    if "tol" in a or "tol" in b:
        tags.append("custom-tol")
    return a, b, tags


def directed_f14(rng):
    """receiver-only tolerances: default tolerances that differ by one part in 1e8, one ordinate in the band"""
    hi = 100.0
    a = {"k": "R", "ext": [1, 0, 0], "ords": [[0.0, hi], [], []]}
    b = {"k": "R", "ext": [1, 0, 0], "ords": [[1.000000005e-6, hi * (1 + 1e-8)], [], []]}
    return a, b, ["pair-RR", "directed-F14"]


def directed_f7(rng):
    a = {"k": "I", "ext": [2, 0, 0], "origin": [1000.0, 0.0, 0.0], "spacing": [1.0, 1.0, 1.0], "basis": None}
    b = dict(a, spacing=[1.000009, 1.0, 1.0])
    return a, b, ["pair-II", "directed-F7"]


# ---------------------------------------------------------------- evaluation

def _harmonized(spec, tol):
    return dict(spec, tol=[tol[0], tol[1]])


def params_within(sa, sb, rel, abs_):
    """S4: all defining parameters of two same-class structured meshes agree within (rel, abs)"""
    if sa["k"] != sb["k"] or list(sa["ext"]) != list(sb["ext"]):
        return False
    if sa["k"] == "R":
        return all(c16io.all_within(x or [0.0], y or [0.0], rel, abs_) for x, y in zip(sa["ords"], sb["ords"]))
    if sa["k"] == "S":
        if sa["dim"] != sb["dim"] or len(sa["points"]) != len(sb["points"]):
            return False
        return all(c16io.all_within(p, q, rel, abs_) for p, q in zip(sa["points"], sb["points"]))
    if sa["k"] == "I":
        ba = sa.get("basis") or BASES["id"]
        bb = sb.get("basis") or BASES["id"]
        return (c16io.all_within(sa["origin"], sb["origin"], rel, abs_)
                and c16io.all_within(sa["spacing"], sb["spacing"], rel, abs_)
                and all(c16io.all_within(x, y, rel, abs_) for x, y in zip(ba, bb)))
    return False


def check_pair(ctx, sa, sb, tags, lean_rows):
    """one unordered pair: both orders on the implementation, the spec rules S1..S5, queue driver lines"""
    A, B = c16io.build(sa), c16io.build(sb)
    ab, ba = c16io.run_equals(A, B), c16io.run_equals(B, A)
    ta, tb = c16io.tolerances(A), c16io.tolerances(B)
    tol_differ = ta != tb
    case = {"a": sa, "b": sb}
    shortcut = sa["k"] == sb["k"] and sa["k"] in "RSI"
    receiver_tol = lambda s: s["k"] in "PRSI"   # noqa: E731
    tags = list(tags) + [f"verdict-{ab}{ba}"]
    # S1 — never an exception
    for v, order in ((ab, "a.equals(b)"), (ba, "b.equals(a)")):
        if v.startswith("X:"):
            ctx.violation(dict(case, order=order), v, "T|F", cls=None, what="equals raised an exception")
    # explicit representation of the same grids (same tolerances)
    EA, EB = c16io.explicit_copy(A), c16io.explicit_copy(B)
    eab, eba = c16io.run_equals(EA, EB), c16io.run_equals(EB, EA)
    lma, lmb = c16io.explicit_lm(A), c16io.explicit_lm(B)
    mn = (min(ta[0], tb[0]), min(ta[1], tb[1]))
    mx = (max(ta[0], tb[0]), max(ta[1], tb[1]))

    def harmonized_verdicts():
        HA, HB = c16io.build(_harmonized(sa, mn)), c16io.build(_harmonized(sb, mn))
        hab, hba = c16io.run_equals(HA, HB), c16io.run_equals(HB, HA)
        hexp = c16io.run_equals(c16io.explicit_copy(HA), c16io.explicit_copy(HB))
        return hab, hba, hexp

    # S2 — symmetry
    if ab != ba and not (ab.startswith("X:") or ba.startswith("X:")):
        cls = None
        if tol_differ and (receiver_tol(sa) or receiver_tol(sb)):
            hab, hba, _ = harmonized_verdicts()
            if hab == hba:
                cls = "F14"
        ctx.violation(case, f"a.equals(b)={ab} b.equals(a)={ba}", "equal answers", cls=cls,
                      what="mesh equality is not symmetric")
        tags.append("asym" + ("-F14" if cls else ""))
    # S3 — short-cut 'equal' => explicit 'equal'
    if shortcut:
        for v, e, order, (x, y) in ((ab, eab, "a.equals(b)", (sa, sb)), (ba, eba, "b.equals(a)", (sb, sa))):
            if v == "T" and e != "T":
                hab, hba, hexp = harmonized_verdicts()
                hv = hab if order == "a.equals(b)" else hba
                if hv == "T" and hexp != "T":
                    # F7 = two image meshes whose origin, spacing and basis DO agree within the tolerance
                    # (the documented parameter check passes) while the points they generate do not
                    cls = "F7" if sa["k"] == "I" and params_within(sa, sb, mn[1], mn[0]) else None
                elif tol_differ:
                    cls = "F14"
                else:
                    cls = None
                ctx.violation(dict(case, order=order), f"structured={v} explicit={e}", "structured equal => explicit equal",
                              cls=cls, what="structured short-cut answers equal, explicit representation unequal")
                tags.append("unsound-" + str(cls))
        # S4 — parameters within the smaller tolerance => equal
        if params_within(sa, sb, mn[1], mn[0]):
            tags.append("params-within")
            # image meshes: 'spacing within the coordinate-scaled tolerance' does not bound the generated points
            # (that is finding F7); 'equal' is demanded only where soundness allows it, i.e. the explicit
            # representation is equal as well — this keeps the rule valid for the pinned and for a repaired code
            demand = sa["k"] != "I" or (eab == "T" and eba == "T")
            for v, order in ((ab, "a.equals(b)"), (ba, "b.equals(a)")):
                if demand and v != "T":
                    ctx.violation(dict(case, order=order), v, "T", cls=None,
                                  what="all defining parameters within tolerance but not equal")
    else:
        # S5 — generic path against the independent oracle
        o_min = c16io.oracle_mesh_equal(lma, lmb, mn[1], mn[0])
        o_max = c16io.oracle_mesh_equal(lma, lmb, mx[1], mx[0])
        for v, order in ((ab, "a.equals(b)"), (ba, "b.equals(a)")):
            if v == "T" and not o_max:
                ctx.violation(dict(case, order=order), v, "F", cls=None,
                              what="meshes compare equal although points / cell types / cells differ beyond tolerance")
            if v == "F" and o_min:
                ctx.violation(dict(case, order=order), v, "T", cls=None,
                              what="meshes equal within the smaller tolerance compare unequal")
        tags.append("oracle-" + ("T" if o_min else "F"))
    # driver lines (correspondence), both orders + generated explicit data / default tolerance
    ea, eb = c16io.enc_any(sa, A), c16io.enc_any(sb, B)
    lean_rows.append(("eq", case, "a.equals(b)", ab, f"c16eq {ea} {eb}", None))
    lean_rows.append(("eq", case, "b.equals(a)", ba, f"c16eq {eb} {ea}", None))
    for s, obj, enc, lm in ((sa, A, ea, lma), (sb, B, eb, lmb)):
        if s["k"] in "RSI":
            dflt = None if "tol" in s else f2u(obj.absolute_tolerance)
            lean_rows.append(("gen", s, "", dflt, f"c16gen {enc} {meshgen.enc_mesh(lm)}", None))
    nontrivial = sa != sb
    ctx.case((sa, sb), nontrivial=nontrivial, tags=tags,
             sample={"a": sa["k"], "b": sb["k"], "tags": tags[:3], "a.equals(b)": ab, "b.equals(a)": ba,
                     "explicit": eab})


def flush_lean(ctx, rows):
    if not ctx.driver_ok or not rows:
        return
    replies = ctx.lean([r[4] for r in rows])
    for (kind, case, order, impl, line, _), rep in zip(rows, replies):
        if kind == "eq":
            if "hyp" not in rep:
                ctx.inconsistent(dict(case=case, order=order), str(rep), "bad-op")
                continue
            ctx.dist["hyp-" + rep["hyp"]] += 1
            ctx.dist["path-" + rep.get("kind", "?")] += 1
            if rep["hyp"] != "1":
                continue
            if rep["model"] != impl:
                ctx.mismatch(dict(case, order=order), impl, rep["model"], what="equals: impl vs model")
            if rep["spec"] not in ("-", rep["model"]):
                ctx.inconsistent(dict(case, order=order), rep["model"], rep["spec"])
        else:
            if "gen" not in rep:
                ctx.inconsistent(dict(case=case), str(rep), "bad-op")
                continue
            if rep["gen"] == "0":
                ctx.mismatch(case, "points/connectivity of the object", "model toMesh differs",
                             what="generated explicit representation: impl vs model")
            ctx.dist["gen-" + rep["gen"]] += 1
            if impl is not None and rep["tol"] != str(impl):
                ctx.mismatch(case, impl, rep["tol"], what="default absolute tolerance: impl vs model")


def check_compat_table(ctx):
    """CellType.is_compatible_with over all ordered pairs of known types vs the model on the regenerated table"""
    from fieldcompare.mesh import CellType
    from fieldcompare.mesh._cell_type_maps import _CELL_TYPE_INDEX_TO_STR
    names = [n for _, n in sorted(_CELL_TYPE_INDEX_TO_STR.items())]
    pairs = list(itertools.product(names, names))
    impl = ["1" if CellType.from_name(a).is_compatible_with(CellType.from_name(b)) else "0" for a, b in pairs]
    expected = ["1" if c16io.compat(a, b) else "0" for a, b in pairs]
    for (a, b), i, e in zip(pairs, impl, expected):
        if i != e:
            ctx.violation({"types": [a, b]}, i, e, cls=None,
                          what="is_compatible_with differs from 'pixel~quad, voxel~hexahedron, nothing else'")
    if ctx.driver_ok:
        reps = ctx.lean([f"c16compat {a} {b}" for a, b in pairs])
        for (a, b), i, rep in zip(pairs, impl, reps):
            if rep.get("model") != i or rep.get("id") != i:
                ctx.mismatch({"types": [a, b]}, i, rep, what="is_compatible_with: impl vs model")
    ctx.extra["compat_pairs_checked"] = len(pairs)
    ctx.evaluations += len(pairs)


def run(ctx):
    ctx.rule = ("case = unordered pair of mesh objects (explicit / permuted view / image / rectilinear / structured; flat in "
                "any direction; hybrid type sets; second member = first with one modification: ordinate / point / origin / "
                "spacing / basis entry moved by 0..1000 x the tolerance, flat-direction constant, extents, compatible type "
                "renaming, one-sided type block, one rewired / permuted / added / removed cell, extra point, extra column), "
                "evaluated in both argument orders; non-trivial = the two specs differ; distinct = distinct spec pairs. "
                "Plus all ordered pairs of cell types for is_compatible_with.")
    ctx.assumptions += [
        "numpy float64 arithmetic is IEEE round-to-nearest-even (point generation of ImageMesh modelled for bases with at "
        "most one non-zero entry per row; other bases only through the parameter short-cut and the implementation-side search)",
        "symmetry of the scalar fuzzy predicate (proved for C10) enters C16_symm as the named hypothesis FuzzySymm",
    ]
    rng = ctx.rng
    n = ctx.scale(700, 12000)
    check_compat_table(ctx)
    rows = []
    pairs = [directed_f7(rng), directed_f14(rng)]
    for i in range(n):
        pairs.append(gen_pair(rng, i))
    for sa, sb, tags in pairs:
        check_pair(ctx, sa, sb, tags, rows)
        if len(rows) >= 4000:
            flush_lean(ctx, rows)
            rows = []
    flush_lean(ctx, rows)
    ctx.spec_viol = sorted(ctx.spec_viol, key=lambda v: (v["class"] is not None, len(str(v["case"]))))[:200]


# ---------------------------------------------------------------- witnesses / replay

def replay_witness(ctx, entry):
    w = entry.get("witness", {})
    if isinstance(w, dict) and "fn" in w:
        return core.run_named_witness(entry)
    sa, sb = w["a"], w["b"]
    A, B = c16io.build(sa), c16io.build(sb)
    ab, ba = c16io.run_equals(A, B), c16io.run_equals(B, A)
    e = c16io.run_equals(c16io.explicit_copy(A), c16io.explicit_copy(B))
    fails = ab != ba or (ab == "T" and e != "T")
    return fails, f"a.equals(b)={ab} b.equals(a)={ba} explicit={e}"


def replay(ctx, payload):
    case = payload["case"]
    if "types" in case:
        from fieldcompare.mesh import CellType
        a, b = case["types"]
        i = CellType.from_name(a).is_compatible_with(CellType.from_name(b))
        print(f"replay: is_compatible_with({a},{b})={i} property={c16io.compat(a, b)}")
        bad = bool(i) != c16io.compat(a, b)
    else:
        sub = core.Ctx("C16", "quick", 0)
        sub.driver_ok = False
        check_pair(sub, case["a"], case["b"], [], [])
        for v in sub.spec_viol:
            print(f"replay: {v['what']}: impl={v['impl']} property demands={v['spec']} class={v['class']}")
        bad = bool(sub.spec_viol)
    if bad:
        print(f"VIOLATION property=C16 replay={payload.get('_path', '<replay>')}")
        return 1
    print("replay: no violation")
    return 0
