"""C16 — mesh equality is sound, symmetric and independent of the mesh representation.

Correspondence: `a.equals(b)` of the implementation (explicit Mesh, PermutedMesh view, ImageMesh,
RectilinearMesh, StructuredMesh; every ordered pair of representations) vs the Lean model `Fc.C16.equals`
(FcModel/MeshEqual.lean, FcModel/StructuredEq.lean); the explicit points / connectivity / default
tolerances the model generates for structured grids vs the ones the objects expose (`c16gen`);
`CellType.is_compatible_with` vs the regenerated table, exhaustively over all type pairs.

Search (implementation vs the property, independent Python oracle in fcv/c16io.py):
  S1 never an exception;  S2 a.equals(b) == b.equals(a);
  S3 structured short-cut answers 'equal'  =>  the explicit representation of the same grids answers 'equal';
  S4 all defining parameters within the (smaller) tolerance  =>  'equal';
  S5 generic path: 'equal' => oracle(max tolerance) and oracle(min tolerance) => 'equal'.
History batch (phase 5): a directed list of pairs that rely on the DEFAULT basis (ImageMesh built without `basis=`,
`.vti` files without a `Direction` attribute read through the public reader) is evaluated at fixed positions of the
run: before anything else, after each of a fixed series of "disturbing" public operations (reading `.vti` files with
a non-identity Direction, image meshes with explicit bases, `.points` / `.equals` on other meshes), on objects built
BEFORE the disturbances, and once more after the random pairs.  The demanded verdict of each directed pair is the
unambiguous one of the property (independent oracle `history_p5d.oracle_lm`, default basis = identity; cross-checked
with the Lean spec) and does not depend on the position.
Phase 6, package G (fcv/c16_batches_p6g.py; notes/PHASE6_G2_C16.md): directed batches for dimensions of the quantifier that
were sampled at one point only — the full matrix of representation pairs (incl. permuted views over structured meshes and
two-column point arrays) x equal / unequal variants x evaluation protocols (order of the two calls, arrays handed out before,
repeated calls), cell-type sets (retyped blocks, both members of an interchangeable pair in one mesh, ragged polygon blocks),
storage types / memory layouts of the arrays, large lattices (> 1000 / > 65536 points, difference at the first / middle /
1024th / last point or cell), non-finite coordinates (S1 / S2 only).
Known classes: F7 (ImageMesh.equals compares spacing/basis with the coordinate-scaled absolute tolerance),
F14 (short-cuts and PermutedMesh.equals use the receiver's tolerances only: asymmetric when they differ).
"""
from __future__ import annotations
import copy
import itertools
import math

from fcv import c16io, meshgen, core
from fcv import history_p5d as hist
from fcv import c16_batches_p6g as p6g
from fcv.num import f2u

REL = 1e-8
# phase 6 (package G): two meshes that BOTH store integer-typed coordinates made Mesh.equals raise (in-place product of an integer
# array and a float tolerance in fuzzy_equal): genuine defect F22, repaired by fix fa67d80 in /repo; rule S1 (never an exception)
# applies to such pairs like to every other pair (False = the observation-only mode used before the lead's decision)
INT_COORDS_STRICT = True


# ---------------------------------------------------------------- generators

def _ext(rng, maxc=4):
    while True:
        e = [rng.choice([0, 0, 1, 2, 3, maxc]) for _ in range(3)]
        if any(e):
            return e


def _scale_off(rng):
    sc = rng.choice([1e-6, 1e-3, 1.0, 1.0, 2.5, 1e3, 1e6])
    off = rng.choice([0.0, 0.0, 1.0, -3.0, 1e3, -1e5]) * (sc if rng.random() < 0.6 else 1.0)
    return sc, off


def gen_rect(rng):
    ext = _ext(rng)
    sc, off = _scale_off(rng)
    ords = []
    for e in ext:
        if e == 0:
            ords.append([] if rng.random() < 0.3 else [rng.choice([0.0, off, 5.0 * sc, -2.0 * sc])])
        else:
            x, o = off, []
            for _ in range(e + 1):
                o.append(x)
                x = x + sc * rng.choice([1.0, 0.5, 1.25, rng.uniform(0.1, 2.0)])
            ords.append(o)
    return {"k": "R", "ext": ext, "ords": ords}


def rect_points(spec):
    ords = [o if o else [0.0] for o in spec["ords"]]
    return [[x, y, z] for z in ords[2] for y in ords[1] for x in ords[0]]


def gen_struct(rng):
    r = gen_rect(rng)
    pts = rect_points(r)
    dim = 3
    if rng.random() < 0.3 and r["ext"][2] == 0 and (not r["ords"][2] or r["ords"][2] == [0.0]):
        dim = 2
        pts = [p[:2] for p in pts]
    if rng.random() < 0.4:      # curvilinear: shear
        s = rng.choice([0.25, -0.5])
        pts = [[p[0] + s * p[1]] + p[1:] for p in pts]
    return {"k": "S", "ext": r["ext"], "dim": dim, "points": pts}


BASES = {
    "none": None,
    "id": [[1.0, 0.0, 0.0], [0.0, 1.0, 0.0], [0.0, 0.0, 1.0]],
    "perm": [[0.0, 1.0, 0.0], [1.0, 0.0, 0.0], [0.0, 0.0, 1.0]],
    "diag": [[2.0, 0.0, 0.0], [0.0, -1.0, 0.0], [0.0, 0.0, 0.5]],
    "rot": [[0.6, -0.8, 0.0], [0.8, 0.6, 0.0], [0.0, 0.0, 1.0]],
}


def gen_image(rng, big=False):
    ext = _ext(rng)
    if big:     # many cells in ONE direction only (the point arrays are generated by Python loops)
        ext[rng.randrange(3)] = rng.choice([40, 300])
    sc, off = _scale_off(rng)
    origin = [rng.choice([0.0, off, -off, 7.0 * sc]) for _ in range(3)]
    spacing = [sc * rng.choice([1.0, 0.5, 0.1, 3.0]) for _ in range(3)]
    b = rng.choice(["none", "none", "none", "id", "perm", "diag", "rot"])
    return {"k": "I", "ext": ext, "origin": origin, "spacing": spacing, "basis": copy.deepcopy(BASES[b])}, b


def image_as_rect(spec):
    """the same grid as a rectilinear mesh (standard basis only): ordinates o + s*i"""
    ords = []
    for d in range(3):
        ords.append([spec["origin"][d] + spec["spacing"][d] * i for i in range(spec["ext"][d] + 1)])
    return {"k": "R", "ext": list(spec["ext"]), "ords": ords}


def _max_abs(vals):
    return max([abs(float(v)) for v in vals] + [0.0])


def _threshold(x, maxc):
    return max(abs(x) * REL, maxc * REL)


FACTORS = [0.0, 0.3, 0.9, 0.999, 1.001, 1.1, 3.0, 1e3]


def _perturb(rng, x, maxc):
    f = rng.choice(FACTORS)
    t = _threshold(x, maxc) or 1e-300
    return x + (1 if rng.random() < 0.5 else -1) * f * t, f


def mutate_rect(rng, spec):
    s = copy.deepcopy(spec)
    kind = rng.choice(["same", "ord", "ord", "ord", "flat", "ext", "emptyzero"])
    maxc = _max_abs(x for o in s["ords"] for x in o)
    tag = kind
    if kind == "ord":
        d = rng.choice([d for d in range(3) if s["ords"][d]] or [0])
        if s["ords"][d]:
            i = rng.randrange(len(s["ords"][d]))
            s["ords"][d][i], f = _perturb(rng, s["ords"][d][i], maxc)
            tag = f"ord-d{d}-f{f}"
    elif kind == "flat":
        flats = [d for d in range(3) if s["ext"][d] == 0]
        if flats:
            d = rng.choice(flats)
            s["ords"][d] = [(s["ords"][d][0] if s["ords"][d] else 0.0) + rng.choice([1.0, 5.0, 1e-3]) * (maxc or 1.0)]
            tag = f"flat-d{d}"
    elif kind == "ext":
        d = rng.randrange(3)
        if s["ext"][d] > 0 and rng.random() < 0.5:
            s["ext"][d] -= 1
            s["ords"][d] = s["ords"][d][:-1]
        else:
            s["ext"][d] += 1
            last = s["ords"][d][-1] if s["ords"][d] else 0.0
            s["ords"][d] = (s["ords"][d] or [0.0]) + [last + 1.0]
        if not any(s["ext"]):
            return copy.deepcopy(spec), "same"
    elif kind == "emptyzero":
        # [] and [0.0] are the same ordinate array for a flat direction
        for d in range(3):
            if s["ext"][d] == 0 and s["ords"][d] in ([], [0.0]):
                s["ords"][d] = [] if s["ords"][d] else [0.0]
    return s, tag


def mutate_struct(rng, spec):
    s = copy.deepcopy(spec)
    kind = rng.choice(["same", "pt", "pt", "pt", "ext"])
    maxc = _max_abs(c for p in s["points"] for c in p)
    tag = kind
    if kind == "pt":
        i = rng.randrange(len(s["points"]))
        j = rng.randrange(s["dim"])
        s["points"][i][j], f = _perturb(rng, s["points"][i][j], maxc)
        tag = f"pt-c{j}-f{f}"
    elif kind == "ext":
        # same number of points, different extents (e.g. 1x3x0 vs 3x1x0) when possible
        e = s["ext"]
        perm = [e[1], e[0], e[2]]
        if perm != e:
            s["ext"] = perm
        else:
            tag = "same"
    return s, tag


def mutate_image(rng, spec, directed_f7=False):
    s = copy.deepcopy(spec)
    maxc = max(max(abs(s["origin"][d]), abs(s["origin"][d] + s["spacing"][d] * s["ext"][d])) for d in range(3))
    kind = rng.choice(["same", "origin", "spacing", "spacing", "basis", "basis-flatrow", "ext", "flatdir"]) if not directed_f7 else "spacing-f7"
    tag = kind
    if kind == "flatdir":
        # the same sequence of non-zero extents, but flat in ANOTHER direction (e.g. (2,0,3) vs (2,3,0)): origin,
        # spacing and basis say nothing about which direction is flat — only the extents triple does
        nz = [e for e in s["ext"] if e > 0]
        cands = []
        for flat_pos in range(3):
            for flat_pos2 in range(flat_pos, 3):
                pass
        import itertools
        zeros = 3 - len(nz)
        for pos in itertools.combinations(range(3), zeros):
            ext, it = [], iter(nz)
            for d in range(3):
                ext.append(0 if d in pos else next(it))
            if ext != s["ext"]:
                cands.append(ext)
        if cands:
            s["ext"] = rng.choice(cands)
            tag = "flatdir-swap"
        else:
            kind = "same"
    if kind == "basis-flatrow":
        # out-of-plane tilt of a flat grid: the ROW of a flat direction, in the COLUMN of a meshed direction
        # (the basis vectors are the columns; such an entry moves the generated points out of the plane)
        flats = [d for d in range(3) if s["ext"][d] == 0]
        meshed = [d for d in range(3) if s["ext"][d] > 0]
        if flats and meshed:
            if s["basis"] is None:
                s["basis"] = copy.deepcopy(BASES["id"])
            r, c = rng.choice(flats), rng.choice(meshed)
            s["basis"][r][c] = s["basis"][r][c] + rng.choice([0.5, -0.25, 1e-3, 100 * (_threshold(1.0, maxc) or 1e-8)])
            tag = "basis-flatrow"
        else:
            kind = "basis"
    if kind == "origin":
        d = rng.randrange(3)
        s["origin"][d], f = _perturb(rng, s["origin"][d], maxc)
        tag = f"origin-f{f}"
    elif kind == "spacing":
        d = rng.randrange(3)
        s["spacing"][d], f = _perturb(rng, s["spacing"][d], maxc)
        tag = f"spacing-f{f}"
    elif kind == "spacing-f7":
        ds = [d for d in range(3) if s["ext"][d] >= 2] or [0]
        d = rng.choice(ds)
        s["spacing"][d] = s["spacing"][d] + 0.9 * maxc * REL
    elif kind == "basis":
        if s["basis"] is None:
            s["basis"] = copy.deepcopy(BASES["id"])
        r, c = rng.randrange(3), rng.randrange(3)
        s["basis"][r][c], f = _perturb(rng, s["basis"][r][c], maxc)
        tag = f"basis-f{f}"
    elif kind == "ext":
        d = rng.randrange(3)
        s["ext"][d] += 1
    return s, tag


def _rename_compatible(lm, rng):
    """store quads as pixels / hexahedra as voxels (and back): the same cells, the other type"""
    out = copy.deepcopy(lm)
    q = [0, 1, 3, 2]
    h = [0, 1, 3, 2, 4, 5, 7, 6]
    ren = {"QUAD": ("PIXEL", q), "PIXEL": ("QUAD", q), "HEXAHEDRON": ("VOXEL", h), "VOXEL": ("HEXAHEDRON", h)}
    done = False
    names = [t for t, _ in out["cells"]]
    for blk in out["cells"]:
        if blk[0] in ren and ren[blk[0]][0] not in names:
            nm, p = ren[blk[0]]
            blk[1] = [[row[i] for i in p] for row in blk[1]]
            blk[0] = nm
            done = True
    return out, done


def mutate_explicit(rng, lm):
    """second mesh of an explicit pair"""
    kind = rng.choice(["same", "coord", "coord", "compat", "compat", "onesided", "dropblock", "cell", "count",
                       "compat+coord", "shuffleblocks", "extrapoint", "dim"])
    out = copy.deepcopy(lm)
    tag = kind
    maxc = _max_abs(c for p in out["points"] for c in p)
    if kind in ("coord", "compat+coord"):
        i, j = rng.randrange(len(out["points"])), rng.randrange(out["dim"])
        out["points"][i][j], f = _perturb(rng, out["points"][i][j], maxc)
        tag = f"{kind}-f{f}"
    if kind in ("compat", "compat+coord"):
        out, done = _rename_compatible(out, rng)
        if not done:
            tag = tag.replace("compat", "nocompat")
    if kind == "onesided":
        have = {t for t, _ in out["cells"]}
        n = len(out["points"])
        cand = [("TRIANGLE", 3), ("LINE", 2), ("QUAD", 4), ("PIXEL", 4), ("VERTEX", 1), ("TETRA", 4)]
        cand = [(t, k) for t, k in cand if t not in have and k <= n]
        if cand:
            t, k = rng.choice(cand)
            out["cells"].insert(rng.randrange(len(out["cells"]) + 1), [t, [rng.sample(range(n), k)]])
            tag = f"onesided-{t}"
    elif kind == "dropblock":
        if len(out["cells"]) > 1:
            out["cells"].pop(rng.randrange(len(out["cells"])))
        else:
            tag = "same"
    elif kind == "cell":
        b = rng.choice(out["cells"])
        if b[1]:
            c = rng.randrange(len(b[1]))
            k = rng.randrange(len(b[1][c]))
            how = rng.choice(["rewire", "permute", "swap"])
            if how == "swap" and len(b[1]) >= 2:
                c2 = (c + 1 + rng.randrange(len(b[1]) - 1)) % len(b[1])
                k2 = rng.randrange(len(b[1][c2]))
                b[1][c][k], b[1][c2][k2] = b[1][c2][k2], b[1][c][k]
            elif how == "rewire" or how == "swap":
                b[1][c][k] = (b[1][c][k] + 1 + rng.randrange(max(len(out["points"]) - 1, 1))) % len(out["points"])
            else:
                r = b[1][c]
                b[1][c] = r[1:] + r[:1]
            tag = f"cell-{how}"
    elif kind == "count":
        b = rng.choice(out["cells"])
        if len(b[1]) > 1 and rng.random() < 0.5:
            b[1].pop(rng.randrange(len(b[1])))
            tag = "count-remove"
        elif b[1]:
            b[1].append(list(rng.choice(b[1])))
            tag = "count-add"
    elif kind == "shuffleblocks":
        rng.shuffle(out["cells"])
    elif kind == "extrapoint":
        out["points"].append([0.0] * out["dim"])
    elif kind == "dim":
        if out["dim"] < 3:
            out["points"] = [p + [0.0] for p in out["points"]]
            out["dim"] += 1
        else:
            tag = "same"
    return out, tag


def _maybe_tol(rng, spec, p=0.12):
    if rng.random() < p:
        spec = dict(spec, tol=[rng.choice([1e-12, 1e-6, 1e-3, 0.1]), rng.choice([1e-8, 1e-8, 1e-10, 1e-5])])
    return spec


def _with_unconnected_points(rng, lm, k):
    """the same mesh with k further points no cell refers to, inserted at random positions of the point list"""
    lm = copy.deepcopy(lm)
    pts = lm["points"]
    lo = [min(p[d] for p in pts) for d in range(lm["dim"])]
    hi = [max(p[d] for p in pts) for d in range(lm["dim"])]
    for _ in range(k):
        pos = rng.choice([0, len(pts) // 2, rng.randrange(len(pts) + 1)])
        new = [lo[d] + (hi[d] - lo[d] + 1.0) * (0.137 + 0.71 * rng.random()) for d in range(lm["dim"])]
        pts.insert(pos, new)
        lm["cells"] = [[t, [[i + 1 if i >= pos else i for i in row] for row in rows]] for t, rows in lm["cells"]]
    return lm


def gen_pair(rng, i):
    """-> (specA, specB, tags)"""
    r = rng.random()
    if r < 0.30:
        ka = "P" if rng.random() < 0.3 else "E"
        kb = "P" if rng.random() < 0.3 else "E"
        lm, t = meshgen.gen_mesh(rng, max_cells_per_dir=3, fields=False, allow_orphans=(ka + kb == "EE"))
        if "P" in ka + kb:
            # start from the canonical (sorted) storage order so that the permuted view and the explicit mesh
            # are comparable index by index
            try:
                lm = c16io.explicit_lm(c16io.build({"k": "P", "lm": lm}))
            except Exception:  # noqa: BLE001 - sort_points refuses unconnected duplicate points
                ka = kb = "E"
        lm2, tag = mutate_explicit(rng, lm)
        a, b = {"k": ka, "lm": lm}, {"k": kb, "lm": lm2}
        tags = [f"pair-{ka}{kb}", "mut-" + tag, "style-" + str(t["style"])]
        # a sorted view drops unconnected points: the wrapped mesh of a "P" side may carry some, anywhere in its point list
        # (front / middle / end) — the view is the same grid
        for side in (a, b):
            if side["k"] == "P" and rng.random() < 0.5:
                side["lm"] = _with_unconnected_points(rng, side["lm"], rng.randint(1, 2))
                tags.append("view-over-unconnected-points")
    elif r < 0.50:
        a = gen_rect(rng)
        b, tag = mutate_rect(rng, a)
        tags = ["pair-RR", "mut-" + tag, "flat" + str(sum(1 for e in a["ext"] if e == 0))]
    elif r < 0.63:
        a = gen_struct(rng)
        b, tag = mutate_struct(rng, a)
        tags = ["pair-SS", "mut-" + tag, "flat" + str(sum(1 for e in a["ext"] if e == 0))]
    elif r < 0.83:
        big = rng.random() < 0.08
        a, bn = gen_image(rng, big=big)
        b, tag = mutate_image(rng, a, directed_f7=(rng.random() < 0.1))
        tags = ["pair-II", "mut-" + tag, "basis-" + bn, "flat" + str(sum(1 for e in a["ext"] if e == 0))]
    else:
        # mixed representations of the same / a perturbed grid
        a, bn = gen_image(rng)
        a["basis"] = rng.choice([None, copy.deepcopy(BASES["id"])])
        rct = image_as_rect(a)
        if rng.random() < 0.5:
            rct, tag = mutate_rect(rng, rct)
        else:
            tag = "same"
        kind = rng.choice(["IR", "IS", "RS", "IE", "RE", "SE", "RP"])
        st = {"k": "S", "ext": list(rct["ext"]), "dim": 3, "points": rect_points(rct)}
        objs = {"I": a, "R": rct, "S": st}
        first = objs[kind[0]] if kind[0] != "R" else image_as_rect(a)
        if kind[1] in "EP":
            src = {"I": a, "R": rct, "S": st}[kind[0]]
            ex = c16io.explicit_lm(c16io.build(st if kind[0] != "S" else rct))
            a2, b2 = src, {"k": kind[1], "lm": ex}
        else:
            a2, b2 = first, objs[kind[1]]
        a, b = a2, b2
        tags = [f"pair-{kind}", "mut-" + tag]
    a = _maybe_tol(rng, a)
    b = _maybe_tol(rng, b)
    if "tol" in a or "tol" in b:
        tags.append("custom-tol")
    return a, b, tags


def directed_f14(rng):
    """receiver-only tolerances: default tolerances that differ by one part in 1e8, one ordinate in the band"""
    hi = 100.0
    a = {"k": "R", "ext": [1, 0, 0], "ords": [[0.0, hi], [], []]}
    b = {"k": "R", "ext": [1, 0, 0], "ords": [[1.000000005e-6, hi * (1 + 1e-8)], [], []]}
    return a, b, ["pair-RR", "directed-F14"]


def directed_tolerance_band(rng):
    """two explicit meshes that state DIFFERENT tolerances, one coordinate deviating by an amount between the two:
    the implementation takes the smaller tolerance of the pair (mesh_equal), so does the model — verdict unequal in both
    orders.  (The property-level rule S5 leaves the band open; this family is there for the correspondence: an
    implementation that switched to the larger tolerance would differ from the model on these pairs only.)"""
    out = []
    base = [[0.0, 0.0], [4.0, 0.0], [4.0, 2.0], [0.0, 2.0], [8.0, 2.0], [8.0, 0.0]]
    cells = [["QUAD", [[0, 1, 2, 3], [1, 5, 4, 2]]]]
    for which, (tol_a, tol_b, dev) in {
            "rel": ([0.0, 1e-3], [0.0, 1e-9], 8.0 * 1e-5),            # [abs, rel]; |dev| between rel_b*8 and rel_a*8
            "abs": ([1e-3, 0.0], [1e-9, 0.0], 1e-5),
            "both": ([1e-4, 1e-4], [1e-10, 1e-10], 2e-5)}.items():
        moved = copy.deepcopy(base)
        moved[4][0] += dev
        for ta, tb in ((tol_a, tol_b), (tol_b, tol_a)):
            a = {"k": "E", "lm": {"dim": 2, "points": copy.deepcopy(base), "cells": copy.deepcopy(cells), "pf": [], "cf": []}, "tol": ta}
            b = {"k": "E", "lm": {"dim": 2, "points": copy.deepcopy(moved), "cells": copy.deepcopy(cells), "pf": [], "cf": []}, "tol": tb}
            out.append((a, b, ["pair-EE", "directed-tolerance-band", "band-" + which, "custom-tol"]))
    return out


def directed_f7(rng):
    a = {"k": "I", "ext": [2, 0, 0], "origin": [1000.0, 0.0, 0.0], "spacing": [1.0, 1.0, 1.0], "basis": None}
    b = dict(a, spacing=[1.000009, 1.0, 1.0])
    return a, b, ["pair-II", "directed-F7"]


# ---------------------------------------------------------------- evaluation

def _harmonized(spec, tol):
    return dict(spec, tol=[tol[0], tol[1]])


def params_within(sa, sb, rel, abs_):
    """S4: all defining parameters of two same-class structured meshes agree within (rel, abs)"""
    if sa["k"] != sb["k"] or list(sa["ext"]) != list(sb["ext"]):
        return False
    if sa["k"] == "R":
        return all(c16io.all_within(x or [0.0], y or [0.0], rel, abs_) for x, y in zip(sa["ords"], sb["ords"]))
    if sa["k"] == "S":
        if sa["dim"] != sb["dim"] or len(sa["points"]) != len(sb["points"]):
            return False
        return all(c16io.all_within(p, q, rel, abs_) for p, q in zip(sa["points"], sb["points"]))
    if sa["k"] == "I":
        ba = sa.get("basis") or BASES["id"]
        bb = sb.get("basis") or BASES["id"]
        return (c16io.all_within(sa["origin"], sb["origin"], rel, abs_)
                and c16io.all_within(sa["spacing"], sb["spacing"], rel, abs_)
                and all(c16io.all_within(x, y, rel, abs_) for x, y in zip(ba, bb)))
    return False


def check_pair(ctx, sa, sb, tags, lean_rows, extra=None, protocol=None, gen_rows=True):
    """one unordered pair: both orders on the implementation, the spec rules S1..S5, queue driver lines;
    `extra` = further entries of the reported case (the recorded history of the process, see HistoryBatch);
    `protocol` = how the two verdicts are obtained (fcv.c16_batches_p6g.run_protocol; None = a.equals(b), b.equals(a)
    on fresh objects), part of the reported case"""
    case = dict({"a": sa, "b": sb}, **(extra or {}))
    if protocol:
        case["protocol"] = protocol
    try:
        A, B = p6g.build(sa), p6g.build(sb)
    except (IndexError, KeyError, ValueError, TypeError, RuntimeError, AssertionError, AttributeError) as e:
        # every generated description is a well-formed mesh in one of the public representations (explicit, sorted /
        # stripped view, rectilinear, structured, image): a representation that cannot even be built has no verdict
        ctx.violation(dict(case, order="build"), f"X:{type(e).__name__}: {e}"[:200], "T|F", cls=None,
                      what="building a public representation of a well-formed mesh raised, so it compares equal to nothing")
        return
    ab, ba, earlier = p6g.run_protocol(A, B, protocol)
    if p6g.int_coords(sa, sb) and not INT_COORDS_STRICT:
        raised = ab.startswith("X:") or ba.startswith("X:")
        if raised and not ctx.dist["obs-int-coords-raise"]:
            ctx.notes.append("observation (suspected defect, see notes/PHASE6_G2_C16.md): equals raises when both meshes store "
                             f"integer-typed coordinates: a.equals(b)={ab} b.equals(a)={ba}")
        ctx.case((sa, sb), nontrivial=sa != sb, tags=list(tags) + ["obs-int-coords-" + ("raise" if raised else "ok")])
        return
    fuzz = p6g.margin(sa, sb)
    nolean = p6g.no_model(sa, sb)
    ta, tb = c16io.tolerances(A), c16io.tolerances(B)
    tol_differ = ta != tb
    shortcut = sa["k"] == sb["k"] and sa["k"] in "RSI"
    receiver_tol = lambda s: s["k"] in "PRSI"   # noqa: E731
    tags = list(tags) + [f"verdict-{ab}{ba}"]
    # S1 — never an exception
    for v, order in ((ab, "a.equals(b)"), (ba, "b.equals(a)")):
        if v.startswith("X:"):
            ctx.violation(dict(case, order=order), v, "T|F", cls=None, what="equals raised an exception")
    # explicit representation of the same grids (same tolerances)
    EA, EB = c16io.explicit_copy(A), c16io.explicit_copy(B)
    eab, eba = c16io.run_equals(EA, EB), c16io.run_equals(EB, EA)
    lma, lmb = c16io.explicit_lm(A), c16io.explicit_lm(B)
    mn = (min(ta[0], tb[0]), min(ta[1], tb[1]))
    mx = (max(ta[0], tb[0]), max(ta[1], tb[1]))

    def harmonized_verdicts():
        HA, HB = p6g.build(_harmonized(sa, mn)), p6g.build(_harmonized(sb, mn))
        hab, hba = c16io.run_equals(HA, HB), c16io.run_equals(HB, HA)
        hexp = c16io.run_equals(c16io.explicit_copy(HA), c16io.explicit_copy(HB))
        return hab, hba, hexp

    # S2 — symmetry
    if ab != ba and not (ab.startswith("X:") or ba.startswith("X:")):
        cls = None
        if tol_differ and (receiver_tol(sa) or receiver_tol(sb)):
            hab, hba, _ = harmonized_verdicts()
            if hab == hba:
                cls = "F14"
        ctx.violation(case, f"a.equals(b)={ab} b.equals(a)={ba}", "equal answers", cls=cls,
                      what="mesh equality is not symmetric")
        tags.append("asym" + ("-F14" if cls else ""))
    # S3 — short-cut 'equal' => explicit 'equal'
    if shortcut:
        for v, e, order, (x, y) in ((ab, eab, "a.equals(b)", (sa, sb)), (ba, eba, "b.equals(a)", (sb, sa))):
            if v == "T" and e != "T":
                hab, hba, hexp = harmonized_verdicts()
                hv = hab if order == "a.equals(b)" else hba
                if hv == "T" and hexp != "T":
                    # F7 = two image meshes whose origin, spacing and basis DO agree within the tolerance
                    # (the documented parameter check passes) while the points they generate do not
                    cls = "F7" if sa["k"] == "I" and params_within(sa, sb, mn[1], mn[0]) else None
                elif tol_differ:
                    cls = "F14"
                else:
                    cls = None
                ctx.violation(dict(case, order=order), f"structured={v} explicit={e}", "structured equal => explicit equal",
                              cls=cls, what="structured short-cut answers equal, explicit representation unequal")
                tags.append("unsound-" + str(cls))
        # S4 — parameters within the smaller tolerance => equal
        if params_within(sa, sb, mn[1], mn[0]):
            tags.append("params-within")
            # image meshes: 'spacing within the coordinate-scaled tolerance' does not bound the generated points
            # (that is finding F7); 'equal' is demanded only where soundness allows it, i.e. the explicit
            # representation is equal as well — this keeps the rule valid for the pinned and for a repaired code
            demand = sa["k"] != "I" or (eab == "T" and eba == "T")
            for v, order in ((ab, "a.equals(b)"), (ba, "b.equals(a)")):
                if demand and v != "T":
                    ctx.violation(dict(case, order=order), v, "T", cls=None,
                                  what="all defining parameters within tolerance but not equal")
    else:
        # S5 — generic path against the independent oracle
        # fuzz > 1 (both sides float32 / float16: the comparison is not evaluated in binary64): a verdict is demanded
        # only outside a band of that factor around the tolerances
        o_min = c16io.oracle_mesh_equal(lma, lmb, mn[1] / fuzz, mn[0] / fuzz)
        o_max = c16io.oracle_mesh_equal(lma, lmb, mx[1] * fuzz, mx[0] * fuzz)
        for v, order in ((ab, "a.equals(b)"), (ba, "b.equals(a)")):
            if v == "T" and not o_max:
                ctx.violation(dict(case, order=order), v, "F", cls=None,
                              what="meshes compare equal although points / cell types / cells differ beyond tolerance")
            if v == "F" and o_min:
                ctx.violation(dict(case, order=order), v, "T", cls=None,
                              what="meshes equal within the smaller tolerance compare unequal")
        tags.append("oracle-" + ("T" if o_min else "F"))
    # driver lines (correspondence), both orders + generated explicit data / default tolerance
    if not nolean:
        ea, eb = c16io.enc_any(sa, A), c16io.enc_any(sb, B)
        lean_rows.append(("eq", case, "a.equals(b)", ab, f"c16eq {ea} {eb}", None))
        lean_rows.append(("eq", case, "b.equals(a)", ba, f"c16eq {eb} {ea}", None))
        for order, v in earlier:    # protocol "twice": the first verdicts are verdicts of the same pair
            lean_rows.append(("eq", dict(case, call="first of two"), order, v,
                              f"c16eq {ea} {eb}" if order == "a.equals(b)" else f"c16eq {eb} {ea}", None))
        for s, obj, enc, lm in ((sa, A, ea, lma), (sb, B, eb, lmb)):
            if s["k"] in "RSI" and gen_rows:
                dflt = None if "tol" in s else f2u(obj.absolute_tolerance)
                lean_rows.append(("gen", s, "", dflt, f"c16gen {enc} {meshgen.enc_mesh(lm)}", None))
    for order, v in earlier:
        # independent of the model: a repeated call on the same objects is a verdict of the same pair and has to satisfy the
        # same rules; where it differs from the last call at most one of the two can be the model's verdict
        if v != (ab if order == "a.equals(b)" else ba):
            if True:
                ctx.violation(dict(case, order=order), f"first call {v}, second call {ab if order == 'a.equals(b)' else ba}",
                              "one verdict per pair", cls=None, what="repeated equals on the same objects changed its answer")
            tags.append("twice-differs")
    nontrivial = sa != sb
    ctx.case((sa, sb), nontrivial=nontrivial, tags=tags,
             sample={"a": sa["k"], "b": sb["k"], "tags": tags[:3], "a.equals(b)": ab, "b.equals(a)": ba,
                     "explicit": eab})


def flush_lean(ctx, rows):
    if not ctx.driver_ok or not rows:
        return
    replies = ctx.lean([r[4] for r in rows])
    for (kind, case, order, impl, line, _expect), rep in zip(rows, replies):
        if kind in ("eq", "heq"):
            if "hyp" not in rep:
                ctx.inconsistent(dict(case=case, order=order), str(rep), "bad-op")
                continue
            ctx.dist["hyp-" + rep["hyp"]] += 1
            ctx.dist["path-" + rep.get("kind", "?")] += 1
            if rep["hyp"] != "1":
                continue
            if rep["model"] != impl:
                ctx.mismatch(dict(case, order=order), impl, rep["model"], what="equals: impl vs model")
            if rep["spec"] not in ("-", rep["model"]):
                ctx.inconsistent(dict(case, order=order), rep["model"], rep["spec"])
            if kind == "heq" and rep["spec"] in ("T", "F") and rep["spec"] != _expect:
                # the directed history pairs are unambiguous: the Python oracle and the Lean spec must agree
                ctx.inconsistent(dict(case, order=order), f"python oracle demands {_expect}", f"lean spec {rep['spec']}")
        else:
            if "gen" not in rep:
                ctx.inconsistent(dict(case=case), str(rep), "bad-op")
                continue
            if rep["gen"] == "0":
                ctx.mismatch(case, "points/connectivity of the object", "model toMesh differs",
                             what="generated explicit representation: impl vs model")
            ctx.dist["gen-" + rep["gen"]] += 1
            if impl is not None and rep["tol"] != str(impl):
                ctx.mismatch(case, impl, rep["tol"], what="default absolute tolerance: impl vs model")


def check_compat_table(ctx):
    """CellType.is_compatible_with over all ordered pairs of known types vs the model on the regenerated table"""
    from fieldcompare.mesh import CellType
    from fieldcompare.mesh._cell_type_maps import _CELL_TYPE_INDEX_TO_STR
    names = [n for _, n in sorted(_CELL_TYPE_INDEX_TO_STR.items())]
    pairs = list(itertools.product(names, names))
    impl = ["1" if CellType.from_name(a).is_compatible_with(CellType.from_name(b)) else "0" for a, b in pairs]
    expected = ["1" if c16io.compat(a, b) else "0" for a, b in pairs]
    for (a, b), i, e in zip(pairs, impl, expected):
        if i != e:
            ctx.violation({"types": [a, b]}, i, e, cls=None,
                          what="is_compatible_with differs from 'pixel~quad, voxel~hexahedron, nothing else'")
    if ctx.driver_ok:
        reps = ctx.lean([f"c16compat {a} {b}" for a, b in pairs])
        for (a, b), i, rep in zip(pairs, impl, reps):
            if rep.get("model") != i or rep.get("id") != i:
                ctx.mismatch({"types": [a, b]}, i, rep, what="is_compatible_with: impl vs model")
    ctx.extra["compat_pairs_checked"] = len(pairs)
    ctx.evaluations += len(pairs)


# ---------------------------------------------------------------- phase 6 package G: directed batches (fcv.c16_batches_p6g)

def check_large(ctx, case):
    """large lattices (> 1000 / > 65536 points): identical, or ONE coordinate of one point / ONE corner of one cell differs
    at the first / a middle / row 1024 / the last position; the verdict follows from the construction (search, no model)"""
    ab, ba = p6g.eval_large(case)
    size = "gt65536" if case["npoints"] > 65536 else "gt1000" if case["npoints"] > 1000 else "small"
    tags = ["large", "large-" + size, "large-" + case["name"].split(":")[0], "large-" + case["name"].split(":")[1],
            f"verdict-{ab}{ba}"]
    for v, order in ((ab, "a.equals(b)"), (ba, "b.equals(a)")):
        if v != case["expect"]:
            ctx.violation(dict(case, order=order), v, case["expect"], cls=None,
                          what=("equals raised an exception" if v.startswith("X:") else
                                "two identical large lattices compare unequal" if case["expect"] == "T" else
                                "large lattices that differ in one coordinate (1e-3 x the lattice constant) / one corner of "
                                "one cell compare equal"))
    ctx.case(("large", case["name"], case["a"], case["b"]), nontrivial=True, tags=tags)


def check_nonfinite(ctx, sa, sb, name):
    """NaN / inf coordinates or parameters: rules S1 (never an exception) and S2 (same answer in both orders) only"""
    A, B = p6g.build(sa), p6g.build(sb)
    ab, ba = c16io.run_equals(A, B), c16io.run_equals(B, A)
    case = {"a": sa, "b": sb, "p6g": "nonfinite"}
    for v, order in ((ab, "a.equals(b)"), (ba, "b.equals(a)")):
        if v.startswith("X:"):
            ctx.violation(dict(case, order=order), v, "T|F", cls=None, what="equals raised an exception (non-finite coordinates)")
    if ab != ba and not (ab.startswith("X:") or ba.startswith("X:")):
        # receiver-only tolerances (F21, local class F14): the default absolute tolerance of a mesh with a non-finite
        # coordinate is inf / nan, the partner's is finite
        cls = "F14" if c16io.tolerances(A) != c16io.tolerances(B) and (sa["k"] in "PRSI" or sb["k"] in "PRSI") else None
        ctx.violation(case, f"a.equals(b)={ab} b.equals(a)={ba}", "equal answers", cls=cls, what="mesh equality is not symmetric")
    ctx.case(("nonfinite", sa, sb), nontrivial=True, tags=[name, "nonfinite", f"verdict-{ab}{ba}"])


def run_p6g_batches(ctx, rows):
    import random
    rng = random.Random((ctx.seed * 7919) ^ 0x16C6)     # own stream: the pairs drawn by the older batches keep their seeds
    batches = [("matrix", p6g.matrix_cases(rng, ctx.scale(6, 60))),
               ("celltypes", p6g.celltype_cases(rng, ctx.scale(60, 900))),
               ("storage", p6g.storage_cases(rng, ctx.scale(90, 1200)))]
    seen = set()
    for bname, cases in batches:
        for ci, (sa, sb, tags, proto) in enumerate(cases):
            # the matrix batch meets the same few structured objects again and again: their generated points / connectivity /
            # default tolerance are compared with the model's when a description occurs for the first time (and for every
            # eighth pair: objects that went through different protocols)
            keys = {repr(s_) for s_ in (sa, sb) if s_["k"] in "RSI"}
            gen = bname != "matrix" or ci % 8 == 0 or not keys <= seen
            seen |= keys
            check_pair(ctx, sa, sb, ["p6g-" + bname] + tags, rows, None, protocol=proto, gen_rows=gen)
            if len(rows) >= 4000:
                flush_lean(ctx, rows)
                del rows[:]
        flush_lean(ctx, rows)
        del rows[:]
    exts = [[40, 30, 0], [0, 1500, 0]] + ctx.scale([[300, 0, 230]], [[11, 10, 9], [0, 12, 90], [300, 0, 230], [0, 0, 70000], [45, 40, 40], [260, 260, 0]])
    for case in p6g.large_cases(rng, exts, full_above=ctx.scale(20000, 10 ** 9)):
        check_large(ctx, case)
    for sa, sb, name in p6g.nonfinite_cases():
        check_nonfinite(ctx, sa, sb, name)


# ---------------------------------------------------------------- directed: explicitly set tolerances incl. exact zeros

class _Stated:
    """the object with the tolerances the API call STATED (not the ones it reports): input of the driver encoding"""
    def __init__(self, obj, abs_tol, rel_tol):
        self._o, self.absolute_tolerance, self.relative_tolerance = obj, float(abs_tol), float(rel_tol)

    points = property(lambda self: self._o.points)
    cell_types = property(lambda self: self._o.cell_types)

    def connectivity(self, ct):
        return self._o.connectivity(ct)


ZT_LM = {"dim": 2, "points": [[0.0, 0.0], [50.0, 0.0], [100.0, 0.0], [0.0, 10.0], [50.0, 10.0], [100.0, 10.0]],
         "cells": [["QUAD", [[0, 1, 4, 3], [1, 2, 5, 4]]]], "pf": [], "cf": []}


def _zt_variants(maxc):
    """(name, [abs, rel]) — exact zeros: both, abs only (default rel), rel only (tiny / default abs)"""
    return [("both-zero", [0.0, 0.0]), ("abs-zero", [0.0, REL]), ("rel-zero-tiny-abs", [1e-12 * maxc, 0.0]),
            ("rel-zero-default-abs", [maxc * REL, 0.0])]


def stated_tolerance_cases(rng):
    """pairs (sa, sb, name): both members carry the SAME explicitly set tolerances (so that the receiver-only
    evaluation of finding F21 cannot interfere); sb = sa with one coordinate / parameter moved by 0.3 x the DEFAULT
    tolerance (below what the defaults would accept, above zero), or sb = sa"""
    out = []
    lms = []
    for k in range(3):
        # canonical (sorted) storage order, so that permuted views and explicit meshes are comparable index by index
        lm = copy.deepcopy(ZT_LM) if k == 0 else meshgen.gen_mesh(rng, max_cells_per_dir=2, fields=False, allow_orphans=False,
                                                                 allow_duplicates=False)[0]
        try:
            lms.append(c16io.explicit_lm(c16io.build({"k": "P", "lm": lm})))
        except Exception:  # noqa: BLE001
            pass
    for li, lm in enumerate(lms):
        maxc = _max_abs(c for p in lm["points"] for c in p) or 1.0
        delta = 0.3 * maxc * REL
        flat = [(abs(c), i, j) for i, p in enumerate(lm["points"]) for j, c in enumerate(p)]
        big, small = max(flat), min(flat)
        for vname, tol in _zt_variants(maxc):
            for dname, (_, i, j) in (("same", (0, None, None)), ("dev-largest-coordinate", big), ("dev-smallest-coordinate", small)):
                lm2 = copy.deepcopy(lm)
                if i is not None:
                    lm2["points"][i][j] += delta
                for ka, kb, oa, ob in (("E", "E", None, None), ("P", "P", "view", "view"), ("P", "P", "inner-view", "inner-view"),
                                       ("P", "P", "base", "base"), ("P", "E", "view", None), ("P", "P", "view", "base")):
                    a = {"k": ka, "lm": lm, "tol": list(tol)}
                    b = {"k": kb, "lm": lm2, "tol": list(tol)}
                    if oa:
                        a["tol_on"] = oa
                    if ob:
                        b["tol_on"] = ob
                    out.append((a, b, f"m{li}:{vname}:{dname}:{ka}{'-' + oa if oa else ''}~{kb}{'-' + ob if ob else ''}"))
    # structured representations of one lattice: x = 0, 50, 100; y = 0, 10
    img = {"k": "I", "ext": [2, 1, 0], "origin": [0.0, 0.0, 0.0], "spacing": [50.0, 10.0, 1.0], "basis": None}
    maxc = 100.0
    delta = 0.3 * maxc * REL
    for vname, tol in _zt_variants(maxc):
        for dname, d in (("same", None), ("dev-x", 0), ("dev-y", 1)):
            i2 = copy.deepcopy(img)
            r1 = image_as_rect(img)
            r2 = copy.deepcopy(r1)
            if d is not None:
                i2["origin"][d] += delta
                r2["ords"][d][-1] += delta
            s1 = {"k": "S", "ext": list(r1["ext"]), "dim": 3, "points": rect_points(r1)}
            s2 = {"k": "S", "ext": list(r2["ext"]), "dim": 3, "points": rect_points(r2)}
            e2 = {"k": "E", "lm": hist.oracle_lm(r2)}
            for a, b, nm in ((img, i2, "I~I"), (r1, r2, "R~R"), (s1, s2, "S~S"), (r1, s2, "R~S"), (r1, e2, "R~E"), (s1, e2, "S~E")):
                out.append((dict(copy.deepcopy(a), tol=list(tol)), dict(copy.deepcopy(b), tol=list(tol)), f"grid:{vname}:{dname}:{nm}"))
    return out


def check_stated_tolerances(ctx, sa, sb, name, rows):
    """verdict with explicitly set tolerances (the same on both sides) vs the verdict the property demands for the
    STATED tolerances (independent oracle, cross-checked with the Lean spec); both argument orders"""
    A, B = c16io.build(sa), c16io.build(sb)
    ab, ba = c16io.run_equals(A, B), c16io.run_equals(B, A)
    abs_, rel = float(sa["tol"][0]), float(sa["tol"][1])
    la = c16io.explicit_lm(A) if sa["k"] == "P" else hist.oracle_lm(sa)
    lb = c16io.explicit_lm(B) if sb["k"] == "P" else hist.oracle_lm(sb)
    expect = c16io.oracle_mesh_equal(la, lb, rel, abs_)
    tags = ["stated-tolerances", "stated-" + name.split(":")[1], "stated-" + name.split(":")[3], f"verdict-{ab}{ba}"]
    if sa["k"] == sb["k"] and sa["k"] in "RSI" and params_within(sa, sb, rel, abs_) != expect:
        ctx.dist["stated-dropped-not-unambiguous"] += 1
        return
    expect = "T" if expect else "F"
    tags.append("stated-expect-" + expect)
    case = {"a": sa, "b": sb, "pair": name, "expect": expect, "stated_tol": [abs_, rel]}
    for v, order in ((ab, "a.equals(b)"), (ba, "b.equals(a)")):
        if v != expect:
            ctx.violation(dict(case, order=order), v, expect, cls=None,
                          what=("equals raised an exception" if v.startswith("X:") else
                                f"verdict differs from the one demanded by the tolerances set with set_tolerances(abs_tol={abs_}, "
                                f"rel_tol={rel}) on both meshes (objects report abs/rel {c16io.tolerances(A)} and {c16io.tolerances(B)})"))
            tags.append("stated-violation")
    if ctx.driver_ok:
        ea, eb = c16io.enc_any(sa, _Stated(A, abs_, rel)), c16io.enc_any(sb, _Stated(B, abs_, rel))
        rows.append(("heq", case, "a.equals(b)", ab, f"c16eq {ea} {eb}", expect))
        rows.append(("heq", case, "b.equals(a)", ba, f"c16eq {eb} {ea}", expect))
    ctx.case(("stated", name, sa, sb), nontrivial=True, tags=tags)


# ---------------------------------------------------------------- history batch (directed, fixed positions)

HIST_DIRS = {
    "rotz": [[0.6, -0.8, 0.0], [0.8, 0.6, 0.0], [0.0, 0.0, 1.0]],          # rotation about z
    "flat2d": [[1.0, 0.0, 0.0], [0.0, 1.0, 0.0], [0.0, 0.0, 0.0]],         # the common 2-d export `1 0 0 0 1 0 0 0 0`
    "rotx90": [[1.0, 0.0, 0.0], [0.0, 0.0, -1.0], [0.0, 1.0, 0.0]],        # quarter turn about x
}
HIST_EXTRA_DIRS = {
    "roty90": [[0.0, 0.0, 1.0], [0.0, 1.0, 0.0], [-1.0, 0.0, 0.0]],
    "rotz-28-96": [[0.28, -0.96, 0.0], [0.96, 0.28, 0.0], [0.0, 0.0, 1.0]],
    "swapxy": [[0.0, 1.0, 0.0], [1.0, 0.0, 0.0], [0.0, 0.0, 1.0]],
    "mirror-scale": [[-1.0, 0.0, 0.0], [0.0, 2.0, 0.0], [0.0, 0.0, 0.5]],
}
HIST_GRIDS = [      # dyadic numbers: every representation of these grids is exact
    {"ext": [2, 3, 0], "origin": [0.5, -1.0, 2.0], "spacing": [0.5, 0.25, 1.0]},
    {"ext": [1, 2, 2], "origin": [-1.0, 0.25, 4.0], "spacing": [1.0, 0.5, 0.25]},
    {"ext": [2, 0, 1], "origin": [0.0, 3.0, -2.0], "spacing": [0.25, 1.0, 2.0]},
    {"ext": [0, 0, 3], "origin": [1.0, 1.0, 1.0], "spacing": [1.0, 1.0, 0.5]},
]


def _hist_random_grid(rng):
    return {"ext": _ext(rng, maxc=3), "origin": [rng.randint(-32, 32) / 8 for _ in range(3)],
            "spacing": [rng.randint(1, 12) / 4 for _ in range(3)]}


def history_cases(rng, n_random):
    """directed pairs; every pair has a member with the DEFAULT basis (API without `basis=` or .vti without
    Direction) except the three controls per grid"""
    out = []
    grids = [copy.deepcopy(g) for g in HIST_GRIDS] + [_hist_random_grid(rng) for _ in range(n_random)]
    for gi, g in enumerate(grids):
        def img(basis=None, via=None, g=g):
            sp = {"k": "I", "ext": list(g["ext"]), "origin": list(g["origin"]), "spacing": list(g["spacing"]),
                  "basis": copy.deepcopy(basis)}
            if via:
                sp["via"] = via
            return sp

        def add(a, b, name, gi=gi):
            out.append({"a": a, "b": b, "name": f"g{gi}:{name}"})

        i_def, f_def = img(), img(via="vti")
        i_id, f_id = img(BASES["id"]), img(BASES["id"], via="vti")
        e_0 = {"k": "E", "lm": hist.oracle_lm(i_def)}
        rct = image_as_rect(i_def)
        st = {"k": "S", "ext": list(rct["ext"]), "dim": 3, "points": rect_points(rct)}
        add(i_def, i_id, "api-default~api-identity")
        add(f_def, i_id, "file-no-direction~api-identity")
        add(i_def, f_def, "api-default~file-no-direction")
        add(f_def, f_id, "file-no-direction~file-identity-direction")
        add(i_def, e_0, "api-default~explicit")
        add(f_def, e_0, "file-no-direction~explicit")
        add(i_def, rct, "api-default~rectilinear")
        add(f_def, st, "file-no-direction~structured")
        for dn, dm in HIST_DIRS.items():
            e_r = {"k": "E", "lm": hist.oracle_lm(img(dm))}
            add(i_def, img(dm), f"api-default~api-{dn}")
            add(img(dm, via="vti"), f_def, f"file-{dn}~file-no-direction")       # the oriented file is read first
            add(i_def, e_r, f"api-default~explicit-{dn}")
            add(f_def, e_r, f"file-no-direction~explicit-{dn}")
        dm = HIST_DIRS["rotz"]
        add(i_id, img(dm), "control:api-identity~api-rotz")
        add(img(dm), {"k": "E", "lm": hist.oracle_lm(img(dm))}, "control:api-rotz~explicit-rotz")
        add(img(dm, via="vti"), {"k": "E", "lm": hist.oracle_lm(img(dm))}, "control:file-rotz~explicit-rotz")
    return out


def history_disturbances(rng):
    """the fixed series of disturbing public operations (+ one drawn from the run's rng)"""
    xn, xm = rng.choice(sorted(HIST_EXTRA_DIRS.items()))
    xg = _hist_random_grid(rng)
    return [
        ("read-oriented-rotz", [
            {"op": "read-vti", "ext": [1, 1, 0], "origin": [0.0, 0.0, 0.0], "spacing": [1.0, 1.0, 1.0],
             "direction": HIST_DIRS["rotz"], "touch": ["points", "equals"]}]),
        ("explicit-bases-and-plain-files", [
            {"op": "image", "ext": [1, 2, 1], "origin": [0.0, 1.0, 2.0], "spacing": [1.0, 1.0, 1.0],
             "basis": BASES["diag"], "touch": ["points", "connectivity", "equals"]},
            {"op": "image", "ext": [2, 1, 0], "origin": [1.0, 0.0, 0.0], "spacing": [0.5, 0.5, 0.5],
             "basis": BASES["perm"], "touch": ["equals"]},
            {"op": "image", "ext": [2, 1, 0], "origin": [1.0, 0.0, 0.0], "spacing": [0.5, 0.5, 0.5],
             "basis": None, "touch": ["points", "equals"]},
            {"op": "read-vti", "ext": [1, 1, 1], "origin": [0.0, 0.0, 0.0], "spacing": [1.0, 2.0, 4.0],
             "direction": BASES["id"], "touch": ["points"]},
            {"op": "read-vti", "ext": [1, 1, 1], "origin": [0.0, 0.0, 0.0], "spacing": [1.0, 2.0, 4.0],
             "direction": None, "touch": ["points", "equals"]}]),
        ("read-oriented-flat2d", [
            {"op": "read-vti", "ext": [2, 2, 0], "origin": [0.0, 0.0, 0.0], "spacing": [1.0, 1.0, 0.0],
             "direction": HIST_DIRS["flat2d"], "touch": []}]),
        ("read-oriented-rotx90", [
            {"op": "read-vti", "ext": [1, 1, 2], "origin": [1.0, 2.0, 3.0], "spacing": [0.5, 0.5, 0.5],
             "direction": HIST_DIRS["rotx90"], "touch": ["points"]}]),
        ("read-oriented-" + xn, [
            {"op": "read-vti", "ext": xg["ext"], "origin": xg["origin"], "spacing": xg["spacing"],
             "direction": xm, "touch": ["points", "equals"]}]),
    ]


class HistoryBatch:
    """the directed list, the operations performed so far, and the evaluation of the list at one position"""

    def __init__(self, ctx, rows):
        self.ctx, self.rows = ctx, rows
        self.cases = history_cases(ctx.rng, ctx.scale(1, 6))
        self.disturbances = history_disturbances(ctx.rng)
        self.history = []           # operations performed so far (JSON-able, replayable)
        self.complete = True        # False once operations that are not listed in `history` were performed
        self.kept = []              # (case, A, B, mode) built before the disturbances
        self.found = 0              # violations reported by this batch so far

    # -- the property's verdict for one directed pair (independent oracle; None = not unambiguous: dropped)
    @staticmethod
    def expectation(sa, sb, A, B):
        ta, tb = c16io.tolerances(A), c16io.tolerances(B)
        mn = (min(ta[0], tb[0]), min(ta[1], tb[1]))
        mx = (max(ta[0], tb[0]), max(ta[1], tb[1]))
        la, lb = hist.oracle_lm(sa), hist.oracle_lm(sb)
        if la is None or lb is None:
            return None
        o_min = c16io.oracle_mesh_equal(la, lb, mn[1], mn[0])
        o_max = c16io.oracle_mesh_equal(la, lb, mx[1], mx[0])
        if o_min != o_max:
            return None
        if sa["k"] == sb["k"] and sa["k"] in "RSI" and params_within(sa, sb, mn[1], mn[0]) != o_min:
            return None     # parameters and generated points disagree (e.g. a rotation about the only meshed axis)
        return "T" if o_min else "F"

    @staticmethod
    def _reads_direction(spec):
        return spec.get("via") == "vti" and spec.get("basis") is not None

    @classmethod
    def tier(cls, hc):
        """2 = building the pair itself reads a .vti file that carries a Direction attribute (an operation that
        belongs to the recorded history of everything evaluated later); 1 = it does not"""
        return 2 if cls._reads_direction(hc["a"]) or cls._reads_direction(hc["b"]) else 1

    def build(self, spec):
        obj = c16io.build(spec)
        if self._reads_direction(spec):
            self.history.append({"op": "read-vti", "ext": list(spec["ext"]), "origin": list(spec["origin"]),
                                 "spacing": list(spec["spacing"]), "direction": copy.deepcopy(spec["basis"]), "touch": []})
        return obj

    def prepare(self):
        """position 0: expectations (tolerances taken from API-built objects with the basis given explicitly:
        the default tolerances depend on extents / origin / spacing resp. the explicit points only), and the
        objects kept for the built-before position; no file with a Direction attribute is read here"""
        def neutral(spec):
            if spec["k"] != "I":
                return spec
            sp = {k: v for k, v in spec.items() if k != "via"}
            sp["basis"] = copy.deepcopy(spec.get("basis") or BASES["id"])
            return sp
        ok = []
        for hc in self.cases:
            A, B = c16io.build(neutral(hc["a"])), c16io.build(neutral(hc["b"]))
            hc["expect"] = self.expectation(hc["a"], hc["b"], A, B)
            if hc["expect"] is None:
                self.ctx.dist["history-dropped-not-unambiguous"] += 1
                continue
            ok.append(hc)
        self.cases = ok
        # objects built now, evaluated after the disturbances: untouched ("lazy": points not generated yet) and
        # with their points already generated ("eager")
        for hc in self.cases:
            if hc["name"].startswith(("g0:", "g1:")) and self.tier(hc) == 1:
                if hc["a"].get("basis", 0) is None and "via" not in hc["a"]:
                    for mode in ("lazy", "eager"):
                        try:
                            A, B = c16io.build(hc["a"]), c16io.build(hc["b"])
                            if mode == "eager":
                                A.points, B.points  # noqa: B018
                        except Exception as e:  # noqa: BLE001 - constructing / reading is not this property's subject
                            self.ctx.notes.append(f"history batch: {hc['name']} could not be built: {type(e).__name__}")
                            continue
                        self.kept.append((hc, A, B, mode))

    def disturb(self, ops):
        for op in ops:
            err = hist.perform(op)
            self.history.append(copy.deepcopy(op))
            if err:
                self.ctx.notes.append(f"history batch: disturbing operation {op['op']} failed: {err}")

    def _judge(self, hc, A, B, phase, history, built=None, lean="full"):
        ctx = self.ctx
        ab, ba = c16io.run_equals(A, B), c16io.run_equals(B, A)
        case = {"a": hc["a"], "b": hc["b"], "pair": hc["name"], "expect": hc["expect"], "phase": phase,
                "history": history, "history_complete": self.complete}
        if built:
            case["built"] = built
        tags = ["history", "history-" + phase, "history-expect-" + hc["expect"], f"verdict-{ab}{ba}",
                "history-" + ("control" if "control:" in hc["name"] else "default-basis")]
        if built:
            tags.append("history-built-before-" + built)
        for v, order in ((ab, "a.equals(b)"), (ba, "b.equals(a)")):
            if v != hc["expect"]:
                ctx.violation(dict(case, order=order), v, hc["expect"], cls=None,
                              what=("equals raised an exception" if v.startswith("X:") else
                                    "verdict differs from the one the defining parameters demand (default basis = "
                                    "identity) after other meshes / files were processed in the same process"
                                    if history or not self.complete else
                                    "verdict differs from the one the defining parameters demand (default basis = identity)"))
                tags.append("history-violation")
                self.found += 1
        if lean and ctx.driver_ok:      # lean: "full" = verdict + generated representation, "eq" = verdict only
            ea, eb = c16io.enc_any(hc["a"], A), c16io.enc_any(hc["b"], B)
            self.rows.append(("heq", case, "a.equals(b)", ab, f"c16eq {ea} {eb}", hc["expect"]))
            self.rows.append(("heq", case, "b.equals(a)", ba, f"c16eq {eb} {ea}", hc["expect"]))
            for s_, obj, enc in ((hc["a"], A, ea), (hc["b"], B, eb)):
                if s_["k"] in "RSI" and lean == "full":
                    self.rows.append(("gen", dict(case, object=s_), "", f2u(obj.absolute_tolerance),
                                      f"c16gen {enc} {meshgen.enc_mesh(c16io.explicit_lm(obj))}", None))
        ctx.case(("history", phase, built, hc["name"], hc["a"], hc["b"]), nontrivial=True, tags=tags,
                 sample=None)

    def evaluate(self, phase, lean="full", tiers=(1,)):
        for hc in self.cases:
            if self.tier(hc) not in tiers:
                continue
            before = list(self.history)     # the pair's own files are part of the pair, not of its history
            try:
                A, B = self.build(hc["a"]), self.build(hc["b"])
            except Exception as e:  # noqa: BLE001
                self.ctx.notes.append(f"history batch ({phase}): {hc['name']} could not be built: {type(e).__name__}")
                continue
            self._judge(hc, A, B, phase, before, lean=lean)
        flush_lean(self.ctx, self.rows)
        del self.rows[:]

    def evaluate_kept(self):
        for hc, A, B, mode in self.kept:
            self._judge(hc, A, B, "built-before", list(self.history), built=mode, lean="eq")
        self.kept = []
        flush_lean(self.ctx, self.rows)
        del self.rows[:]


def replay_history(case):
    """fresh process: build (if the case says so), perform the recorded operations, evaluate"""
    sa, sb = case["a"], case["b"]
    objs = None
    if case.get("built"):
        objs = (c16io.build(sa), c16io.build(sb))
        if case["built"] == "eager":
            objs[0].points, objs[1].points  # noqa: B018
    for op in case.get("history", []):
        hist.perform(op)
    A, B = objs or (c16io.build(sa), c16io.build(sb))
    ab, ba = c16io.run_equals(A, B), c16io.run_equals(B, A)
    v = ab if case.get("order", "a.equals(b)") == "a.equals(b)" else ba
    if "stated_tol" in case:
        print(f"replay: tolerances set on both meshes (abs, rel) = {case['stated_tol']}; the objects report "
              f"{c16io.tolerances(A)} and {c16io.tolerances(B)}")
    print(f"replay: pair {case.get('pair')} after {len(case.get('history', []))} recorded operations"
          f"{'' if case.get('history_complete', True) else ' (the run had performed further, unrecorded ones)'}: "
          f"a.equals(b)={ab} b.equals(a)={ba}; property demands {case['expect']} in both orders")
    return v != case["expect"]


def run(ctx):
    ctx.rule = ("case = unordered pair of mesh objects (explicit / permuted view / image / rectilinear / structured; flat in "
                "any direction; hybrid type sets; second member = first with one modification: ordinate / point / origin / "
                "spacing / basis entry moved by 0..1000 x the tolerance, flat-direction constant, extents, compatible type "
                "renaming, one-sided type block, one rewired / permuted / added / removed cell, extra point, extra column), "
                "evaluated in both argument orders; non-trivial = the two specs differ; distinct = distinct spec pairs. "
                "Plus all ordered pairs of cell types for is_compatible_with. Plus the history batch: a directed list of "
                "pairs relying on the default basis (API without basis=, .vti without Direction) against identity / "
                "rotated / explicit / rectilinear / structured partners, evaluated at fixed positions (pristine process, "
                "after each disturbing read of an oriented .vti or explicit-basis operation, objects built before, after "
                "the random pairs); a (position, pair) counts as one distinct case. Plus (phase 6 G) directed batches: per grid all "
                "81 ordered pairs of 9 representations (explicit in grid / sorted order, view over explicit, image, rectilinear, "
                "structured, views over the three structured classes; two-column variants for grids in the plane z = 0) with the "
                "second member equal / shifted in a meshed or flat direction / one cell rewired / a block retyped / a point "
                "inserted first, middle, last, under 7 evaluation protocols; cell-type-set pairs (retyped block, interchangeable "
                "pair split inside one mesh, ragged polygons); explicit pairs over coordinate dtypes x connectivity dtypes x "
                "memory layouts; large lattices (> 1000, > 65536 points) differing at one position; non-finite coordinates "
                "(no exception, symmetric).")
    ctx.assumptions += [
        "numpy float64 arithmetic is IEEE round-to-nearest-even (point generation of ImageMesh modelled for bases with at "
        "most one non-zero entry per row; other bases only through the parameter short-cut and the implementation-side search)",
        "symmetry of the scalar fuzzy predicate (proved for C10) enters C16_symm as the named hypothesis FuzzySymm",
    ]
    rng = ctx.rng
    n = ctx.scale(700, 12000)
    check_compat_table(ctx)
    rows = []
    # history batch, positions 0..k: pristine process, then after each disturbing operation, then the objects that
    # were built before the disturbances
    hb = HistoryBatch(ctx, rows)
    hb.prepare()
    hb.evaluate("before")
    for i, (name, ops) in enumerate(hb.disturbances):
        hb.disturb(ops)
        # the Lean model is consulted at the first and the last position after a disturbance (and before / final);
        # the positions in between compare with the expectation fixed at position 0 only (run time)
        hb.evaluate("after-" + name, lean=("eq" if i in (0, len(hb.disturbances) - 1) else None))
    hb.evaluate_kept()
    # the pairs whose own members are .vti files with a Direction attribute: from here on the recorded history grows
    # with every such file
    hb.evaluate("own-oriented-files", lean="eq", tiers=(2,))
    ctx.extra["history_batch"] = {"directed_pairs": len(hb.cases), "positions": 5 + len(hb.disturbances),
                                  "disturbing_operations": [n for n, _ in hb.disturbances]}
    # directed: explicitly set tolerances with exact zeros on every representation
    for sa, sb, name in stated_tolerance_cases(rng):
        check_stated_tolerances(ctx, sa, sb, name, rows)
    flush_lean(ctx, rows)
    del rows[:]
    pairs = [directed_f7(rng), directed_f14(rng)] + directed_tolerance_band(rng)
    for i in range(n):
        pairs.append(gen_pair(rng, i))
    # if the directed list showed that verdicts depend on what the process did before, a failing random pair is
    # reproducible only together with the recorded operations: they become part of its reported case
    extra = {"history": list(hb.history), "history_complete": False} if hb.found else None
    for sa, sb, tags in pairs:
        check_pair(ctx, sa, sb, tags, rows, extra)
        if len(rows) >= 4000:
            flush_lean(ctx, rows)
            rows = []
    flush_lean(ctx, rows)
    del rows[:]
    # phase 6 package G: representation matrix x evaluation protocols, cell-type sets, storage types / layouts, large
    # lattices, non-finite coordinates
    run_p6g_batches(ctx, rows)
    # history batch, last position: after the random pairs of this run (hundreds of other meshes with explicit
    # bases, generated points, equality checks) — those operations are not listed in the recorded history
    hb.complete = False
    hb.evaluate("final", lean="eq", tiers=(1, 2))
    # unclassified first; among them the directed history pairs (self-contained with their recorded operations), shortest first
    ctx.spec_viol = sorted(ctx.spec_viol, key=lambda v: (v["class"] is not None, "expect" not in v["case"],
                                                         len(str(v["case"]))))[:200]


# ---------------------------------------------------------------- witnesses / replay

def replay_witness(ctx, entry):
    w = entry.get("witness", {})
    if isinstance(w, dict) and "fn" in w:
        return core.run_named_witness(entry)
    sa, sb = w["a"], w["b"]
    A, B = c16io.build(sa), c16io.build(sb)
    ab, ba = c16io.run_equals(A, B), c16io.run_equals(B, A)
    e = c16io.run_equals(c16io.explicit_copy(A), c16io.explicit_copy(B))
    fails = ab != ba or (ab == "T" and e != "T")
    return fails, f"a.equals(b)={ab} b.equals(a)={ba} explicit={e}"


def replay(ctx, payload):
    case = payload["case"]
    if "types" in case:
        from fieldcompare.mesh import CellType
        a, b = case["types"]
        i = CellType.from_name(a).is_compatible_with(CellType.from_name(b))
        print(f"replay: is_compatible_with({a},{b})={i} property={c16io.compat(a, b)}")
        bad = bool(i) != c16io.compat(a, b)
    elif case.get("p6g") == "large":
        bad = p6g.replay_large(case)
    elif case.get("p6g") == "nonfinite":
        sub = core.Ctx("C16", "quick", 0)
        check_nonfinite(sub, case["a"], case["b"], "replay")
        for v in sub.spec_viol:
            print(f"replay: {v['what']}: impl={v['impl']} property demands={v['spec']} class={v['class']}")
        bad = any(v["class"] is None for v in sub.spec_viol)
    elif "expect" in case:
        bad = replay_history(case)
    else:
        if case.get("strict_int_coords"):       # replay of the integer-coordinate observation as an ordinary pair (rule S1)
            globals()["INT_COORDS_STRICT"] = True
        for op in case.get("history", []):      # a random pair that failed in a process with a recorded history
            hist.perform(op)
        sub = core.Ctx("C16", "quick", 0)
        sub.driver_ok = False
        check_pair(sub, case["a"], case["b"], [], [], None, protocol=case.get("protocol"))
        for v in sub.spec_viol:
            print(f"replay: {v['what']}: impl={v['impl']} property demands={v['spec']} class={v['class']}")
        bad = bool(sub.spec_viol)
    if bad:
        print(f"VIOLATION property=C16 replay={payload.get('_path', '<replay>')}")
        return 1
    print("replay: no violation")
    return 0
