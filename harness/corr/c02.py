"""C02 — mesh comparison is invariant under point/cell reordering (no false FAIL); sorting is canonical.

Correspondence (implementation vs Lean model through the driver, inside the driver-evaluated hypothesis):
  * unit level: np.isclose / fuzzy_equal on one pair, walk_adjacent_true_index_ranges, the cell-centre
    arithmetic, CPython's tuple hash, get_fuzzy_lex_sorting_index_map (index map) on key matrices;
  * `sort(A)`: composed point index map, per-type cell index maps and sorted connectivity (observed through
    id-carrying fields, public accessors only);
  * `MeshFieldsComparator(src, ref, flags)()`: bool(domain_equality_check) + multiset of per-field statuses.
Search (implementation vs what the property demands):
  * relabelled pairs (both roles) must end with equal domains and every field passed — counted only when the
    driver says Sep / Distinguishable hold for both sides and jointly (noise);
  * noise-free: sort(A) and sort(relabel A) must be identical, point by point and cell by cell;
  * the fuzzy lexsort must return the order given by the cluster keys (spec computed by the driver);
  * CLI exit code 0 for a sample of relabelled pairs written with fieldcompare's own VTU writer.
Outside Sep nothing is reported (chains of nearly-equal coordinates are a documented limitation).
"""
from __future__ import annotations
import contextlib
import copy
import io
import itertools
import math
import os
import shutil
import tempfile

import numpy as np

from fcv import meshgen
from fcv import meshgen_p6g1m as mg6
from fcv.num import f2u, next_up, next_down

REL = 1e-8


# ---------------------------------------------------------------- implementation runners

def _quiet():
    return contextlib.redirect_stdout(io.StringIO())


def _with_ids(lm):
    lm = copy.deepcopy(lm)
    lm["pf"] = [{"name": "pid", "dt": "i64", "tail": [], "v": list(range(len(lm["points"])))}]
    lm["cf"] = [{"name": "cid", "ctype": t, "dt": "i64", "tail": [], "v": list(range(len(rows)))}
                for t, rows in lm["cells"]]
    return lm


def _show_maps(pmap, blocks):
    s = "P:" + ",".join(map(str, pmap))
    for t, cmap, rows in blocks:
        s += "|" + t + ":" + ",".join(map(str, cmap)) + "=" + ";".join(",".join(map(str, r)) for r in rows)
    return s


def canon_sort_obs(s):
    """'P:<pmap>|<type>:<cmap>=<rows>…' with the cells of every type as a SET of (orig cell id, renumbered row) pairs.
    The order in which sort_cells arranges the cells of one type is an internal choice (hash of the sorted corner tuple
    today; any key that is a function of that tuple gives a canonical order).  The property-level demand - sort(A) and
    sort(relabel A) are identical cell by cell - is checked separately against the implementation (sort_checks)."""
    if not s.startswith("P:"):
        return s
    parts = s.split("|")
    out = [parts[0]]
    for blk in parts[1:]:
        head, _, rows = blk.partition("=")
        t, _, cmap = head.partition(":")
        ids = cmap.split(",") if cmap else []
        rws = rows.split(";") if rows else []
        if len(ids) != len(rws) or sorted(ids, key=int) != [str(i) for i in range(len(ids))]:
            return s                                   # not a permutation: keep the raw string, it will mismatch
        out.append(t + ":" + ";".join(f"{i}>{r}" for i, r in sorted(zip(ids, rws), key=lambda p: int(p[0]))))
    return "|".join(out)


def impl_sort_maps(lm):
    """observable of sort(lm): 'P:<orig point ids in sorted order>|<type>:<orig cell ids>=<rows>…' or 'raise'"""
    from fieldcompare.mesh import sort
    try:
        out = meshgen.from_fc(sort(meshgen.to_fc(_with_ids(lm))))
    except ValueError:
        # the modelled refusal ("cannot uniquely sort duplicate points") is a ValueError; the message text is not
        # an observable (a reworded message must not alarm)
        return "raise"
    except Exception as e:   # noqa: BLE001  an implementation error is an observable, not an infrastructure problem
        return f"exception:{type(e).__name__}"
    pmap = [int(x) for x in out["pf"][0]["v"]]
    cid = {f["ctype"]: [int(x) for x in f["v"]] for f in out["cf"]}
    return _show_maps(pmap, [(t, cid[t], rows) for t, rows in out["cells"]])


def _canon_lm(lm):
    """sorted representation as comparable data (type blocks keyed by type: their order is not content)"""
    return {"points": [[f2u(c) for c in p] for p in lm["points"]],
            "cells": sorted([t, rows] for t, rows in lm["cells"]),
            "pf": sorted([f["name"], f["dt"], f["tail"], [meshgen._canon(f["dt"], x) for x in f["v"]]] for f in lm["pf"]),
            "cf": sorted([f["name"], f["ctype"], f["dt"], f["tail"], [meshgen._canon(f["dt"], x) for x in f["v"]]]
                         for f in lm["cf"])}


def impl_sorted(lm):
    from fieldcompare.mesh import sort
    try:
        return _canon_lm(meshgen.from_fc(sort(meshgen.to_fc(lm))))
    except ValueError:
        # the modelled refusal ("cannot uniquely sort duplicate points") is a ValueError; the message text is not
        # an observable (a reworded message must not alarm)
        return "raise"
    except Exception as e:   # noqa: BLE001
        return f"exception:{type(e).__name__}"


def _field_keys(lm):
    from fieldcompare.mesh._mesh_fields import make_cell_type_field_name
    keys = {f["name"]: f"{f['name']}/" for f in lm["pf"]}
    for f in lm["cf"]:
        keys[make_cell_type_field_name(meshgen.celltype(f["ctype"]), f["name"])] = f"{f['name']}/{f['ctype']}"
    return keys


def impl_compare(src, ref, flags=(False, False, False)):
    """-> canonical observable '<domainEq>:<sorted statuses>' (or 'raised'), number of retries"""
    from fieldcompare.mesh import MeshFieldsComparator
    keys = dict(_field_keys(ref))
    keys.update(_field_keys(src))
    msgs = []
    try:
        with _quiet():
            suite = MeshFieldsComparator(meshgen.to_fc(src), meshgen.to_fc(ref),
                                         disable_mesh_reordering=flags[0], disable_orphan_point_removal=flags[1],
                                         disable_space_dimension_matching=flags[2])(
                fieldcomp_callback=lambda _: None, reordering_callback=msgs.append)
    except ValueError:
        return "raised", len(msgs)
    except Exception as e:   # noqa: BLE001  an implementation error is an observable, not an infrastructure problem
        return f"exception:{type(e).__name__}", len(msgs)
    dom = bool(suite.domain_equality_check)
    st = sorted(f"{keys.get(c.name, c.name + '/?')}~{c.status.name}" for c in suite)
    return f"{int(dom)}:{','.join(st)}", len([m for m in msgs if "Retrying" in m])


def canon_model_outcome(s):
    """'<rung>:<D>:a~x,b~y' -> '<D>:<sorted>'"""
    if s == "raised":
        return s
    _, d, st = s.split(":", 2)
    return f"{d}:{','.join(sorted(x for x in st.split(',') if x))}"


def passes(obs):
    if obs == "raised" or obs.startswith("exception:"):
        return False
    d, st = obs.split(":", 1)
    return d == "1" and all(x.endswith("~passed") for x in st.split(",") if x)


def impl_cli_exit(src, ref, tmpdir, tag):
    from fieldcompare._cli import main
    from fieldcompare._cli._logger import CLILogger
    from fieldcompare.io import write
    a = write(meshgen.to_fc(src), os.path.join(tmpdir, f"{tag}_src"))
    b = write(meshgen.to_fc(ref), os.path.join(tmpdir, f"{tag}_ref"))
    with _quiet(), contextlib.redirect_stderr(io.StringIO()):
        try:
            return int(main(["file", a, b], logger=CLILogger(verbosity_level=0, output_stream=io.StringIO())))
        except Exception as e:   # noqa: BLE001
            return f"exception:{type(e).__name__}"


# ---------------------------------------------------------------- generators

def perm_of_kind(rng, n, kind):
    p = list(range(n))
    if kind == "identity":
        return p
    if kind == "reversal":
        return p[::-1]
    if kind == "blockswap":
        if n < 2:
            return p
        k = rng.randint(1, n - 1)
        return p[k:] + p[:k]
    if kind == "transposition":
        if n >= 2:
            i, j = rng.sample(range(n), 2)
            p[i], p[j] = p[j], p[i]
        return p
    rng.shuffle(p)
    return p


def gen_base(rng, big=False):
    """a logical mesh from the shared generator, with the families C02 cares about forced in regularly"""
    r = rng.random()
    if r < 0.22:
        # F1 family: 2-d lattice (>= 6x6 points possible) lying in a coordinate plane of 3-d space
        lm, tags = meshgen.gen_mesh(rng, max_cells_per_dir=rng.choice([5, 6, 8] if not big else [8, 12]), dims=(3,),
                                    types=rng.choice(["quad", "tri", "pixel"]), allow_duplicates=rng.random() < 0.15,
                                    dtypes=("f64", "f32", "i32", "i64"))
        # force topo 2 by regenerating when the generator chose another topology
        for _ in range(6):
            if tags["topo"] == 2:
                break
            lm, tags = meshgen.gen_mesh(rng, max_cells_per_dir=rng.choice([5, 6, 8]), dims=(3,),
                                        types=None, allow_duplicates=False, dtypes=("f64", "f32", "i32", "i64"))
        tags["family"] = "plane-in-3d" if tags["topo"] == 2 else "generic"
    elif r < 0.34:
        # fully / partly discontinuous meshes (coincident duplicate points), kept small: the code's
        # point->cells map is quadratic
        lm, tags = meshgen.gen_mesh(rng, max_cells_per_dir=3, dims=(2, 3), allow_orphans=rng.random() < 0.3,
                                    dtypes=("f64", "f32", "i32", "i64"))
        if "duplicates" not in tags:
            _duplicate(rng, lm, tags)
        tags["family"] = "discontinuous"
        if rng.random() < 0.5:
            # georeferenced coordinates (UTM-like: offsets 5e5 / 5.4e6, cell size ~10): absolute and relative mesh
            # tolerance differ by orders of magnitude there, and max|x|^2 * 1e-8 exceeds the cell size — the regime
            # in which mixing up the two tolerances in the duplicate tie-break changes the order
            lm, tags = meshgen.gen_mesh(rng, max_cells_per_dir=3, dims=(2, 3), allow_orphans=False, scale=10.0,
                                        dtypes=("f64", "f32", "i32", "i64"))
            if "duplicates" not in tags:
                _duplicate(rng, lm, tags)
            shift = [5.0e5, 5.4e6, 250.0]
            lm["points"] = [[c + shift[k] for k, c in enumerate(p)] for p in lm["points"]]
            tags["family"] = "discontinuous-georef"
    elif r < 0.42:
        # small sizes around numpy's insertion-sort threshold (16/17 elements)
        lm, tags = meshgen.gen_mesh(rng, max_cells_per_dir=rng.choice([15, 16, 17, 18]), dims=(1, 2, 3), types="line",
                                    dtypes=("f64", "i64"))
        for _ in range(8):
            if tags["topo"] == 1:
                break
            lm, tags = meshgen.gen_mesh(rng, max_cells_per_dir=rng.choice([15, 16, 17, 18]), dims=(1,), types="line",
                                        dtypes=("f64", "i64"))
        tags["family"] = "threshold-16-17"
    else:
        lm, tags = meshgen.gen_mesh(rng, max_cells_per_dir=5 if big else 4, dtypes=("f64", "f64", "f32", "i32", "i64"))
        tags["family"] = "generic"
    return lm, tags


def _duplicate(rng, lm, tags):
    frac = rng.choice([0.3, 1.0])
    seen = set()
    for _, rows in lm["cells"]:
        for r in rows:
            for q, p in enumerate(r):
                if p in seen and rng.random() < frac:
                    lm["points"].append(list(lm["points"][p]))
                    for f in lm["pf"]:
                        rs = meshgen._rowsize(f["tail"])
                        mx = max(f["v"]) if f["v"] else 0
                        f["v"] = f["v"] + [type(mx)(mx + 1 + i) if f["dt"][0] != "f" else float(np.float32(mx + 1 + i))
                                           for i in range(rs)]
                    r[q] = len(lm["points"]) - 1
                seen.add(p)
    tags["duplicates"] = frac


def gen_pair(rng, big=False):
    """(A, B, tags): B a relabelling of A (noise far below the tolerance, extra orphans on either side)"""
    A, tags = gen_base(rng, big)
    kind = rng.choice(["identity", "reversal", "random", "random", "random", "blockswap", "transposition"])
    noise = rng.choice([0.0, 0.0, 0.0, 1e-13, 1e-11, 1e-10])
    if tags["family"] == "discontinuous-georef":
        noise = rng.choice([0.0, 1e-11, 1e-11, 1e-12])
    eo_b = rng.choice([0, 0, 0, 1, 2])
    B = meshgen.relabel(rng, A, noise_rel=noise, extra_orphans=eo_b,
                        shuffle_blocks=rng.random() < 0.7, point_perm=perm_of_kind(rng, len(A["points"]), kind))
    eo_a = rng.choice([0, 0, 0, 1])
    if eo_a:
        A = meshgen.relabel(rng, A, noise_rel=0.0, extra_orphans=eo_a, shuffle_blocks=False,
                            point_perm=list(range(len(A["points"]))))
        # relabel() shuffles the cells inside each type: still the same data set
    t = [f"family={tags['family']}", f"dim={tags['dim']}", f"topo={tags['topo']}", f"style={tags['style']}",
         f"relabel={kind}", f"noise={noise}", f"scale={tags['scale']}", f"jitter={tags['jitter']}",
         "dup" if "duplicates" in tags else "nodup", "orphans" if (tags.get("orphans") or eo_a or eo_b) else "noorphans",
         "n>16" if len(A["points"]) > 16 else "n<=16"]
    return A, B, t, noise


def mutate(rng, B):
    """single-site change beyond the tolerance: the pair is no relabelling any more (negative control for the
    correspondence of the ladder model; the *property* C02 says nothing about such pairs)"""
    B = copy.deepcopy(B)
    kinds = ["move"]
    if any(f["v"] for f in B["pf"] + B["cf"]):
        kinds.append("value")
    if any(len(rows) > 1 for _, rows in B["cells"]):
        kinds.append("dropcell")
    k = rng.choice(kinds)
    if k == "move":
        i = rng.randrange(len(B["points"]))
        j = rng.randrange(B["dim"])
        maxc = max([abs(c) for p in B["points"] for c in p] + [1e-300])
        B["points"][i][j] += maxc * rng.choice([1e-5, 1e-3, 0.37])
    elif k == "value":
        f = rng.choice([f for f in B["pf"] + B["cf"] if f["v"]])
        i = rng.randrange(len(f["v"]))
        f["v"][i] = f["v"][i] + (7 if f["dt"][0] in "iu" else 3.5)
    else:
        t, rows = rng.choice([b for b in B["cells"] if len(b[1]) > 1])
        c = rng.randrange(len(rows))
        del rows[c]
        for f in B["cf"]:
            if f["ctype"] == t:
                rs = meshgen._rowsize(f["tail"])
                del f["v"][c * rs:(c + 1) * rs]
    return B, "mutated-" + k


# ---------------------------------------------------------------- unit-level correspondence

def unit_checks(ctx):
    from fieldcompare import _numpy_utils as nu
    rng = ctx.rng
    # (a) isclose / fuzzy_equal on pairs placed on the threshold
    cases, lines = [], []
    for _ in range(ctx.scale(1500, 20000)):
        sc = 10.0 ** rng.randint(-8, 8)
        b = rng.uniform(-2, 2) * sc
        maxc = max(abs(b), abs(rng.uniform(-2, 2) * sc))
        atol = maxc * REL
        thr = atol + REL * abs(b) if rng.random() < 0.5 else max(REL * abs(b), atol)
        a = b + rng.choice([-1, 1]) * thr * rng.choice([1.0, 1.0, 0.5, 2.0, 1e-3])
        k = rng.choice([0, 0, 1, 2, 3])
        a = next_up(a, k) if rng.random() < 0.5 else next_down(a, k)
        if rng.random() < 0.5:
            a, b = b, a
        cases.append((atol, a, b))
        lines.append(f"c02close {f2u(atol)} {f2u(REL)} {f2u(a)} {f2u(b)}")
    for (atol, a, b), rep in zip(cases, _lean(ctx, lines)):
        ic = bool(np.isclose(np.array([a]), np.array([b]), atol=atol, rtol=REL)[0])
        fz = bool(nu.fuzzy_equal(np.array([a]), np.array([b]), rel_tol=REL, abs_tol=atol)[0])
        impl = f"{int(ic)}{int(fz)}"
        ctx.case(("close", atol, a, b), nontrivial=True, tags=["unit-close", "close=" + impl])
        if rep is not None and rep.get("model") != impl:
            ctx.mismatch({"kind": "close", "atol": atol, "rtol": REL, "a": a, "b": b}, impl, rep.get("model"),
                         what="np.isclose / fuzzy_equal vs Fc.isclose / Fc.MeshTol.closeFz")
    # (b) walk_adjacent_true_index_ranges
    cases, lines = [], []
    for _ in range(ctx.scale(300, 5000)):
        n = rng.choice([0, 1, 2, 3, 5, 8, 17, 30])
        p = rng.choice([0.2, 0.5, 0.8])
        bs = [rng.random() < p for _ in range(n)]
        if n and rng.random() < 0.7:
            bs[-1] = False
        cases.append(bs)
        lines.append(f"c02runs {n} " + " ".join("1" if x else "0" for x in bs))
    for bs, rep in zip(cases, _lean(ctx, lines)):
        impl = ";".join(f"{s},{e}" for s, e in nu.walk_adjacent_true_index_ranges(np.array(bs, dtype=bool)))
        ctx.case(("runs", tuple(bs)), nontrivial=any(bs), tags=["unit-runs"])
        if rep is not None and rep.get("model", "") != impl:
            ctx.mismatch({"kind": "runs", "mask": bs}, impl, rep.get("model"), what="walk_adjacent_true_index_ranges")
    # (c) cell centres
    cases, lines = [], []
    for _ in range(ctx.scale(300, 8000)):
        dim = rng.choice([1, 2, 3])
        # (a (k, 1) array is reduced with numpy's unrolled pairwise loop for k >= 8; 1-d meshes only have
        # 2-corner cells, the model excludes 1-d with >= 8 corners from hyp)
        k = rng.choice([2, 3, 4, 4, 5, 8]) if dim > 1 else rng.choice([2, 2, 3, 4, 7])
        sc = 10.0 ** rng.randint(-6, 6)
        rows = [[rng.uniform(-3, 3) * sc + rng.choice([0.0, 1e3 * sc]) for _ in range(dim)] for _ in range(k)]
        cases.append(rows)
        lines.append(f"c02centre {k} {dim} " + " ".join(str(f2u(c)) for r in rows for c in r))
    for rows, rep in zip(cases, _lean(ctx, lines)):
        pts = np.array(rows)
        c = nu.accumulate(pts[list(range(len(rows)))], axis=0) / len(rows)
        impl = ",".join(str(f2u(float(x))) for x in c)
        ctx.case(("centre", tuple(map(tuple, rows))), nontrivial=True, tags=["unit-centre", f"corners={len(rows)}"])
        if rep is not None and rep.get("model") != impl:
            ctx.mismatch({"kind": "centre", "rows": rows}, impl, rep.get("model"), what="cell centre arithmetic")
    # (d) tuple hash
    cases, lines = [], []
    for _ in range(ctx.scale(300, 5000)):
        k = rng.choice([1, 2, 3, 4, 8])
        t = sorted(rng.randrange(rng.choice([10, 1000, 10 ** 6])) for _ in range(k))
        cases.append(t)
        lines.append(f"c02hash {k} " + " ".join(map(str, t)))
    for t, rep in zip(cases, _lean(ctx, lines)):
        impl = str(hash(tuple(np.array(t, dtype=np.int64))))
        ctx.case(("hash", tuple(t)), nontrivial=True, tags=["unit-hash"])
        if rep is not None and rep.get("model") != impl:
            ctx.mismatch({"kind": "hash", "tuple": t}, impl, rep.get("model"), what="CPython tuple hash")


def _lean(ctx, lines):
    """pipe the lines through the driver; big batches are split over a few driver processes"""
    if not ctx.driver_ok:
        return [None] * len(lines)
    jobs = max(1, min(int(os.environ.get("FCV_JOBS", "12" if ctx.tier == "thorough" else "6")), (os.cpu_count() or 1)))
    if jobs == 1 or len(lines) < 24:
        reps = ctx.lean(lines)
    else:
        from concurrent.futures import ThreadPoolExecutor
        from fcv import leanproc
        n = (len(lines) + 4 * jobs - 1) // (4 * jobs)
        chunks = [lines[i:i + n] for i in range(0, len(lines), n)]
        with ThreadPoolExecutor(max_workers=jobs) as ex:
            outs = list(ex.map(leanproc.run_lines, chunks))
        reps = [leanproc.parse_reply(r) for out in outs for r in out]
    for ln, r in zip(lines, reps):
        if "raw" in r:
            ctx.inconsistent({"line": ln[:300]}, str(r), "driver answered bad-op")
    return reps


# ---------------------------------------------------------------- fuzzy lexsort alone

def gen_lex_case(rng):
    ncols = rng.choice([1, 2, 3, 3, 3, 4])
    n = rng.choice([1, 2, 3, 5, 8, 12, 16, 17, 18, 25, 40, 64])
    sc = 10.0 ** rng.randint(-6, 6)
    off = rng.choice([0.0, 0.0, sc, -3 * sc, 100 * sc])
    widths = [rng.choice([1, 2, 3, 6]) for _ in range(ncols)]
    total = 1
    for w in widths:
        total *= w
    if total < n:
        widths = [max(w, int(math.ceil(n ** (1.0 / ncols))) + 1) for w in widths]
    keys = set()
    while len(keys) < n:
        keys.add(tuple(rng.randrange(w) for w in widths))
    keys = list(keys)
    rng.shuffle(keys)
    if rng.random() < 0.1 and n > 2:
        keys[0] = keys[1]                       # a genuine tie: outside hyp (order not determined)
    maxabs = abs(off) + sc * max(max(widths), 1)
    noise = rng.choice([0.0, 0.0, 1e-12, 1e-10, 1e-9]) * maxabs
    rows = [[off + sc * k + (rng.uniform(-1, 1) * noise if noise else 0.0) for k in key] for key in keys]
    maxc = max(abs(c) for r in rows for c in r)
    return {"kind": "lex", "rows": rows, "atol": maxc * REL, "rtol": REL}, \
        [f"lex-ncols={ncols}", "lex-n>16" if n > 16 else "lex-n<=16", f"lex-noise={noise != 0.0}"]


def lex_checks(ctx):
    from fieldcompare import _numpy_utils as nu
    rng = ctx.rng
    cases, tagsl, lines = [], [], []
    for _ in range(ctx.scale(700, 8000)):
        c, t = gen_lex_case(rng)
        cases.append(c)
        tagsl.append(t)
        rows = c["rows"]
        lines.append(f"c02lex {f2u(c['atol'])} {f2u(c['rtol'])} {len(rows[0])} {len(rows)} " +
                     " ".join(str(f2u(x)) for r in rows for x in r))
    for c, t, rep in zip(cases, tagsl, _lean(ctx, lines)):
        arr = np.array(c["rows"], dtype=float)
        impl = ",".join(str(int(i)) for i in nu.get_fuzzy_lex_sorting_index_map(arr, abs_tol=c["atol"], rel_tol=c["rtol"]))
        hyp = rep is not None and rep.get("hyp") == "1"
        ctx.case(("lex", c["atol"], tuple(map(tuple, c["rows"]))), nontrivial=len(c["rows"]) > 1 and hyp,
                 tags=t + ["lex-hyp" if hyp else "lex-nohyp"])
        if not hyp:
            continue
        if rep["model"] != impl:
            ctx.mismatch(c, impl, rep["model"], what="get_fuzzy_lex_sorting_index_map vs Fc.fuzzyLexSortIdx")
        if rep.get("tie") != "1" or rep["spec"] != rep["model"]:
            ctx.inconsistent(c, rep["model"], f"spec={rep['spec']} tie={rep.get('tie')}")
        if rep["spec"] != impl:
            ctx.violation(c, impl, rep["spec"], what="fuzzy lexsort does not return the order of the cluster keys")


# ---------------------------------------------------------------- sort(A): model vs impl, canonicity

def sort_checks(ctx, pairs):
    lines = []
    for A, B, _, _ in pairs:
        lines.append("c02sort " + meshgen.enc_mesh(A))
        lines.append("c02sort " + meshgen.enc_mesh(B))
    reps = _lean(ctx, lines)
    for i, (A, B, tags, noise) in enumerate(pairs):
        ra, rb = reps[2 * i], reps[2 * i + 1]
        for lm, rep in ((A, ra), (B, rb)):
            if rep is None or rep.get("hyp") != "1":
                continue
            impl = impl_sort_maps(lm)
            if canon_sort_obs(rep["model"]) != canon_sort_obs(impl):
                ctx.mismatch({"kind": "sort", "mesh": meshgen_strip(lm)}, impl, rep["model"], what="sort(): index maps / connectivity")
            if rep.get("tie") != "1" or rep["spec"] != rep["model"]:
                ctx.inconsistent({"kind": "sort", "mesh": meshgen_strip(lm)}, rep["model"], f"spec={rep['spec']} tie={rep.get('tie')}")
        hyp = ctx.driver_ok and ra.get("hyp") == "1" and rb.get("hyp") == "1"
        sep_tag = "sort-hyp" if hyp else "sort-nohyp"
        dup = ctx.driver_ok and ra.get("dup", "0") != "0"
        ctx.case(("sort", _key(A), _key(B)), nontrivial=hyp, tags=[sep_tag] + (["sort-dup-tiebreak"] if dup and hyp else []),
                 sample={"case": {"kind": "canon", "a": A, "b": B}, "lean": ra} if i < 2 else None)
        if noise == 0.0 and (hyp or not ctx.driver_ok):
            sa, sb = impl_sorted(A), impl_sorted(B)
            if (sa != sb or isinstance(sa, str)) and ctx.driver_ok:
                ctx.violation({"kind": "canon", "a": A, "b": B}, _diff(sa, sb), "identical sorted representations",
                              what="sort(A) and sort(relabel A) differ (noise-free, Sep holds)")


def meshgen_strip(lm):
    return {"dim": lm["dim"], "points": lm["points"], "cells": lm["cells"], "pf": [], "cf": []}


def _key(lm):
    return (lm["dim"], tuple(map(tuple, lm["points"])), repr(lm["cells"]))


def _diff(sa, sb):
    if isinstance(sa, str) or isinstance(sb, str):
        return {"a": sa if isinstance(sa, str) else "ok", "b": sb if isinstance(sb, str) else "ok"}
    return {k: "differs" for k in sa if sa[k] != sb[k]}


# ---------------------------------------------------------------- Spec.relabelF / BaseHyp: the phase-2 theorems, executed

def py_relabel(lm, rho, kappa):
    """independent re-implementation of `Spec.relabelF rho kappa`: points in the order rho (new -> old), corners
    renamed through the inverse map, cells of block k in the order kappa[k], field rows moved along; no noise, no
    extra orphans, blocks in place"""
    inv = {old: new for new, old in enumerate(rho)}
    out = {"dim": lm["dim"], "points": [list(lm["points"][o]) for o in rho], "cells": [], "pf": [], "cf": []}
    for f in lm["pf"]:
        rs = meshgen._rowsize(f["tail"])
        out["pf"].append(dict(f, v=[x for o in rho for x in f["v"][o * rs:(o + 1) * rs]]))
    cp = {}
    for (t, rows), k in zip(lm["cells"], kappa):
        cp[t] = k
        out["cells"].append([t, [[inv[i] for i in rows[c]] for c in k]])
    for f in lm["cf"]:
        rs = meshgen._rowsize(f["tail"])
        out["cf"].append(dict(f, v=[x for c in cp[f["ctype"]] for x in f["v"][c * rs:(c + 1) * rs]]))
    return out


def _enc_list(l):
    return " ".join([str(len(l))] + [str(x) for x in l])


def relabel_checks(ctx, pairs):
    """for base data sets A: B = py_relabel(A, rho, kappa); the driver evaluates `Spec.relabelF` (must equal B), the
    decidable hypothesis `Spec.baseHyp` of the phase-2 theorems and their conclusions; the implementation must agree
    with the conclusions whenever the hypothesis holds"""
    rng = ctx.rng
    jobs = []
    for A, _, tags, _ in pairs:
        if len({t for t, _ in A["cells"]}) != len(A["cells"]):
            continue
        kind = rng.choice(["identity", "reversal", "random", "random", "blockswap", "transposition"])
        rho = perm_of_kind(rng, len(A["points"]), kind)
        kappa = [perm_of_kind(rng, len(rows), rng.choice(["identity", "random", "random", "reversal"])) for _, rows in A["cells"]]
        B = py_relabel(A, rho, kappa)
        line = ("c02relabel " + meshgen.enc_fields(A) + " " + _enc_list(rho) + " " + str(len(kappa)) + " " +
                " ".join(_enc_list(k) for k in kappa) + " " + meshgen.enc_fields(B))
        jobs.append((A, B, rho, kappa, [t for t in tags if not t.startswith(("relabel=", "noise="))] + [f"relabelF={kind}"], line))
    reps = _lean(ctx, [j[-1] for j in jobs])
    for (A, B, rho, kappa, tags, _), rep in zip(jobs, reps):
        case = {"kind": "relabelF", "a": A, "b": B, "rho": rho, "kappa": kappa}
        if rep is None:
            continue
        hyp = rep.get("hyp") == "1"
        rigid = rep.get("rigid") == "1"
        cont = rep.get("cont") == "1"
        # phase 4: `spt` = Spec.pointHyp of the mesh AS STORED (orphan points included), `stored` = Resid.storedHyp
        # (spt + centre slack).  `Spec.baseHyp` inspects the stripped mesh only; two coincident ORPHAN points with
        # different values make the comparator report a false FAIL (documented limitation, PHASE3 witness `orphA`),
        # so the implication "hypothesis => the implementation passes" needs `spt` as well.
        spt = rep.get("spt") == "1"
        stored = rep.get("stored") == "1"
        ctx.case(("relabelF", _key(A), tuple(rho), repr(kappa)), nontrivial=hyp and spt,
                 tags=tags + ["base-hyp" if hyp else "base-nohyp", "rigid" if rigid else "not-rigid",
                              "continuous-hyp" if cont else "coincident-or-nosep",
                              "stored-hyp" if stored else ("stored-sep-only" if spt else "stored-nohyp")])
        if rep.get("model") != "1":
            ctx.inconsistent(case, rep.get("model"), "Spec.relabelF differs from the harness's independent relabelling")
        if not hyp:
            continue
        if rep.get("canon") != "1":
            ctx.inconsistent(case, f"canon={rep.get('canon')}", "theorem C02_sort_canonical: sort(relabel A) = sort(A)")
        if rigid and rep.get("pass") != "1":
            ctx.inconsistent(case, f"pass={rep.get('pass')}", "theorem C02_no_false_fail_noise_free_partial: ladder passes in both roles")
        if cont and (not rigid or rep.get("pass") != "1"):
            ctx.inconsistent(case, f"rigid={rep.get('rigid')} pass={rep.get('pass')}",
                             "theorems C02_rigid_without_coincident_points / C02_no_false_fail_continuous")
        if stored and (not rigid or rep.get("pass") != "1"):
            ctx.inconsistent(case, f"rigid={rep.get('rigid')} pass={rep.get('pass')}",
                             "theorems C02_rigid_distinguishable / C02_no_false_fail_distinguishable (baseHyp ∧ storedHyp)")
        sa, sb = impl_sorted(A), impl_sorted(B)
        if sa != sb or isinstance(sa, str):
            ctx.violation({"kind": "canon", "a": A, "b": B}, _diff(sa, sb), "identical sorted representations",
                          what="sort(A) and sort(relabel A) differ although BaseHyp holds")
        for src, ref in ((B, A), (A, B)):
            impl, _ = impl_compare(src, ref)
            if not passes(impl):
                if not spt:
                    # coincident points of the mesh as stored that the stripped mesh does not show (coincident orphan
                    # points): outside Sep/Distinguishable of the stored mesh -- documented limitation, counted only
                    ctx.extra["relabelF_stored_nohyp_fail"] = ctx.extra.get("relabelF_stored_nohyp_fail", 0) + 1
                    continue
                ctx.violation(_shrink_ladder({"kind": "ladder", "src": src, "ref": ref, "flags": [False, False, False]}), impl,
                              "1:<every field passed>", what="relabelled pair inside BaseHyp (+ pointHyp of the stored mesh) does not compare as passed")


# ---------------------------------------------------------------- noisy relabelled pairs: the phase-4 theorem, executed

def noisy_checks(ctx, pairs):
    """for base data sets A: N = A with every coordinate moved by noise far below the mesh tolerance (same
    connectivity, same field arrays), B = py_relabel(N, rho, kappa).  The driver evaluates `Resid2.noisyFullHyp`
    (joint Sep of both coordinate sets, BaseHyp of both with joint margins, storedHyp of A) and the ladder on
    `Spec.relabelF rho kappa (withPoints A N.points)` in both roles; inside the hypothesis the model must pass
    (theorem C02_no_false_fail_noisy_decidable) and so must the implementation"""
    rng = ctx.rng
    jobs = []
    for A, _, tags, _ in pairs:
        if len({t for t, _ in A["cells"]}) != len(A["cells"]):
            continue
        maxc = max([abs(c) for p in A["points"] for c in p] + [0.0])
        if maxc == 0.0:
            continue
        noise = rng.choice([1e-13, 1e-11, 1e-10, 1e-10, 1e-9])
        N = copy.deepcopy(A)
        N["points"] = [[c + rng.uniform(-1, 1) * noise * maxc for c in p] for p in A["points"]]
        kind = rng.choice(["identity", "reversal", "random", "random", "transposition"])
        rho = perm_of_kind(rng, len(A["points"]), kind)
        kappa = [perm_of_kind(rng, len(rows), rng.choice(["identity", "random", "reversal"])) for _, rows in A["cells"]]
        B = py_relabel(N, rho, kappa)
        line = ("c02noisy " + meshgen.enc_fields(A) + " " + meshgen.enc_fields(N) + " " + _enc_list(rho) + " " +
                str(len(kappa)) + " " + " ".join(_enc_list(k) for k in kappa) + " " + meshgen.enc_fields(B))
        jobs.append((A, N, B, rho, kappa,
                     [t for t in tags if not t.startswith(("relabel=", "noise="))] + [f"noisyF={kind}", f"noisyF-noise={noise}"], line))
    reps = _lean(ctx, [j[-1] for j in jobs])
    for (A, N, B, rho, kappa, tags, _), rep in zip(jobs, reps):
        case = {"kind": "noisyF", "a": A, "n": N, "b": B, "rho": rho, "kappa": kappa}
        if rep is None:
            continue
        hyp = rep.get("hyp") == "1"
        ctx.case(("noisyF", _key(A), _key(N), tuple(rho), repr(kappa)), nontrivial=hyp,
                 tags=tags + ["noisy-hyp" if hyp else "noisy-nohyp"])
        if rep.get("model") != "1" or rep.get("same") != "1":
            ctx.inconsistent(case, f"model={rep.get('model')} same={rep.get('same')}",
                             "Spec.relabelF (withPoints A N.points) differs from the harness's noisy relabelling")
        if not hyp:
            continue
        if rep.get("pass") != "1":
            ctx.inconsistent(case, f"pass={rep.get('pass')}",
                             "theorem C02_no_false_fail_noisy_decidable: ladder passes on the noisy relabelled pair, both roles")
        for src, ref in ((B, A), (A, B)):
            impl, _ = impl_compare(src, ref)
            if not passes(impl):
                ctx.violation(_shrink_ladder({"kind": "ladder", "src": src, "ref": ref, "flags": [False, False, False]}), impl,
                              "1:<every field passed>", what="noisy relabelled pair inside noisyFullHyp does not compare as passed")


# ---------------------------------------------------------------- the comparator ladder

def ladder_line(src, ref, flags):
    return "c02ladder " + " ".join("1" if f else "0" for f in flags) + " " + meshgen.enc_fields(src) + " " + meshgen.enc_fields(ref)


def ladder_checks(ctx, pairs, cli_budget):
    rng = ctx.rng
    jobs = []
    for A, B, tags, noise in pairs:
        for role in ("B-vs-A", "A-vs-B"):
            src, ref = (B, A) if role == "B-vs-A" else (A, B)
            jobs.append((src, ref, (False, False, False), tags + [role], True))
        r = rng.random()
        if r < 0.25:      # negative control: not a relabelling
            Bm, mtag = mutate(rng, B)
            jobs.append((Bm, A, (False, False, False), tags + [mtag], False))
        elif r < 0.40:    # other configurations of the ladder (the property speaks about the default one)
            fl = rng.choice([(True, False, False), (False, True, False), (True, True, False)])
            jobs.append((B, A, fl, tags + ["flags=" + "".join("1" if f else "0" for f in fl)], False))
    reps = _lean(ctx, [ladder_line(s, r, fl) for s, r, fl, _, _ in jobs])
    tmpdir = tempfile.mkdtemp(prefix="fcv_c02_")
    try:
        for k, ((src, ref, fl, tags, relabelled), rep) in enumerate(zip(jobs, reps)):
            impl, retries = impl_compare(src, ref, fl)
            case = {"kind": "ladder", "src": src, "ref": ref, "flags": list(fl)}
            hyp = rep is not None and rep.get("hyp") == "1"
            sep = rep is not None and rep.get("sep") == "1" and rep.get("jsep") == "1"
            counted = sep if relabelled else hyp
            ctx.case(("ladder", _key(src), _key(ref), fl, repr(src["pf"]), repr(src["cf"])), nontrivial=counted,
                     tags=tags + [f"retries={retries}", "Sep" if sep else "noSep", "impl-pass" if passes(impl) else "impl-notpass"],
                     sample={"case": case, "impl": impl, "lean": rep} if k % 97 == 0 else None)
            if hyp:
                model = canon_model_outcome(rep["model"])
                if model != impl:
                    ctx.mismatch(case, impl, model, what="MeshFieldsComparator: domain verdict + field status multiset")
                if rep.get("tie") != "1":
                    ctx.inconsistent(case, rep["model"], "model outcome depends on the tie-breaking of argsort although hyp holds")
            if relabelled and (sep or not ctx.driver_ok) and fl == (False, False, False):
                if rep is not None and rep.get("pass") != "1":
                    ctx.inconsistent(case, rep["model"], "spec: equal domains, all fields passed")
                if not passes(impl) and ctx.driver_ok:
                    ctx.violation(_shrink_ladder(case), impl, "1:<every field passed>",
                                  what="relabelled pair inside Sep does not compare as passed")
                elif cli_budget[0] > 0 and not any(t == "POLYGON" for t, _ in src["cells"]) and k % 7 == 0:
                    cli_budget[0] -= 1
                    code = impl_cli_exit(src, ref, tmpdir, str(k))
                    ctx.case(("cli", _key(src), _key(ref)), nontrivial=True, tags=["cli", f"exit={code}"])
                    if code != 0:
                        ctx.violation(dict(case, kind="cli"), f"exit={code}", "exit=0",
                                      what="CLI file mode fails on a relabelled pair inside Sep")
    finally:
        shutil.rmtree(tmpdir, ignore_errors=True)


def _shrink_ladder(case):
    """drop the fields when the failure is in the domain check already"""
    c2 = dict(case, src=meshgen_strip(case["src"]), ref=meshgen_strip(case["ref"]))
    try:
        if not passes(impl_compare(c2["src"], c2["ref"], tuple(c2["flags"]))[0]):
            return c2
    except Exception:   # noqa: BLE001
        pass
    return case


# ---------------------------------------------------------------- phase 6 (G1m): quantifier-coverage batches

def impl_compare_st(src, ref, st_s=None, st_r=None, objs=None):
    """like impl_compare, the operands stored as the storages say (fcv.meshgen_p6g1m) or given as objects"""
    from fieldcompare.mesh import MeshFieldsComparator
    try:
        a, b = objs if objs else (mg6.to_fc_storage(src, st_s), mg6.to_fc_storage(ref, st_r))
        with _quiet():
            suite = MeshFieldsComparator(a, b)(fieldcomp_callback=lambda _: None)
    except Exception as e:   # noqa: BLE001
        return f"exception:{type(e).__name__}", 0
    st = sorted(f"{c.name}~{c.status.name}" for c in suite)
    dom = bool(suite.domain_equality_check)
    ok = dom and all(c.status.name == "passed" for c in suite)      # (field names may contain any character)
    return f"{'PASS' if ok else 'NOT-PASSED'} {int(dom)}:{','.join(st)}", len(st)


def passes_st(obs):
    return obs.startswith("PASS ")


def _nfields(lm):
    return len(lm["pf"]) + len(lm["cf"])


def _sep_of(ctx, pairs):
    """driver verdict `Sep` (both sides and jointly) for the domains of the pairs"""
    reps = _lean(ctx, [ladder_line(meshgen_strip(a), meshgen_strip(b), (False, False, False)) for a, b in pairs])
    return [r is not None and r.get("sep") == "1" and r.get("jsep") == "1" for r in reps]


def _st_case(src, ref, st_s, st_r):
    return {"kind": "ladder-st", "src": src, "ref": ref, "st_src": st_s or mg6.DEFAULT_STORAGE, "st_ref": st_r or mg6.DEFAULT_STORAGE}


def p6g_checks(ctx):
    """directed batches for dimensions of the quantifier sampled at one point only before (notes/PHASE6_G1m_audit.md).
    FCV_P6G_OFF=1 switches them off."""
    import time
    rng = ctx.rng
    t0 = [time.time()]
    secs = ctx.extra.setdefault("p6g_seconds", {})

    def lap(name):
        secs[name] = round(secs.get(name, 0.0) + time.time() - t0[0], 2)
        t0[0] = time.time()
    kinds = ["identity", "reversal", "random", "blockswap", "transposition"]
    wheres = ["front", "middle", "scattered", "end"]
    sides = ["src", "ref", "both"]
    # (a) both members of a compatible pair in one mesh; unconnected points at the front / in the middle / scattered, on one
    # side only or on both; pure block-order / pure cell-order relabellings -- through the full pipeline (Lean hypotheses)
    pairs = []
    for i in range(ctx.scale(48, 900)):
        if i % 3 == 2:
            A, tg = gen_base(rng)
            tg = dict(tg, style=str(tg["style"]))
        else:
            A, tg = mg6.gen_pair_mesh(rng, jitter=rng.choice([0.0, 0.0, 0.3]))
        kind = kinds[i % 5]
        noise = [0.0, 0.0, 1e-11][i % 3]
        B = meshgen.relabel(rng, A, noise_rel=noise, extra_orphans=0, shuffle_blocks=(i % 4 != 1),
                            point_perm=perm_of_kind(rng, len(A["points"]), kind))
        where, side = wheres[i % 4], sides[(i // 4) % 3]
        if i % 6 != 5:
            if side in ("src", "both"):
                B = mg6.insert_orphans(rng, B, where, rng.randint(1, 3))
            if side in ("ref", "both"):
                A = mg6.insert_orphans(rng, A, where if i % 8 else "front", rng.randint(1, 3))
            otag = f"p6g-orphans-{where}-{side}"
        else:
            otag = "p6g-orphans-none"
            if len({t for t, _ in A["cells"]}) == len(A["cells"]):
                # relabellings that change ONE thing only: the order of the cells inside the types (points and blocks in
                # place), or the order of the type blocks (points and cells in place)
                ident = list(range(len(A["points"])))
                if (i // 6) % 2 == 0:
                    B = py_relabel(A, ident, [perm_of_kind(rng, len(rows), rng.choice(["reversal", "random", "transposition"]))
                                              for _, rows in A["cells"]])
                    kind, noise, otag = "cells-only", 0.0, "p6g-cells-only"
                else:
                    B = py_relabel(A, ident, [list(range(len(rows))) for _, rows in A["cells"]])
                    B["cells"] = B["cells"][::-1]
                    kind, noise, otag = "blocks-only", 0.0, "p6g-blocks-only"
        pairs.append((A, B, ["p6g-pipeline", "style=" + tg["style"], f"relabel={kind}", f"noise={noise}", otag], noise))
    sort_checks(ctx, pairs)
    ladder_checks(ctx, pairs, [0])
    lap("pipeline")
    # (b) storage: coordinate dtype / byte order / memory layout, index type, strided / read-only field arrays (search; Sep
    # from the driver on the values)
    nst = len(mg6.STORAGES)
    jobs = []
    for i in range(ctx.scale(48, 900)):
        st = mg6.STORAGES[i % nst]
        if (i // nst) % 2:
            A, tg = mg6.gen_pair_mesh(rng, max_cells_per_dir=2 if st["conn"] in ("u8", "i8") else 3)
        else:
            A, tg = meshgen.gen_mesh(rng, max_cells_per_dir=3, allow_duplicates=(i % 5 == 0))
        if "f4" in st["pts"]:
            A = mg6.round_to_f32(A)
        B = meshgen.relabel(rng, A, extra_orphans=rng.choice([0, 0, 1]))
        if i % 4 == 0:
            B = mg6.insert_orphans(rng, B, "front", 2)
        if mg6.storage_fits(A, st) and mg6.storage_fits(B, st):
            jobs.append((A, B, st))
    for (A, B, st), sep in zip(jobs, _sep_of(ctx, [(a, b) for a, b, _ in jobs])):
        ctx.case(("p6g-st", _key(A), _key(B), mg6.storage_tag(st)), nontrivial=sep,
                 tags=["p6g-storage", "p6g-" + mg6.storage_tag(st), "Sep" if sep else "noSep"])
        if not sep:
            continue
        for src, ref, ss, sr in ((A, B, st, None), (B, A, None, st), (B, A, st, st)):
            obs, n = impl_compare_st(src, ref, ss, sr)
            if not passes_st(obs) or n != _nfields(ref):
                ctx.violation(_st_case(src, ref, ss, sr), obs, "1:<every field passed>",
                              what=f"relabelled pair inside Sep does not compare as passed (storage {mg6.storage_tag(st)})")
        try:
            from fieldcompare.mesh import sort
            sa = _canon_lm(mg6.from_fc_any(sort(mg6.to_fc_storage(A, st))))
            sb = _canon_lm(mg6.from_fc_any(sort(mg6.to_fc_storage(B, None))))
        except ValueError:
            sa = sb = None
        except Exception as e:   # noqa: BLE001
            sa, sb = f"exception:{type(e).__name__}", None
        if sa != sb:
            ctx.violation(dict(_st_case(A, B, st, None), kind="canon-st"), _diff(sa, sb) if isinstance(sa, dict) and isinstance(sb, dict) else str(sa)[:80],
                          "identical sorted representations", what=f"sort(A) and sort(relabel A) differ (storage {mg6.storage_tag(st)})")
    lap("storage")
    # (c) sizes: > 1000 and > 65536 points (noise-free lattices: Sep by construction; search only)
    sizes = [(33, 33, "quad", 3, "random"), (40, 30, "tri", 2, "reversal"), (1100, 0, "line", 1, "random"), (36, 30, "pixel", 2, "rotation")]
    sizes += [(260, 256, "quad", 2, "random")] if ctx.tier != "thorough" else [(260, 256, "quad", 3, "random"), (300, 230, "tri", 2, "rotation"),
                                                                               (70000, 0, "line", 2, "random")]
    for nx, ny, style, dim, kind in sizes:
        A = mg6.big_lattice(nx, ny, dim=dim, style=style, scale=rng.choice([1.0, 2.5]), offset=rng.choice([0.0, -5.0]))
        B = mg6.fast_relabel(rng, A, kind)
        n = len(A["points"])
        noise = 0.0
        if style in ("quad", "pixel") and n < 60000:
            # coordinate noise far below the tolerance (1e-12 of the largest coordinate; lattice spacing >= 1)
            noise = 1e-12 * max(abs(c) for p in A["points"] for c in p)
            B["points"] = [[c + rng.uniform(-1, 1) * noise for c in p] for p in B["points"]]
        if n < 2000:
            B = mg6.insert_orphans(rng, B, "front", 2)
        a, b = mg6.to_fc_storage(A), mg6.to_fc_storage(B)
        for role, objs in (("A-vs-B", (a, b)), ("B-vs-A", (b, a))):
            obs, nf = impl_compare_st(None, None, objs=objs)
            ctx.case(("p6g-big", n, style, dim, kind, role), nontrivial=True,
                     tags=["p6g-big", f"p6g-npoints={n}", role, f"relabel={kind}", "p6g-big-noise" if noise else "p6g-big-noise-free"])
            if not passes_st(obs) or nf != _nfields(A):
                case = {"kind": "big", "args": [nx, ny, dim, style], "npoints": n, "relabel": kind, "role": role}
                if n < 2000:
                    case = _st_case(A, B, None, None) if role == "A-vs-B" else _st_case(B, A, None, None)
                ctx.violation(case, obs[:300], "1:<every field passed>", what=f"relabelled {n}-point lattice does not compare as passed")
        if n < 2000 and not noise:
            sa, sb = impl_sorted(A), impl_sorted(B)
            if sa != sb or isinstance(sa, str):
                ctx.violation({"kind": "canon", "a": A, "b": B}, _diff(sa, sb), "identical sorted representations",
                              what=f"sort(A) and sort(relabel A) differ ({n} points)")
    lap("big")
    # (d) objects used more than once: the same data set object in several comparisons and on both sides, a comparator
    # called twice; operands inspected afterwards
    jobs = []
    for i in range(ctx.scale(14, 300)):
        A, tg = mg6.gen_pair_mesh(rng) if i % 2 else meshgen.gen_mesh(rng, max_cells_per_dir=3, allow_duplicates=(i % 4 == 0))
        jobs.append((A, meshgen.relabel(rng, A, extra_orphans=i % 2), meshgen.relabel(rng, A)))
    seps = _sep_of(ctx, [(a, b) for a, b, _ in jobs] + [(a, c) for a, _, c in jobs])
    for k, (A, B, C) in enumerate(jobs):
        sep = seps[k] and seps[len(jobs) + k]
        ctx.case(("p6g-reuse", _key(A), _key(B), _key(C)), nontrivial=sep, tags=["p6g-reuse", "Sep" if sep else "noSep"])
        if not sep:
            continue
        from fieldcompare.mesh import MeshFieldsComparator
        a, b, c = meshgen.to_fc(A), meshgen.to_fc(B), meshgen.to_fc(C)
        seq = [("a,b", a, b, A, B), ("a,c", a, c, A, C), ("c,a", c, a, C, A), ("b,a", b, a, B, A), ("a,a", a, a, A, A), ("b,c", b, c, B, C)]
        for name, x, y, X, Y in seq:
            obs, nf = impl_compare_st(None, None, objs=(x, y))
            if not passes_st(obs) or nf != _nfields(Y):
                ctx.violation({"kind": "reuse", "a": A, "b": B, "c": C, "failed": name}, obs, "1:<every field passed>",
                              what=f"comparison ({name}) in a sequence that reuses the data set objects does not pass")
                break
        else:
            try:
                with _quiet():
                    comp = MeshFieldsComparator(b, a)
                    r1 = comp(fieldcomp_callback=lambda _: None)
                    r2 = comp(fieldcomp_callback=lambda _: None)
                ok = bool(r1) and bool(r2)
            except Exception as e:   # noqa: BLE001
                ok = False
            if not ok:
                ctx.violation({"kind": "reuse", "a": A, "b": B, "c": C, "failed": "comparator-twice"}, "not passed", "passed twice",
                              what="a MeshFieldsComparator called twice on a relabelled pair does not pass both times")
            for X, x in ((A, a), (B, b), (C, c)):
                if _canon_lm(meshgen.from_fc(x)) != _canon_lm(X) or [t for t, _ in meshgen.from_fc(x)["cells"]] != [t for t, _ in X["cells"]]:
                    ctx.violation({"kind": "reuse", "a": A, "b": B, "c": C, "failed": "operand-changed"}, "changed", "unchanged",
                                  what="a data set changed by being compared")
    lap("reuse")
    # (e) field shapes (n,1), narrow / unsigned integer and string fields, names that are empty / unicode / contain separators
    jobs = []
    for i in range(ctx.scale(24, 500)):
        A, tg = mg6.gen_pair_mesh(rng, jitter=0.0) if i % 2 else meshgen.gen_mesh(rng, max_cells_per_dir=3, allow_duplicates=False)
        A = mg6.add_odd_fields(rng, A, names=(i % 3 != 2), strings=(i % 4 != 3))
        B = meshgen.relabel(rng, A, point_perm=perm_of_kind(rng, len(A["points"]), kinds[i % 5]))
        jobs.append((A, B))
    for (A, B), sep in zip(jobs, _sep_of(ctx, jobs)):
        ctx.case(("p6g-odd", _key(A), _key(B), repr([f["name"] for f in A["pf"] + A["cf"]])), nontrivial=sep,
                 tags=["p6g-odd-fields", "Sep" if sep else "noSep"] + sorted({"p6g-name=" + repr(f["name"]) for f in A["pf"] + A["cf"]
                                                                          if f["name"] in mg6.ODD_NAMES}))
        if not sep:
            continue
        for src, ref in ((A, B), (B, A)):
            obs, nf = impl_compare_st(src, ref, None, None)
            if not passes_st(obs) or nf != _nfields(ref):
                ctx.violation(_st_case(src, ref, None, None), obs + f" ({nf} comparisons for {_nfields(ref)} fields)",
                              "1:<every field passed>", what="relabelled pair with (n,1) / narrow-integer / string fields or odd field "
                              "names does not compare as passed field by field")
    lap("odd-fields")


# ---------------------------------------------------------------- exhaustive small scope (thorough)

def small_meshes():
    tri = lambda *r: ["TRIANGLE", [list(x) for x in r]]     # noqa: E731
    yield {"dim": 2, "points": [[0., 0.], [1., 0.], [1., 1.], [0., 1.]], "cells": [tri((0, 1, 2), (0, 2, 3))]}
    yield {"dim": 2, "points": [[0., 0.], [1., 0.], [1., 1.], [0., 1.], [2., 0.], [2., 1.]],
           "cells": [["QUAD", [[0, 1, 2, 3], [1, 4, 5, 2]]]]}
    yield {"dim": 3, "points": [[0., 0., 0.], [1., 0., 0.], [0., 0., 1.], [1., 0., 1.], [2., 0., 0.], [2., 0., 1.]],
           "cells": [["QUAD", [[0, 1, 3, 2]]], tri((1, 4, 5), (1, 5, 3))]}
    yield {"dim": 1, "points": [[0.], [1.], [2.], [3.], [4.]], "cells": [["LINE", [[0, 1], [1, 2], [2, 3], [3, 4]]]]}
    yield {"dim": 3, "points": [[0., 0., 0.], [1., 0., 0.], [0., 1., 0.], [0., 0., 1.], [1., 1., 1.]],
           "cells": [["TETRA", [[0, 1, 2, 3], [1, 2, 3, 4]]]]}
    # discontinuous: the shared edge is duplicated
    yield {"dim": 2, "points": [[0., 0.], [1., 0.], [1., 1.], [0., 1.], [1., 0.], [1., 1.]],
           "cells": [tri((0, 1, 2), (0, 5, 3))]}
    yield {"dim": 2, "points": [[0., 0.], [1., 0.], [1., 1.], [1., 0.], [2., 0.], [1., 1.]],
           "cells": [tri((0, 1, 2), (3, 4, 5))]}
    # with an orphan point
    yield {"dim": 2, "points": [[0., 0.], [1., 0.], [0., 1.], [5., 5.]], "cells": [tri((0, 1, 2))]}


def exhaustive(ctx):
    rng = ctx.rng
    pairs = []
    for base in small_meshes():
        n = len(base["points"])
        A = dict(base, pf=[{"name": "p", "dt": "f64", "tail": [], "v": [10.0 + i for i in range(n)]}],
                 cf=[{"name": "c", "ctype": t, "dt": "i64", "tail": [], "v": [100 + i for i in range(len(rows))]}
                     for t, rows in base["cells"]])
        for perm in itertools.permutations(range(n)):
            B = meshgen.relabel(rng, A, point_perm=list(perm), shuffle_blocks=True)
            pairs.append((A, B, ["exhaustive", f"n={n}"], 0.0))
    ctx.exhaustive = True
    CH = 400
    for i in range(0, len(pairs), CH):
        sort_checks(ctx, pairs[i:i + CH])
        ladder_checks(ctx, pairs[i:i + CH], [0])


# ---------------------------------------------------------------- entry points

def run(ctx):
    ctx.rule = ("cases: (i) unit level (isclose/fuzzy_equal pairs on the threshold, run walks, cell centres, tuple hashes), "
                "(ii) key matrices for the fuzzy lexsort (1-4 columns, 1-64 rows, sizes on both sides of numpy's 16/17 "
                "threshold, many ties per column), (iii) relabelled mesh pairs (A, relabel A) from the shared generator "
                "(1-3-d, all cell types, mixed blocks, lattices in coordinate planes of 3-d space, jitter, scales 1e-6..1e6, "
                "offsets, coincident duplicate points, orphan points on either side, noise 0..1e-10 relative, relabelling "
                "identity/reversal/random/block swap/transposition, shuffled type blocks) compared in both roles, plus "
                "single-site mutants and non-default flag settings for the ladder model. non-trivial = the driver-evaluated "
                "hypothesis (Sep, Distinguishable, unique cells, hash injective; jointly for noise) holds, so the case counts "
                "for the property; distinct = distinct literal inputs")
    ctx.assumptions += [
        "np.argsort returns some sorting permutation (ties arbitrary): model parameter `as` with IsArgsort; driver runs a stable "
        "merge sort and its reversed-tie variant and reports whether the observable depends on the choice",
        "numpy float64 arithmetic is IEEE round-to-nearest-even; np.sum over axis 0 adds rows one after the other (compared on "
        "every run at unit level)",
        "CPython (>= 3.8, 64 bit) tuple hash of small ints as re-implemented in Fc.pyTupleHash (compared on every run); the "
        "hash is injective on the cell keys of one mesh (checked per case by the driver, part of hyp)",
        "outside Sep (chains of nearly-equal coordinates, cluster-merging offsets, indistinguishable coincident points) "
        "nothing is claimed and nothing is reported",
    ]
    unit_checks(ctx)
    lex_checks(ctx)
    n_pairs = ctx.scale(330, 3000)
    CH = ctx.scale(110, 400)
    cli_budget = [ctx.scale(12, 200)]
    done = 0
    noisy_pool = []
    while done < n_pairs:
        pairs = [gen_pair(ctx.rng, big=(ctx.tier == "thorough" and (done + j) % 10 == 0)) for j in range(min(CH, n_pairs - done))]
        sort_checks(ctx, pairs)
        ladder_checks(ctx, pairs, cli_budget)
        relabel_checks(ctx, pairs[:ctx.scale(40, 150)])
        # (quick tier: small meshes only, the joint hypothesis is cubic in the number of points)
        noisy_pool += [p for p in pairs[ctx.scale(40, 150):ctx.scale(40, 150) + ctx.scale(40, 100)]
                       if ctx.tier == "thorough" or len(p[0]["points"]) <= 40][:ctx.scale(14, 100)]
        done += len(pairs)
    # phase 4: noisy relabelled pairs; drawn AFTER the loop so that the random stream of the checks above is unchanged
    noisy_checks(ctx, noisy_pool)
    if os.environ.get("FCV_P6G_OFF") != "1":
        p6g_checks(ctx)
    if ctx.tier == "thorough":
        exhaustive(ctx)
    ctx.spec_viol = ctx.spec_viol[:50]


def _f1_regression():
    """the F1 witness family as data: a 9x9 lattice in the x-z plane vs a permutation of itself"""
    import random
    rng = random.Random(3)
    pts, idx = [], {}
    for j in range(9):
        for i in range(9):
            idx[(i, j)] = len(pts)
            pts.append([float(i), 0.0, float(j)])
    quads = [[idx[(i, j)], idx[(i + 1, j)], idx[(i + 1, j + 1)], idx[(i, j + 1)]] for j in range(8) for i in range(8)]
    A = {"dim": 3, "points": pts, "cells": [["QUAD", quads]],
         "pf": [{"name": "p", "dt": "f64", "tail": [], "v": [float(i) for i in range(len(pts))]}], "cf": []}
    return A, meshgen.relabel(rng, A)


def _run_witness(entry):
    from fcv import core
    try:
        return core.run_named_witness(entry)
    except Exception as e:   # noqa: BLE001  the implementation raising inside a witness is an observable: the witness fails
        return True, f"exception:{type(e).__name__}"


def replay_witness(ctx, entry):
    if entry.get("id") == "F1":
        A, B = _f1_regression()
        obs = [impl_compare(B, A)[0], impl_compare(A, B)[0]]
        f2, detail = _run_witness(entry)
        return (not all(passes(o) for o in obs)) or f2, {"ladder": obs, "witness": detail}
    return _run_witness(entry)


def replay(ctx, payload):
    c = payload["case"]
    kind = c.get("kind")
    bad = False
    if "fn" in c:       # a regression of a fixed finding: the case is the named witness
        bad, detail = replay_witness(ctx, {"id": c["fn"], "witness": c})
        print(f"replay: witness {c['fn']}: {detail}")
    elif kind in ("ladder", "cli"):
        obs, retries = impl_compare(c["src"], c["ref"], tuple(c.get("flags", (False, False, False))))
        print(f"replay: MeshFieldsComparator -> {obs} (retries={retries}); demanded: equal domains, every field passed")
        bad = not passes(obs)
        if kind == "cli":
            d = tempfile.mkdtemp(prefix="fcv_c02_")
            try:
                code = impl_cli_exit(c["src"], c["ref"], d, "replay")
            finally:
                shutil.rmtree(d, ignore_errors=True)
            print(f"replay: CLI exit code {code}")
            bad = bad or code != 0
    elif kind in ("ladder-st", "canon-st"):
        obs, n = impl_compare_st(c["src"], c["ref"], c["st_src"], c["st_ref"])
        print(f"replay: MeshFieldsComparator (storage {mg6.storage_tag(c['st_src'])} vs {mg6.storage_tag(c['st_ref'])}) -> {obs} "
              f"({n} comparisons, {_nfields(c['ref'])} fields); demanded: equal domains, every field passed")
        bad = not passes_st(obs) or n != _nfields(c["ref"])
        if kind == "canon-st":
            from fieldcompare.mesh import sort
            sa = _canon_lm(mg6.from_fc_any(sort(mg6.to_fc_storage(c["src"], c["st_src"]))))
            sb = _canon_lm(mg6.from_fc_any(sort(mg6.to_fc_storage(c["ref"], c["st_ref"]))))
            print(f"replay: sort(a) == sort(b): {sa == sb}")
            bad = bad or sa != sb
    elif kind == "reuse":
        a, b, cc = meshgen.to_fc(c["a"]), meshgen.to_fc(c["b"]), meshgen.to_fc(c["c"])
        res = [(nm, impl_compare_st(None, None, objs=o)[0]) for nm, o in
               (("a,b", (a, b)), ("a,c", (a, cc)), ("c,a", (cc, a)), ("b,a", (b, a)), ("a,a", (a, a)), ("b,c", (b, cc)))]
        print("replay: sequence of comparisons reusing the objects:", [(nm, passes_st(o)) for nm, o in res])
        bad = not all(passes_st(o) for _, o in res)
        if not bad:
            from fieldcompare.mesh import MeshFieldsComparator
            with _quiet():
                comp = MeshFieldsComparator(b, a)
                r = [bool(comp(fieldcomp_callback=lambda _: None)), bool(comp(fieldcomp_callback=lambda _: None))]
            unchanged = all(_canon_lm(meshgen.from_fc(x)) == _canon_lm(X) for X, x in ((c["a"], a), (c["b"], b), (c["c"], cc)))
            print(f"replay: comparator called twice -> {r}; operands unchanged: {unchanged}")
            bad = not all(r) or not unchanged
    elif kind == "big":
        import random
        nx, ny, dim, style = c["args"]
        A = mg6.big_lattice(nx, ny, dim=dim, style=style)
        B = mg6.fast_relabel(random.Random(0), A, c.get("relabel", "random"))
        a, b = mg6.to_fc_storage(A), mg6.to_fc_storage(B)
        obs = [impl_compare_st(None, None, objs=o)[0] for o in ((a, b), (b, a))]
        print(f"replay: {len(A['points'])}-point lattice vs its relabelling, both roles pass: {[passes_st(o) for o in obs]}")
        bad = not all(passes_st(o) for o in obs)
    elif kind == "canon":
        sa, sb = impl_sorted(c["a"]), impl_sorted(c["b"])
        print(f"replay: sort(a) == sort(b): {sa == sb}")
        bad = sa != sb
    elif kind == "lex":
        from fieldcompare import _numpy_utils as nu
        impl = ",".join(str(int(i)) for i in nu.get_fuzzy_lex_sorting_index_map(
            np.array(c["rows"], dtype=float), abs_tol=c["atol"], rel_tol=c["rtol"]))
        print(f"replay: fuzzy lexsort -> {impl}; demanded {payload.get('spec')}")
        bad = impl != payload.get("spec")
    else:
        print("replay: unknown case kind", kind)
        return 2
    if bad:
        print(f"VIOLATION property=C02 replay={payload.get('_path', '<replay>')}")
        return 1
    print("replay: property holds on this input")
    return 0
