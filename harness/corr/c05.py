"""C05 — VTK reading is independent of the file's encoding.

Pipeline per generated case (logical data set x encoding configuration):
  1. the Lean *spec writer* (`Fc.Spec.encodeArray`, `Fc.Spec.vtuArrays`, `Fc.Spec.asciiTokens`, run by the driver)
     produces the bytes of every <DataArray>; the real codecs (zlib / lzma / lz4.block) enter as a finite oracle
     table computed here;
  2. this module only wraps those bytes into .vtu / .vtp XML (attributes, <AppendedData>, offsets);
  3. `fieldcompare.io.read_field_data` reads the file (implementation);
  4. the Lean *model reader* (`Fc.readArray`, `Fc.vtuLayout`, `Fc.splitCellData`, …) reads the same bytes;
  5. observables (points, connectivity per cell type, field names, shapes, dtype kind/size, values as little-endian
     bytes) of the implementation are compared with the logical data set (property) and with the model's output
     (correspondence); model vs logical data set is the runtime re-check of the theorems.
Plus: lenient base64 decoder vs `base64.b64decode` exhaustively on short strings, `encoded_bytes` vs the translated
expression, the shipped files under test/vtkfiles (implementation vs model reader), and adversarial raw-appended
payloads for the fallback parser."""
from __future__ import annotations
import base64
import binascii
import itertools
import lzma
import os
import re
import shutil
import struct
import tempfile
import warnings
import zlib
from xml.etree import ElementTree

import numpy as np

try:
    import lz4.block as lz4block
    HAVE_LZ4 = True
except ImportError:  # pragma: no cover
    HAVE_LZ4 = False

from fcv import core

# ------------------------------------------------------------------ fixed tables of the harness (VTK standard)
VTK = {"Int8": ("i", 1), "Int16": ("i", 2), "Int32": ("i", 4), "Int64": ("i", 8),
       "UInt8": ("u", 1), "UInt16": ("u", 2), "UInt32": ("u", 4), "UInt64": ("u", 8),
       "Float32": ("f", 4), "Float64": ("f", 8)}
TYPE_NAMES = list(VTK)
CELL = {1: ("VERTEX", 1), 3: ("LINE", 2), 5: ("TRIANGLE", 3), 9: ("QUAD", 4), 10: ("TETRA", 4),
        12: ("HEXAHEDRON", 8), 13: ("WEDGE", 6), 14: ("PYRAMID", 5)}
COMPRESSOR_ATTR = {"zlib": "vtkZLibDataCompressor", "lz4": "vtkLZ4DataCompressor", "lzma": "vtkLZMADataCompressor"}
ATTR_COMPRESSOR = {v: k for k, v in COMPRESSOR_ATTR.items()}
VTP_SECTIONS = [("Verts", "POLY_VERTEX", "NumberOfVerts"), ("Lines", "POLY_LINE", "NumberOfLines"),
                ("Polys", "POLYGON", "NumberOfPolys"), ("Strips", "TRIANGLE_STRIP", "NumberOfStrips")]
VTP_TYPE_ID = {"Verts": 2, "Lines": 4, "Polys": 7, "Strips": 6}      # VTK ids of the four poly cell types
VTP_ID_NAME = {2: "POLY_VERTEX", 4: "POLY_LINE", 7: "POLYGON", 6: "TRIANGLE_STRIP"}
CODECS = ["zlib", "lz4", "lzma"] if HAVE_LZ4 else ["zlib", "lzma"]


def np_dtype(tname: str, bo: str = "<") -> np.dtype:
    k, s = VTK[tname]
    return np.dtype(f"{bo}{k}{s}")


def hx(b: bytes) -> str:
    return "x" + bytes(b).hex()


def unhx(s: str) -> bytes:
    if not s.startswith("x"):
        raise ValueError(f"not a bytes token: {s[:20]}")
    return bytes.fromhex(s[1:])


def compress(codec: str, b: bytes) -> bytes:
    if codec == "zlib":
        return zlib.compress(b)
    if codec == "lzma":
        return lzma.compress(b, preset=0)
    if codec == "lz4":
        return lz4block.compress(b, store_size=False)
    raise ValueError(codec)


def decompress(codec: str, b: bytes, rbs: int) -> bytes:
    if codec == "zlib":
        return zlib.decompress(b)
    if codec == "lzma":
        return lzma.decompress(b)
    if codec == "lz4":
        return lz4block.decompress(b, uncompressed_size=rbs)
    raise ValueError(codec)


# ------------------------------------------------------------------ logical data sets
# ds = {"kind": "vtu"|"vtp", "npts": n, "ptype": "Float64", "points": hexLE (3n items),
#       "cells": [[vtk_type_id, [corner, …]], …]               (vtu, file order, types may interleave)
#       "sections": {"Verts": [[…], …], "Lines": …, …}          (vtp, homogeneous rows per section)
#       "ctype": type of connectivity, "otype": type of offsets, "ttype": type of types,
#       "pf": [{"name", "type", "ncomp", "le": hexLE}], "cf": [ … ]}     values per point / per cell in file order

def rand_items(rng, tname: str, count: int) -> bytes:
    kind, size = VTK[tname]
    out = bytearray()
    bits = 8 * size
    for _ in range(count):
        r = rng.random()
        if kind == "f":
            fmt, ifmt = ("<f", "<I") if size == 4 else ("<d", "<Q")
            if r < 0.25:
                out += struct.pack(fmt, float(rng.randint(-50, 50)))
            elif r < 0.35:
                out += struct.pack(fmt, rng.choice([0.0, -0.0, 1.5, -2.25, 1e-3, 3.0e10]))
            else:
                while True:
                    v = rng.getrandbits(bits)
                    raw = struct.pack(ifmt, v)
                    x = struct.unpack(fmt, raw)[0]
                    if x == x and abs(x) != float("inf"):
                        break
                out += raw
        else:
            if r < 0.15:
                v = rng.choice([0, 1, (1 << bits) - 1, 1 << (bits - 1), (1 << (bits - 1)) - 1])
            elif r < 0.4:
                v = rng.randint(0, 20) if kind == "u" else rng.randint(-20, 20) % (1 << bits)
            else:
                v = rng.getrandbits(bits)
            out += v.to_bytes(size, "little")
    return bytes(out)


def gen_points(rng, n: int, ptype: str) -> bytes:
    vals = [float(rng.randint(-8, 8)) + rng.choice([0.0, 0.5, 0.125]) for _ in range(3 * n)]
    return np.array(vals, dtype=np_dtype(ptype)).tobytes()


def gen_fields(rng, count: int, plan, prefix: str):
    """plan = list of (type, ncomp)"""
    return [{"name": f"{prefix}_{t}_{ {1: 's', 3: 'v', 9: 't'}[nc] }", "type": t, "ncomp": nc,
             "le": hx(rand_items(rng, t, count * nc))} for t, nc in plan]


def gen_vtu(rng, n: int, cell_types: list[int], plan_p, plan_c, ptype="Float64", ctype="Int64", otype="Int64",
            ttype="UInt8"):
    cells = [[t, [rng.randrange(n) for _ in range(CELL[t][1])]] for t in cell_types]
    return {"kind": "vtu", "npts": n, "ptype": ptype, "points": hx(gen_points(rng, n, ptype)), "cells": cells,
            "ctype": ctype, "otype": otype, "ttype": ttype,
            "pf": gen_fields(rng, n, plan_p, "p"), "cf": gen_fields(rng, len(cells), plan_c, "c")}


def gen_vtp(rng, n: int, sizes: dict, plan_p, plan_c, ptype="Float32", ctype="Int32", otype="Int32"):
    """sizes = {"Verts": (count, rowlen), …}"""
    sections = {}
    for sec, _, _ in VTP_SECTIONS:
        cnt, k = sizes.get(sec, (0, 0))
        if cnt:
            sections[sec] = [[rng.randrange(n) for _ in range(k)] for _ in range(cnt)]
    ncells = sum(len(v) for v in sections.values())
    return {"kind": "vtp", "npts": n, "ptype": ptype, "points": hx(gen_points(rng, n, ptype)), "sections": sections,
            "ctype": ctype, "otype": otype,
            "pf": gen_fields(rng, n, plan_p, "p"), "cf": gen_fields(rng, ncells, plan_c, "c")}


STRUCTURED = {"vti": "ImageData", "vtr": "RectilinearGrid", "vts": "StructuredGrid"}


def gen_structured(rng, kind: str, cells, plan_p, plan_c, ptype="Float64"):
    """ds of a structured file: `cells` per direction (0 = flat), lower extent corner at small random indices.
    vts: explicit point coordinates, vtr: three ordinate arrays, vti: origin/spacing attributes only."""
    lo = [rng.choice([0, 0, 1, -2]) for _ in range(3)]
    ext = [v for d in range(3) for v in (lo[d], lo[d] + cells[d])]
    npts = (cells[0] + 1) * (cells[1] + 1) * (cells[2] + 1)
    ncells = max(cells[0], 1) * max(cells[1], 1) * max(cells[2], 1)
    ds = {"kind": kind, "ext": ext, "npts": npts, "ncells": ncells, "ptype": ptype,
          "pf": gen_fields(rng, npts, plan_p, "p"), "cf": gen_fields(rng, ncells, plan_c, "c")}
    if kind == "vts":
        ds["points"] = hx(gen_points(rng, npts, ptype))
    elif kind == "vtr":
        ds["coords"] = []
        for d in range(3):
            x0 = float(rng.randint(-4, 4))
            vals = [x0 + i * rng.choice([0.5, 1.0, 1.25]) + (0.125 if i % 2 else 0.0) for i in range(cells[d] + 1)]
            ds["coords"].append(hx(np.array(vals, dtype=np_dtype(ptype)).tobytes()))
    else:
        ds["origin"] = [float(rng.randint(-3, 3)) for _ in range(3)]
        ds["spacing"] = [rng.choice([0.5, 1.0, 2.0]) for _ in range(3)]
    return ds


def full_plan():
    return [(t, nc) for t in TYPE_NAMES for nc in (1, 3, 9)]


def cyclic_plan(shift: int):
    return [(t, (1, 3, 9)[(i + shift) % 3]) for i, t in enumerate(TYPE_NAMES)]


def ncells_of(ds) -> int:
    if ds["kind"] == "vtu":
        return len(ds["cells"])
    if ds["kind"] in STRUCTURED:
        return ds["ncells"]
    return sum(len(v) for v in ds["sections"].values())


def n_arrays(ds) -> int:
    """number of <DataArray> elements of the file"""
    mesh = {"vtu": 4, "vti": 0, "vtr": 3, "vts": 1}.get(ds["kind"])
    if mesh is None:
        mesh = 1 + 2 * len(ds["sections"])
    return len(ds["pf"]) + len(ds["cf"]) + mesh


# ------------------------------------------------------------------ configurations
# cfg = {"fmt": "ascii"|"inline"|"app64"|"appraw", "comp": None|"zlib"|"lz4"|"lzma", "B": int,
#        "hs": 4|8, "bo": "le"|"be", "joint": bool, "fmts": optional per-array list of "ascii"|"inline"|"appended"}

def cfg_tokens(cfg, b64: bool) -> str:
    return (f"{cfg['hs']} {cfg['bo']} {1 if b64 else 0} {1 if cfg['comp'] else 0} "
            f"{1 if cfg['joint'] else 0} {cfg['B'] if cfg['comp'] else 0}")


def cfg_key(cfg) -> str:
    return (f"{cfg['fmt']}/{cfg['comp'] or 'none'}/B{cfg['B'] if cfg['comp'] else 0}/h{cfg['hs']}/{cfg['bo']}/"
            f"{'joint' if cfg['joint'] else 'sep'}" + ("/mixed" if cfg.get("fmts") else "") +
            (f"/hdr{HDR_STYLES.index(cfg['hdr'])}" if cfg.get("hdr") in HDR_STYLES[1:] else ""))


def storage_of(cfg, i: int) -> str:
    if cfg.get("fmts"):
        return cfg["fmts"][i]
    return {"ascii": "ascii", "inline": "inline", "app64": "appended", "appraw": "appended"}[cfg["fmt"]]


def appended_is_b64(cfg) -> bool:
    return cfg["fmt"] != "appraw"


def to_file_order(le: bytes, size: int, bo: str) -> bytes:
    """harness-side copy of Spec.toFileOrder, only used to pre-compute the codec oracle table;
    a disagreement with the Lean side shows up as `enc=E-table`"""
    if bo == "le" or size == 1:
        return le
    return b"".join(le[i:i + size][::-1] for i in range(0, len(le), size))


class CodecTable:
    """compress oracle, cached per (codec, block)"""
    def __init__(self):
        self.cache = {}

    def comp(self, codec, blk: bytes) -> bytes:
        k = (codec, blk)
        if k not in self.cache:
            self.cache[k] = compress(codec, blk)
        return self.cache[k]


# ------------------------------------------------------------------ arrays of a data set in document order

def base_arrays(ds):
    """field arrays + points (everything except the cell layout arrays, which the spec writer produces)"""
    arrs = []
    for f in ds["pf"]:
        arrs.append({"sec": "PointData", "name": f["name"], "type": f["type"], "ncomp": f["ncomp"], "le": unhx(f["le"])})
    for f in ds["cf"]:
        arrs.append({"sec": "CellData", "name": f["name"], "type": f["type"], "ncomp": f["ncomp"], "le": unhx(f["le"])})
    if ds["kind"] == "vtr":
        for nm, c in zip("xyz", ds["coords"]):
            arrs.append({"sec": "Coordinates", "name": nm, "type": ds["ptype"], "ncomp": 1, "le": unhx(c)})
    elif ds["kind"] != "vti":
        arrs.append({"sec": "Points", "name": "Coordinates", "type": ds["ptype"], "ncomp": 3, "le": unhx(ds["points"])})
    return arrs


def pack_ints(vals, tname: str) -> bytes:
    return np.array(vals, dtype=np.int64 if VTK[tname][0] == "i" else np.uint64).astype(np_dtype(tname)).tobytes()


def parse_nats(s: str):
    return [] if s == "-" else [int(x) for x in s.split(".")]


def parse_layout(s: str):
    """t:row;row:idxs|…  -> [(t, rows, idxs)]"""
    if s == "-":
        return []
    out = []
    for part in s.split("|"):
        t, rows, idxs = part.split(":")
        out.append((int(t), [parse_nats(r) for r in rows.split(";")] if rows else [], parse_nats(idxs)))
    return out


def parse_cd(s: str):
    if s == "-":
        return []
    out = []
    for part in s.split("|"):
        t, rows = part.split(":")
        out.append((int(t), [unhx(r) for r in rows.split(";")] if rows else []))
    return out


def rows_of(le: bytes, nrows: int):
    if nrows == 0:
        return []
    w = len(le) // nrows
    return [le[i * w:(i + 1) * w] for i in range(nrows)]


def vtuw_line(ds) -> str:
    toks = ["c05vtuw", str(len(ds["cells"]))]
    for t, c in ds["cells"]:
        toks += [str(t), str(len(c))] + [str(i) for i in c]
    toks.append(str(len(ds["cf"])))
    for f in ds["cf"]:
        rows = rows_of(unhx(f["le"]), len(ds["cells"]))
        toks += [str(len(rows))] + [hx(r) for r in rows]
    return " ".join(toks)


def vtpw_line(ds) -> str:
    """all four sections in file order (empty ones with zero rows) + the cell-data rows"""
    toks = ["c05vtpw", str(len(VTP_SECTIONS))]
    for s, _, _ in VTP_SECTIONS:
        rows = ds["sections"].get(s, [])
        toks += [str(VTP_TYPE_ID[s]), str(len(rows))]
        for r in rows:
            toks += [str(len(r))] + [str(i) for i in r]
    toks.append(str(len(ds["cf"])))
    n = ncells_of(ds)
    for f in ds["cf"]:
        rows = rows_of(unhx(f["le"]), n)
        toks += [str(len(rows))] + [hx(r) for r in rows]
    return " ".join(toks)


def parse_vtp_arrs(s: str):
    """t:count:conn:offs|…  -> {section name: (count, conn, offs)}"""
    out = {}
    if s == "-":
        return out
    id_sec = {v: k for k, v in VTP_TYPE_ID.items()}
    for part in s.split("|"):
        t, n, conn, offs = part.split(":")
        out[id_sec[int(t)]] = (int(n), parse_nats(conn), parse_nats(offs))
    return out


# ------------------------------------------------------------------ XML wrapping (the only thing the harness writes)

def float_text(bits: int, size: int) -> str:
    if size == 4:
        return repr(float(np.frombuffer(struct.pack("<I", bits), dtype="<f4")[0]))
    return repr(struct.unpack("<d", struct.pack("<Q", bits))[0])


def data_array_xml(a, storage: str, text: str, offset) -> str:
    fmt = {"ascii": "ascii", "inline": "binary", "appended": "appended"}[storage]
    attrs = f'type="{a["type"]}" Name="{a["name"]}" NumberOfComponents="{a["ncomp"]}" format="{fmt}"'
    if storage == "appended":
        return f'<DataArray {attrs} offset="{offset}"/>'
    return f"<DataArray {attrs}>\n{text}\n</DataArray>"


def wrap_file(ds, cfg, arrs, xmls, counts=None) -> bytes:
    """arrs in document order with their rendered <DataArray> elements; counts = the NumberOf… attributes of a
    .vtp as produced by the spec writer"""
    def sec(name):
        return "\n".join(x for a, x in zip(arrs, xmls) if a["sec"] == name)
    comp = f' compressor="{COMPRESSOR_ATTR[cfg["comp"]]}"' if cfg["comp"] else ""
    root_attrs = (f'version="1.0" byte_order="{"LittleEndian" if cfg["bo"] == "le" else "BigEndian"}" '
                  f'header_type="UInt{cfg["hs"] * 8}"{comp}')
    if ds["kind"] == "vtu":
        body = (f'<UnstructuredGrid><Piece NumberOfPoints="{ds["npts"]}" NumberOfCells="{len(ds["cells"])}">\n'
                f'<PointData>\n{sec("PointData")}\n</PointData>\n<CellData>\n{sec("CellData")}\n</CellData>\n'
                f'<Points>\n{sec("Points")}\n</Points>\n<Cells>\n{sec("Cells")}\n</Cells>\n'
                f'</Piece></UnstructuredGrid>')
        gtype = "UnstructuredGrid"
    elif ds["kind"] in STRUCTURED:
        gtype = STRUCTURED[ds["kind"]]
        ext = " ".join(str(v) for v in ds["ext"])
        extra = ""
        if ds["kind"] == "vti":
            extra = (f' Origin="{" ".join(repr(v) for v in ds["origin"])}"'
                     f' Spacing="{" ".join(repr(v) for v in ds["spacing"])}"')
        geo = {"vti": "", "vtr": f'<Coordinates>\n{sec("Coordinates")}\n</Coordinates>\n',
               "vts": f'<Points>\n{sec("Points")}\n</Points>\n'}[ds["kind"]]
        body = (f'<{gtype} WholeExtent="{ext}"{extra}><Piece Extent="{ext}">\n'
                f'<PointData>\n{sec("PointData")}\n</PointData>\n<CellData>\n{sec("CellData")}\n</CellData>\n'
                f'{geo}</Piece></{gtype}>')
    else:
        counts = counts or {s: len(ds["sections"].get(s, [])) for s, _, _ in VTP_SECTIONS}
        secs = "".join(f"<{s}>\n{sec(s)}\n</{s}>\n" for s, _, _ in VTP_SECTIONS if counts.get(s, 0))
        counts = " ".join(f'{attr}="{counts.get(s, 0)}"' for s, _, attr in VTP_SECTIONS)
        body = (f'<PolyData><Piece NumberOfPoints="{ds["npts"]}" {counts}>\n'
                f'<PointData>\n{sec("PointData")}\n</PointData>\n<CellData>\n{sec("CellData")}\n</CellData>\n'
                f'<Points>\n{sec("Points")}\n</Points>\n{secs}</Piece></PolyData>')
        gtype = "PolyData"
    return f'<?xml version="1.0"?>\n<VTKFile type="{gtype}" {root_attrs}>\n{body}\n'.encode("ascii")


HDR_DEFAULT = [" ", "=", "", "\n"]           # a1, a2, a3, ws of Spec.RawFile
HDR_STYLES = [HDR_DEFAULT, ["\n  ", " = ", " ", "\n   "], [" ", "=", " " * 40, "\n"], ["  ", "= ", " " * 60, "\n "],
              [' info_1="x_y"  ', "=", ' more="y"', "\n  "], [" ", "=", "", "\n\t"]]
# style 5 (a TAB between `>` and `_`) is legal for VTK but only generated for raw appendices: for XML-parsable
# (base64) files `elem.text.strip("_ \n")` leaves the tab in front of the data and every offset > 0 is shifted
# (observation C05-APPWS in NOTES_C05.md, not registered).  FCV_C05_APPWS=1 generates it for base64 too.
APPWS_OPT_IN = os.environ.get("FCV_C05_APPWS") == "1"


def hdr_styles_for(fmt: str):
    return HDR_STYLES[1:] if (fmt == "appraw" or APPWS_OPT_IN) else HDR_STYLES[1:5]


def finish_file(head: bytes, cfg, appendix: bytes | None) -> bytes:
    if appendix is None:
        return head + b"</VTKFile>\n"
    encn = "base64" if appended_is_b64(cfg) else "raw"
    a1, a2, a3, ws = cfg.get("hdr") or HDR_DEFAULT
    return (head + f'<AppendedData{a1}encoding{a2}"{encn}"{a3}>{ws}_'.encode() + appendix +
            b"\n</AppendedData>\n</VTKFile>\n")


# ------------------------------------------------------------------ observables

def arr_obs(v: np.ndarray) -> dict:
    v = np.asarray(v)
    le = v.astype(v.dtype.newbyteorder("<")).tobytes()
    return {"kind": v.dtype.kind, "size": int(v.dtype.itemsize), "shape": [int(s) for s in v.shape], "le": le.hex()}


def obs_impl(path: str) -> dict:
    from fieldcompare.io import read_field_data
    from fieldcompare.mesh._mesh_fields import remove_cell_type_suffix
    try:
        with warnings.catch_warnings():
            warnings.simplefilter("ignore")
            fields = read_field_data(path)
            dom = fields.domain
            out = {"points": arr_obs(dom.points), "cells": {}, "pf": {}, "cf": {}}
            pts64 = np.asarray(dom.points).astype("<f8")
            out["points64"] = {"shape": [int(v) for v in pts64.shape], "le": pts64.tobytes().hex()}
            for ct in dom.cell_types:
                conn = np.asarray(dom.connectivity(ct))
                out["cells"][ct.name] = [[int(i) for i in row] for row in conn]
            for f in fields.point_fields:
                out["pf"][f.name] = arr_obs(f.values)
            for f, ct in fields.cell_fields_types:
                out["cf"][remove_cell_type_suffix(ct, f.name) + "@" + ct.name] = arr_obs(f.values)
            return out
    except Exception as e:  # noqa: BLE001
        return {"error": type(e).__name__, "msg": str(e)[:200]}


def logical_arr(le: bytes, tname: str, nrows: int, ncomp: int) -> dict:
    k, s = VTK[tname]
    return {"kind": k, "size": s, "shape": [nrows] if ncomp <= 1 else [nrows, ncomp], "le": le.hex()}


def obs_logical(ds, arrays: dict, layout, cds) -> dict:
    """observables demanded by the property, assembled from array bytes (`arrays`: name -> LE bytes), the per-type
    layout [(type-name, rows, idxs)] and per cell field the split values [(type-name, [row bytes])]"""
    out = {"points": logical_arr(arrays["Points/Coordinates"], ds["ptype"], ds["npts"], 3), "cells": {}, "pf": {},
           "cf": {}}
    for tn, rows, _ in layout:
        out["cells"][tn] = rows
    for f in ds["pf"]:
        out["pf"][f["name"]] = logical_arr(arrays["PointData/" + f["name"]], f["type"], ds["npts"], f["ncomp"])
    for f, cd in zip(ds["cf"], cds):
        for tn, rows in cd:
            out["cf"][f["name"] + "@" + tn] = logical_arr(b"".join(rows), f["type"], len(rows), f["ncomp"])
    return out


def obs_logical_structured(ds, arrays: dict) -> dict:
    """structured files: point and cell fields (ONE cell type, all cells, file order); the points as float64 values
    for .vts (explicit coordinates) and .vtr (tensor product of the ordinates, x fastest); .vti geometry consists of
    attributes only and is not part of this property"""
    out = {"points": None, "cells": {}, "pf": {}, "cf": {}}
    if ds["kind"] == "vts":
        p = np.frombuffer(arrays["Points/Coordinates"], dtype=np_dtype(ds["ptype"])).astype("<f8").reshape(ds["npts"], 3)
        out["points"] = {"shape": [ds["npts"], 3], "le": p.tobytes().hex()}
    elif ds["kind"] == "vtr":
        xs, ys, zs = (np.frombuffer(arrays["Coordinates/" + nm], dtype=np_dtype(ds["ptype"])).astype("<f8") for nm in "xyz")
        p = np.array([[x, y, z] for z in zs for y in ys for x in xs], dtype="<f8").reshape(ds["npts"], 3)
        out["points"] = {"shape": [ds["npts"], 3], "le": p.tobytes().hex()}
    for f in ds["pf"]:
        out["pf"][f["name"]] = logical_arr(arrays["PointData/" + f["name"]], f["type"], ds["npts"], f["ncomp"])
    for f in ds["cf"]:
        out["cf"][f["name"] + "@*"] = logical_arr(arrays["CellData/" + f["name"]], f["type"], ds["ncells"], f["ncomp"])
    return out


def structured_view(ds, impl: dict) -> dict:
    """the implementation's observables reduced to what `obs_logical_structured` speaks about"""
    if "error" in impl:
        return impl
    cf = {}
    for k, v in impl["cf"].items():
        name, ct = k.rsplit("@", 1)
        cf[name + "@*" if len(impl["cells"]) == 1 else k] = v
    return {"points": impl.get("points64") if ds["kind"] in ("vts", "vtr") else None, "cells": {}, "pf": impl["pf"], "cf": cf}


def diff_obs(a: dict, b: dict) -> list[str]:
    if "error" in a or "error" in b:
        return ["error"] if a != b else []
    d = []
    if a["points"] != b["points"]:
        d.append("points")
    for sec in ("cells", "pf", "cf"):
        for k in sorted(set(a[sec]) | set(b[sec])):
            if a[sec].get(k) != b[sec].get(k):
                d.append(f"{sec}:{k}")
    return d


def brief(o: dict, keys=None) -> dict:
    if "error" in o:
        return o
    res = {}
    for k in (keys or [])[:4]:
        if k == "points":
            res[k] = o["points"]
        elif ":" in k:
            sec, name = k.split(":", 1)
            res[k] = o[sec].get(name, "<absent>")
    return res


# ------------------------------------------------------------------ one batch of (ds, cfg) cases through the pipeline

class Batch:
    def __init__(self, ctx, tmpdir):
        self.ctx, self.tmp = ctx, tmpdir
        self.codec = CodecTable()
        self.n = 0
        self.raw_files = []          # (cfg key, file content, appendix written) of raw-appended files
        self.raw_cap = ctx.scale(150, 3000)

    # ---- pass 0: cell layout arrays from the spec writer (per data set)
    def layouts(self, dss):
        lines, where = [], []
        for i, ds in enumerate(dss):
            if ds["kind"] == "vtu":
                lines.append(vtuw_line(ds)); where.append(i)
            elif ds["kind"] == "vtp":
                lines.append(vtpw_line(ds)); where.append(i)
        reps = self.ctx.lean(lines) if lines else []
        res = [None] * len(dss)
        for i, r in zip(where, reps):
            res[i] = r
        return res

    def mesh_arrays(self, ds, lay):
        """document-order cell layout arrays + the logical layout / cell-data content"""
        if ds["kind"] == "vtu":
            conn, offs, types = parse_nats(lay["conn"]), parse_nats(lay["offs"]), parse_nats(lay["types"])
            arrs = [{"sec": "Cells", "name": "connectivity", "type": ds["ctype"], "ncomp": 1, "le": pack_ints(conn, ds["ctype"])},
                    {"sec": "Cells", "name": "offsets", "type": ds["otype"], "ncomp": 1, "le": pack_ints(offs, ds["otype"])},
                    {"sec": "Cells", "name": "types", "type": ds["ttype"], "ncomp": 1, "le": pack_ints(types, ds["ttype"])}]
            return arrs
        arrs = []
        if ds["kind"] == "vtp":
            # the flat arrays and the NumberOf… attributes come from the spec writer (Spec.vtpArrays)
            spec_arrs = parse_vtp_arrs(lay["arrs"])
            for s, _, _ in VTP_SECTIONS:
                n, flat, offs = spec_arrs.get(s, (0, [], []))
                if n:
                    arrs.append({"sec": s, "name": "connectivity", "type": ds["ctype"], "ncomp": 1, "le": pack_ints(flat, ds["ctype"])})
                    arrs.append({"sec": s, "name": "offsets", "type": ds["otype"], "ncomp": 1, "le": pack_ints(offs, ds["otype"])})
        return arrs

    def run(self, cases, tags_of=None, on_result=None):
        """cases = [(ds, cfg)]; returns per case dict(result)"""
        ctx = self.ctx
        dss = []
        ds_index = {}
        for ds, _ in cases:
            if id(ds) not in ds_index:
                ds_index[id(ds)] = len(dss); dss.append(ds)
        lays = self.layouts(dss)
        # ---- pass 1: spec writer
        lines, plan = [], []
        per_case = []
        for ci, (ds, cfg) in enumerate(cases):
            lay = lays[ds_index[id(ds)]]
            arrs = base_arrays(ds) + self.mesh_arrays(ds, lay)
            # document order: PointData, CellData, Points, then layout arrays (already so)
            groups = {"inline": [], "appended": [], "ascii": []}
            for ai, a in enumerate(arrs):
                groups[storage_of(cfg, ai)].append(ai)
            info = {"arrs": arrs, "groups": groups, "enc": {}, "asc": {}, "tables": {}}
            for st in ("inline", "appended"):
                if not groups[st]:
                    continue
                b64 = True if st == "inline" else appended_is_b64(cfg)
                toks = ["c05enc", cfg_tokens(cfg, b64), str(len(groups[st]))]
                tbl = {}
                for ai in groups[st]:
                    a = arrs[ai]
                    sz = VTK[a["type"]][1]
                    toks += [str(sz), hx(a["le"])]
                    if cfg["comp"]:
                        fo = to_file_order(a["le"], sz, cfg["bo"])
                        B = cfg["B"]
                        for o in range(0, len(fo), B):
                            blk = fo[o:o + B]
                            tbl[blk] = self.codec.comp(cfg["comp"], blk)
                toks.append(str(len(tbl)))
                for k, v in tbl.items():
                    toks += [hx(k), hx(v)]
                info["tables"][st] = tbl
                plan.append((ci, st)); lines.append(" ".join(toks))
            for ai in groups["ascii"]:
                a = arrs[ai]
                k, sz = VTK[a["type"]]
                lines.append(f"c05ascw {cfg['bo']} {1 if k == 'i' else 0} {sz} {hx(a['le'])}")
                plan.append((ci, ("ascii", ai)))
            per_case.append(info)
        reps = ctx.lean(lines)
        for (ci, what), rep in zip(plan, reps):
            info = per_case[ci]
            if isinstance(what, tuple):
                info["asc"][what[1]] = rep
            else:
                enc = rep.get("enc", "E")
                if enc.startswith("E"):
                    info["enc_error"] = enc
                else:
                    for ai, e in zip(info["groups"][what], enc.split(",")):
                        info["enc"][ai] = unhx(e)
        # ---- wrap into files, pass 2 lines
        lines2, plan2 = [], []
        for ci, (ds, cfg) in enumerate(cases):
            info = per_case[ci]
            if "enc_error" in info:
                continue
            arrs = info["arrs"]
            xmls, appendix, offsets = [], bytearray(), {}
            for ai, a in enumerate(arrs):
                st = storage_of(cfg, ai)
                if st == "ascii":
                    rep = info["asc"][ai]
                    toks = [] if rep["toks"] == "-" else rep["toks"].split(",")
                    k, sz = VTK[a["type"]]
                    text = " ".join(toks) if k != "f" else " ".join(float_text(int(t), sz) for t in toks)
                    xmls.append(data_array_xml(a, st, text, None))
                elif st == "inline":
                    xmls.append(data_array_xml(a, st, info["enc"][ai].decode("ascii"), None))
                else:
                    offsets[ai] = len(appendix)
                    appendix += info["enc"][ai]
                    xmls.append(data_array_xml(a, st, "", offsets[ai]))
            counts = None
            if ds["kind"] == "vtp":
                counts = {sec: n for sec, (n, _, _) in parse_vtp_arrs(lays[ds_index[id(ds)]]["arrs"]).items()}
            head = wrap_file(ds, cfg, arrs, xmls, counts)
            content = finish_file(head, cfg, bytes(appendix) if info["groups"]["appended"] else None)
            self.n += 1
            path = os.path.join(self.tmp, f"c{self.n}.{ds['kind']}")
            with open(path, "wb") as fh:
                fh.write(content)
            info["path"] = path
            info["appendix"] = bytes(appendix)
            if cfg["fmt"] == "appraw" and info["groups"]["appended"] and len(self.raw_files) < self.raw_cap:
                self.raw_files.append((cfg_key(cfg), content, bytes(appendix), cfg.get("hdr") or HDR_DEFAULT))
            # model reader lines
            for st in ("inline", "appended"):
                g = info["groups"][st]
                if not g:
                    continue
                b64 = True if st == "inline" else appended_is_b64(cfg)
                inv = {v: k for k, v in info["tables"][st].items()}
                if st == "inline":
                    datas = [hx(info["enc"][ai]) for ai in g]
                    refs = [f"{j} 0 {VTK[arrs[ai]['type']][1]}" for j, ai in enumerate(g)]
                else:
                    datas = [hx(bytes(appendix))]
                    refs = [f"0 {offsets[ai]} {VTK[arrs[ai]['type']][1]}" for ai in g]
                toks = ["c05read", cfg_tokens(cfg, b64), str(len(datas))] + datas + [str(len(refs))] + refs
                toks.append(str(len(inv)))
                for k, v in inv.items():
                    toks += [hx(k), hx(v)]
                lines2.append(" ".join(toks)); plan2.append((ci, st))
        reps2 = ctx.lean(lines2)
        for (ci, st), rep in zip(plan2, reps2):
            info = per_case[ci]
            vals = rep.get("model", "").split(",")
            for ai, v in zip(info["groups"][st], vals):
                info.setdefault("model", {})[ai] = v
        # ---- compare
        results = []
        for ci, (ds, cfg) in enumerate(cases):
            info = per_case[ci]
            lay = lays[ds_index[id(ds)]]
            res = self.compare(ds, cfg, info, lay, tags_of(ds, cfg) if tags_of else [])
            results.append(res)
            if "path" in info:
                try:
                    os.remove(info["path"])
                except OSError:
                    pass
        return results

    def logical(self, ds, lay):
        """(layout, cds) of the logical data set as [(type-name, rows, idxs)], per cell field [(type-name, rows)]"""
        if ds["kind"] == "vtu":
            layout = [(CELL[t][0], rows, idxs) for t, rows, idxs in parse_layout(lay["spec"])]
            cds = [] if lay["cdspec"] == "-" else [[(CELL[t][0], rows) for t, rows in parse_cd(s)]
                                                   for s in lay["cdspec"].split(",")]
            if not ds["cf"]:
                cds = []
            return layout, cds
        if ds["kind"] == "vtp":
            # Spec.vtpContent / Spec.vtpCellDataContent
            layout = [(VTP_ID_NAME[t], rows, idxs) for t, rows, idxs in parse_layout(lay["spec"])]
            cds = [] if lay["cdspec"] == "-" or not ds["cf"] else \
                [[(VTP_ID_NAME[t], rows) for t, rows in parse_cd(s)] for s in lay["cdspec"].split(",")]
            return layout, cds
        return [], []

    def compare(self, ds, cfg, info, lay, tags):
        ctx = self.ctx
        case = {"ds": ds, "cfg": cfg}
        key = (cfg_key(cfg), repr(sorted((k, str(v)) for k, v in ds.items())))
        if "enc_error" in info:
            ctx.inconsistent({"cfg": cfg, "note": "spec writer refused"}, info["enc_error"], "encoded bytes")
            return {"ok": False}
        arrs = info["arrs"]
        names = [f"{a['sec']}/{a['name']}" for a in arrs]
        logical_bytes = {n: a["le"] for n, a in zip(names, arrs)}
        # model-read bytes per array
        model_bytes, model_ok = {}, True
        for ai, (n, a) in enumerate(zip(names, arrs)):
            if storage_of(cfg, ai) == "ascii":
                mv = info["asc"][ai].get("model", "E")
            else:
                mv = info.get("model", {}).get(ai, "E")
            if not mv.startswith("x"):
                model_ok = False
                ctx.inconsistent({"cfg": cfg, "array": n, "len": len(a["le"])}, mv, "logical bytes")
                continue
            model_bytes[n] = unhx(mv)
            if model_bytes[n] != a["le"]:
                model_ok = False
                ctx.inconsistent({"cfg": cfg, "array": n, "len": len(a["le"])}, mv[:80], hx(a["le"])[:80])
        layout, cds = self.logical(ds, lay)
        if ds["kind"] in ("vtu", "vtp"):
            if lay["model"] != lay["spec"] or lay["cdmodel"] != lay["cdspec"]:
                model_ok = False
                ctx.inconsistent({"cells": ds.get("cells", ds.get("sections"))}, lay["model"], lay["spec"])
        impl = obs_impl(info["path"])
        if ds["kind"] in STRUCTURED:
            expected = obs_logical_structured(ds, logical_bytes)
            impl = structured_view(ds, impl)
        else:
            expected = obs_logical(ds, logical_bytes, layout, cds)
            impl.pop("points64", None)
        d = diff_obs(impl, expected)
        nontrivial = ds["npts"] > 0 or bool(arrs and len(arrs[0]["le"]) > 0)
        ctx.case(key, nontrivial=nontrivial, tags=["file-" + ds["kind"], "cfg-" + re.sub(r"/(mixed|hdr\d)", "", cfg_key(cfg))] +
                 (["appended-header-style-%d" % HDR_STYLES.index(cfg["hdr"])] if cfg.get("hdr") in HDR_STYLES else []) + tags,
                 sample={"cfg": cfg, "kind": ds["kind"], "npts": ds["npts"], "ncells": ncells_of(ds),
                         "arrays": len(arrs), "impl_error": impl.get("error"), "diff": d,
                         "model_ok": model_ok})
        if d:
            cls = raw_tag_class(cfg, info) or appws_class(cfg, info)
            ctx.violation(case, brief(impl, d), brief(expected, d), cls=cls,
                          what=f"read_field_data differs from the logical content of the file in {d[:6]} (cfg {cfg_key(cfg)})"
                               + (f" [class {cls}: {CLASS_TEXT[cls]}]" if cls else ""))
            if model_ok and cls is None:
                ctx.mismatch(case, brief(impl, d), brief(expected, d), what="implementation vs model reader")
        return {"ok": not d, "diff": d, "impl": impl, "expected": expected}


# ------------------------------------------------------------------ finding classes

RAW_TAG_NEEDLES = (b"</AppendedData>", b"<AppendedData")
CLASS_TEXT = {"C05-RAWTAG": "raw appendix contains the bytes </AppendedData> or <AppendedData",
              "C05-APPWS": "base64 appendix with a character other than blank / line break between > and _"}


def appws_class(cfg, info):
    """class predicate of observation C05-APPWS: XML-parsable file (base64 appendix) with a character other than
    blank / line break between `>` and `_`"""
    if cfg["fmt"] == "app64" and info["groups"]["appended"] and cfg.get("hdr") and cfg["hdr"][3].strip(" \n"):
        return "C05-APPWS"
    return None


def raw_tag_class(cfg, info):
    """class predicate of finding C05-RAWTAG (negated hypothesis of C05_raw_appendix_partial): the file has a
    raw-encoded appendix whose bytes contain one of the byte strings the fallback parser searches for"""
    if cfg["fmt"] == "appraw" and info["groups"]["appended"] and any(n in info.get("appendix", b"") for n in RAW_TAG_NEEDLES):
        return "C05-RAWTAG"
    return None


# ------------------------------------------------------------------ case generation

def block_sizes_for(lengths: list[int]) -> list[int]:
    """block sizes that put some array length L on both sides of the block boundary:
    L in {B-1, B, B+1, 2B, 2B+1}"""
    ls = sorted(set(x for x in lengths if x >= 8))
    ev = [x for x in ls if x % 2 == 0]
    od = [x for x in ls if x % 2 == 1]
    L0 = ev[len(ev) // 2] if ev else 8
    L1 = od[len(od) // 2] if od else 15
    return sorted({L0 + 1, L0, L0 - 1, L0 // 2, (L1 - 1) // 2})


def boundary_tags(lengths, cfg):
    tags = set()
    for L in lengths:
        tags.add(f"L%3={L % 3}")
        tags.add(f"(hs+L)%3={(cfg['hs'] + L) % 3}")
        if cfg["comp"]:
            B = cfg["B"]
            for nm, v in (("L=B-1", B - 1), ("L=B", B), ("L=B+1", B + 1), ("L=2B", 2 * B), ("L=2B+1", 2 * B + 1)):
                if L == v:
                    tags.add(nm)
            if L == 0:
                tags.add("L=0-compressed")
            if L > 2 * B + 1:
                tags.add("L>2B+1")
    return sorted(tags)


def array_lengths(ds):
    ls = [len(unhx(f["le"])) for f in ds["pf"] + ds["cf"]]
    ls += [len(unhx(ds["points"]))] if "points" in ds else [len(unhx(c)) for c in ds.get("coords", [])]
    return ls or [0]


def matrix(Bs):
    out = []
    for bo in ("le", "be"):
        out.append({"fmt": "ascii", "comp": None, "B": 0, "hs": 4, "bo": bo, "joint": True})
    for fmt in ("inline", "app64", "appraw"):
        for hs in (4, 8):
            for bo in ("le", "be"):
                for joint in ((True, False) if fmt != "appraw" else (True,)):
                    out.append({"fmt": fmt, "comp": None, "B": 0, "hs": hs, "bo": bo, "joint": joint})
                for comp in CODECS:
                    for B in Bs:
                        out.append({"fmt": fmt, "comp": comp, "B": B, "hs": hs, "bo": bo, "joint": True})
    return out


def random_cfg(rng, narr: int, lengths):
    fmt = rng.choice(["ascii", "inline", "inline", "app64", "app64", "appraw", "appraw"])
    comp = rng.choice([None] + CODECS) if fmt != "ascii" else None
    L = rng.choice(lengths) if lengths else 8
    B = max(1, rng.choice([L - 1, L, L + 1, L // 2, (L - 1) // 2, rng.randint(1, 64), rng.randint(1, 9)]))
    cfg = {"fmt": fmt, "comp": comp, "B": B if comp else 0, "hs": rng.choice([4, 8]), "bo": rng.choice(["le", "be"]),
           "joint": rng.random() < 0.5 if (fmt in ("inline", "app64") and not comp) else True}
    if fmt in ("app64", "appraw") and rng.random() < 0.6:
        cfg["hdr"] = rng.choice(hdr_styles_for(fmt))
    if rng.random() < 0.25 and fmt != "ascii":
        app = "appended"
        cfg["fmts"] = [rng.choice(["ascii", "inline", app]) for _ in range(narr)]
    return cfg


def random_ds(rng, kind):
    n = rng.choice([1, 2, 3, 4, 5, 6, 7, 9, 12])
    k = rng.randint(1, 6)
    plan_p = [(rng.choice(TYPE_NAMES), rng.choice([1, 3, 9])) for _ in range(rng.randint(0, k))]
    plan_c = [(rng.choice(TYPE_NAMES), rng.choice([1, 3, 9])) for _ in range(rng.randint(0, k))]
    it = rng.choice(["Int32", "Int64", "UInt32", "UInt64", "Int16", "UInt8"])
    ot = rng.choice(["Int32", "Int64", "UInt32", "UInt64"])
    pt = rng.choice(["Float32", "Float64"])
    if kind in STRUCTURED:
        cells = rng.choice([(2, 1, 0), (3, 0, 0), (1, 1, 1), (2, 2, 1), (0, 2, 0), (1, 0, 2), (0, 0, 0), (4, 1, 0)])
        if kind == "vts" and cells == (0, 0, 0):
            # a zero-dimensional .vts (one point) raises IndexError in StructuredMesh for EVERY encoding (ascii
            # included): not an encoding matter, outside this property (see NOTES_C05.md, observation O1)
            cells = (1, 0, 0)
        return gen_structured(rng, kind, cells, plan_p, plan_c, ptype=pt)
    if kind == "vtu":
        m = rng.choice([0, 0, 1, 2, 3, 4, 5, 8])
        pool = rng.sample(list(CELL), rng.randint(1, 3))
        types = [rng.choice(pool) for _ in range(m)]
        return gen_vtu(rng, n, types, plan_p, plan_c, ptype=pt, ctype=it, otype=ot,
                       ttype=rng.choice(["UInt8", "UInt8", "Int32", "Int64"]))
    sizes = {}
    for sec, klo, khi in (("Verts", 1, 2), ("Lines", 2, 4), ("Polys", 3, 5), ("Strips", 3, 5)):
        if rng.random() < 0.5:
            sizes[sec] = (rng.randint(1, 3), rng.randint(klo, khi))
    return gen_vtp(rng, n, sizes, plan_p, plan_c, ptype=pt, ctype=it, otype=ot)


# ------------------------------------------------------------------ base64 / encoded_bytes correspondence

def check_base64(ctx):
    from fieldcompare.io.vtk._encoders import Base64Encoder, NoEncoder
    rng = ctx.rng
    alph = b"AQ/=_ \n"
    maxlen = ctx.scale(5, 7)
    strs = [bytes(t) for L in range(maxlen + 1) for t in itertools.product(alph, repeat=L)]
    full = (b"ABCDEFGHIJKLMNOPQRSTUVWXYZabcdefghijklmnopqrstuvwxyz0123456789+/" + b"==\n _-")
    for _ in range(ctx.scale(1500, 40000)):
        strs.append(bytes(rng.choice(full) for _ in range(rng.randint(0, 24))))
    # encode x ++ encode y ++ … (what an appendix looks like), cut at random places
    for _ in range(ctx.scale(500, 10000)):
        s = b"".join(base64.b64encode(bytes(rng.getrandbits(8) for _ in range(rng.randint(0, 7))))
                     for _ in range(rng.randint(1, 4)))
        strs.append(s[:rng.randint(0, len(s))] if rng.random() < 0.3 else s)
    reps = ctx.lean([f"c05b64d {hx(s)}" for s in strs])
    for s, r in zip(strs, reps):
        try:
            impl = hx(Base64Encoder().decode(s))
        except binascii.Error:
            impl = "E"
        ctx.case(("b64d", s), nontrivial=len(s) > 0, tags=["b64-decode"])
        if r.get("model") != impl:
            ctx.mismatch({"op": "b64decode", "input": s.hex()}, impl, r.get("model"),
                         what="Base64Encoder.decode vs Fc.b64decodeLenient")
    datas = [bytes(rng.getrandbits(8) for _ in range(L)) for L in list(range(0, 40)) * ctx.scale(3, 30)]
    reps = ctx.lean([f"c05b64e {hx(s)}" for s in datas])
    for s, r in zip(datas, reps):
        impl = hx(Base64Encoder().encode(s))
        ctx.case(("b64e", s), nontrivial=len(s) > 0, tags=["b64-encode"])
        if r.get("model") != impl:
            ctx.mismatch({"op": "b64encode", "input": s.hex()}, impl, r.get("model"),
                         what="Base64Encoder.encode vs Fc.b64encode")
    ns = list(range(0, ctx.scale(400, 5000))) + [2 ** 31 - 1, 2 ** 32, 2 ** 32 + 1, 2 ** 40 + 2]
    reps = ctx.lean([f"c05encb {n}" for n in ns])
    for n, r in zip(ns, reps):
        impl = (int(Base64Encoder().encoded_bytes(n)), int(NoEncoder().encoded_bytes(n)))
        want = (4 * ((n + 2) // 3), n)    # the length of the base64 text of n bytes
        ctx.case(("encb", n), nontrivial=n > 0, tags=["encoded_bytes"])
        if (int(r.get("b64", -1)), int(r.get("raw", -1))) != impl:
            ctx.mismatch({"op": "encoded_bytes", "n": n}, impl, (r.get("b64"), r.get("raw")),
                         what="encoded_bytes vs translated expression")
        if impl != want:
            ctx.violation({"op": "encoded_bytes", "n": n}, impl, want, cls=None,
                          what="encoded_bytes(n) is not the encoded length of n bytes")
        if n < 400 and len(base64.b64encode(bytes(n))) != want[0]:
            ctx.inconsistent({"op": "encoded_bytes", "n": n}, want[0], len(base64.b64encode(bytes(n))))


# ------------------------------------------------------------------ shipped files: implementation vs model reader

def split_raw_appended(content: bytes):
    """independent of the implementation: LAST closing tag, first '_' behind the opening tag"""
    a = content.find(b"<AppendedData")
    if a < 0:
        return None
    gt = content.find(b">", a)
    us = content.find(b"_", gt)
    end = content.rfind(b"</AppendedData>")
    head = content[:a] + b"</VTKFile>"
    m = content[a:gt + 1]
    encn = "raw" if b'"raw"' in m else "base64"
    return head, content[us + 1:end], encn


def extract_file(path: str):
    """(root, appendix bytes | None, appendix is base64)"""
    content = open(path, "rb").read()
    try:
        root = ElementTree.fromstring(content)
        app = root.find("AppendedData")
        if app is None:
            return root, None, True
        text = (app.text or "").strip()
        if text.startswith("_"):
            text = text[1:]
        return root, text.strip().encode("ascii"), app.attrib.get("encoding", "base64") == "base64"
    except ElementTree.ParseError:
        sp = split_raw_appended(content)
        if sp is None:
            raise
        head, appx, encn = sp
        return ElementTree.fromstring(head), appx, encn == "base64"


def model_read_elements(ctx, root, appendix, app_b64, elements):
    """model reading of the given <DataArray> elements -> list of LE bytes | None (model error)"""
    hs = VTK[root.attrib.get("header_type", "UInt32")][1]
    bo = "le" if root.attrib.get("byte_order") == "LittleEndian" else "be"
    codec = ATTR_COMPRESSOR.get(root.attrib.get("compressor")) if root.attrib.get("compressor") else None
    out = [None] * len(elements)
    lines, where = [], []
    for i, e in enumerate(elements):
        k, sz = VTK[e.attrib["type"]]
        fmt = e.attrib["format"]
        if fmt == "ascii":
            toks = (e.text or "").split()
            if k == "f":
                vals = np.array([float(t) for t in toks], dtype=np.float64).astype(np_dtype(e.attrib["type"]))
                ints = np.frombuffer(vals.tobytes(), dtype=f"<u{sz}").tolist()
            else:
                ints = [int(t) for t in toks]
            lines.append(f"c05ascr {bo} {sz} {len(ints)} " + " ".join(str(v) for v in ints)); where.append((i, "asc"))
        else:
            b64 = True if fmt == "binary" else app_b64
            data = (e.text or "").strip().encode("ascii") if fmt == "binary" else appendix
            off = 0 if fmt == "binary" else int(e.attrib["offset"].strip())
            cfgt = f"{hs} {bo} {1 if b64 else 0} {1 if codec else 0} 1 0"
            where.append((i, (cfgt, data, off, sz)))
            lines.append(f"c05blk {cfgt} 1 {hx(data[off:])} 1 0 0" if codec else "c05encb 0")
    reps = ctx.lean(lines) if lines else []
    lines2, where2 = [], []
    for (i, w), r in zip(where, reps):
        if w == "asc":
            out[i] = unhx(r["model"]) if r.get("model", "E").startswith("x") else None
            continue
        cfgt, data, off, sz = w
        tbl = {}
        if codec:
            b = r.get("blocks", "E")
            if b.startswith("E"):
                continue
            rbs, sl = b.split(":", 1)
            for s in sl.split(";") if sl else []:
                blk = unhx(s)
                try:
                    tbl[blk] = decompress(codec, blk, int(rbs))
                except Exception:  # noqa: BLE001  the codec refuses: the model gets no table entry -> E
                    pass
        toks = ["c05read", cfgt, "1", hx(data[off:]), "1", f"0 0 {sz}", str(len(tbl))]
        for k2, v2 in tbl.items():
            toks += [hx(k2), hx(v2)]
        lines2.append(" ".join(toks)); where2.append(i)
    reps2 = ctx.lean(lines2) if lines2 else []
    for i, r in zip(where2, reps2):
        mv = r.get("model", "E")
        out[i] = unhx(mv) if mv.startswith("x") else None
    return out


def check_shipped(ctx):
    d = os.path.join(core.REPO, "test", "vtkfiles")
    if not os.path.isdir(d):
        ctx.notes.append("shipped files not found")
        return
    names = sorted(f for f in os.listdir(d) if os.path.splitext(f)[1] in (".vtu", ".vtp", ".vti", ".vtr", ".vts"))
    for name in names:
        path = os.path.join(d, name)
        ext = os.path.splitext(name)[1]
        try:
            root, appendix, app_b64 = extract_file(path)
        except Exception as e:  # noqa: BLE001
            ctx.notes.append(f"shipped file {name}: harness extraction failed ({type(e).__name__})")
            continue
        grid = root[0]
        piece = grid.find("Piece")
        if piece is None:
            continue
        pd = list(piece.find("PointData")) if piece.find("PointData") is not None else []
        cd = list(piece.find("CellData")) if piece.find("CellData") is not None else []
        mesh_elems = []
        if ext == ".vtu":
            cells = {e.attrib["Name"]: e for e in piece.find("Cells")}
            mesh_elems = [piece.find("Points/DataArray"), cells["connectivity"], cells["offsets"], cells["types"]]
        elif ext == ".vtp":
            mesh_elems = [piece.find("Points/DataArray")]
            for s, _, attr in VTP_SECTIONS:
                se = piece.find(s)
                if se is not None and len(se) and int(piece.attrib.get(attr, "0")) > 0:
                    sd = {e.attrib["Name"]: e for e in se if e.tag == "DataArray"}
                    if "connectivity" in sd:
                        mesh_elems += [sd["connectivity"], sd["offsets"]]
        elems = pd + cd + mesh_elems
        mread = model_read_elements(ctx, root, appendix, app_b64, elems)
        impl = obs_impl(path)
        fmt_tag = "/".join(sorted({e.attrib["format"] for e in elems})) + ("/" + root.attrib.get("compressor", "none"))
        ctx.case(("shipped", name), nontrivial=True, tags=["shipped" + ext, "shipped-" + fmt_tag])
        if "error" in impl:
            ctx.mismatch({"shipped": name}, impl, "readable", what="shipped file unreadable by the implementation")
            continue
        if any(m is None for m in mread):
            ctx.mismatch({"shipped": name}, "read ok", "model error on " +
                         str([e.attrib.get("Name") for e, m in zip(elems, mread) if m is None]),
                         what="shipped file: model reader fails")
            continue
        # assemble model observables
        def marr(e, m, nrows=None):
            nc = int(e.attrib.get("NumberOfComponents", 1))
            sz = VTK[e.attrib["type"]][1]
            n = len(m) // sz // max(nc, 1) if nrows is None else nrows
            return logical_arr(m, e.attrib["type"], n, nc)
        model = {"pf": {e.attrib["Name"]: marr(e, m) for e, m in zip(pd, mread[:len(pd)])}}
        cdm = mread[len(pd):len(pd) + len(cd)]
        mm = mread[len(pd) + len(cd):]
        diffs = []
        for k, v in model["pf"].items():
            if impl["pf"].get(k) != v:
                diffs.append("pf:" + k)
        def ints(e, m):
            return np.frombuffer(m, dtype=np_dtype(e.attrib["type"])).tolist()
        if ext == ".vtu":
            pts = marr(mesh_elems[0], mm[0])
            pts["shape"] = [pts["shape"][0] * (pts["shape"][1] if len(pts["shape"]) > 1 else 1) // 3, 3]
            if impl["points"] != pts:
                diffs.append("points")
            conn, offs, types = (ints(e, m) for e, m in zip(mesh_elems[1:], mm[1:]))
            toks = ["c05vtu", str(len(conn))] + [str(i) for i in conn] + [str(len(offs))] + [str(i) for i in offs] + \
                   [str(len(types))] + [str(i) for i in types] + [str(len(cd))]
            for e, m in zip(cd, cdm):
                rows = rows_of(m, len(types))
                toks += [str(len(rows))] + [hx(r) for r in rows]
            r = ctx.lean([" ".join(toks)])[0]
            if r.get("model", "E") == "E":
                diffs.append("layout-model-error")
            else:
                from fieldcompare.mesh._cell_type_maps import _CELL_TYPE_INDEX_TO_STR as I2S
                lay = {I2S[t]: rows for t, rows, _ in parse_layout(r["model"])}
                if lay != impl["cells"]:
                    diffs.append("cells")
                cds = [] if r["cd"] == "-" else r["cd"].split(",")
                for e, s in zip(cd, cds):
                    for t, rows in parse_cd(s):
                        want = logical_arr(b"".join(rows), e.attrib["type"], len(rows), int(e.attrib.get("NumberOfComponents", 1)))
                        if impl["cf"].get(e.attrib["Name"] + "@" + I2S[t]) != want:
                            diffs.append("cf:" + e.attrib["Name"] + "@" + I2S[t])
        elif ext == ".vtp":
            pts = marr(mesh_elems[0], mm[0])
            pts["shape"] = [pts["shape"][0] * (pts["shape"][1] if len(pts["shape"]) > 1 else 1) // 3, 3]
            if impl["points"] != pts:
                diffs.append("points")
            # the whole of VTPReader._make_mesh through Fc.vtpLayout: count attributes + per-section arrays
            j, toks, total = 1, ["c05vtpl", str(len(VTP_SECTIONS))], 0
            for s, tn, attr in VTP_SECTIONS:
                cnt = int(piece.attrib.get(attr, "0"))
                conn, offs = [], []
                if cnt > 0:
                    conn, offs = ints(mesh_elems[j], mm[j]), ints(mesh_elems[j + 1], mm[j + 1])
                    j += 2
                total += cnt
                toks += [str(VTP_TYPE_ID[s]), str(cnt), str(len(conn))] + [str(i) for i in conn] + \
                        [str(len(offs))] + [str(i) for i in offs]
            toks.append(str(len(cd)))
            for e, m in zip(cd, cdm):
                rows = rows_of(m, total)
                toks += [str(len(rows))] + [hx(r_) for r_ in rows]
            r = ctx.lean([" ".join(toks)])[0]
            lay = {VTP_ID_NAME[t]: rows for t, rows, _ in parse_layout(r.get("model", "-"))}
            if lay != impl["cells"]:
                diffs.append("cells")
            cds = [] if r.get("cd", "-") == "-" else r["cd"].split(",")
            for e, s_ in zip(cd, cds):
                if s_ == "E":
                    diffs.append("cf-model-error:" + e.attrib["Name"])
                    continue
                for t, rows in parse_cd(s_):
                    want = logical_arr(b"".join(rows), e.attrib["type"], len(rows), int(e.attrib.get("NumberOfComponents", 1)))
                    if impl["cf"].get(e.attrib["Name"] + "@" + VTP_ID_NAME[t]) != want:
                        diffs.append("cf:" + e.attrib["Name"] + "@" + VTP_ID_NAME[t])
        else:
            # structured: one cell type, identity index map
            for e, m in zip(cd, cdm):
                got = [v for k, v in impl["cf"].items() if k.startswith(e.attrib["Name"] + "@")]
                if len(got) != 1 or got[0] != marr(e, m):
                    diffs.append("cf:" + e.attrib["Name"])
        if diffs:
            ctx.mismatch({"shipped": name}, "implementation", "model reader differs in " + str(diffs[:8]),
                         what="shipped file: implementation vs model reader")


# ------------------------------------------------------------------ fallback parser: implementation vs model

_PROBE = {}


def _probe_class():
    """a minimal concrete VTKXMLReader: only its constructor (XML parse, fallback branch) is used"""
    if "cls" not in _PROBE:
        from fieldcompare.io.vtk._xml_reader import VTKXMLReader

        class Probe(VTKXMLReader):
            def _make_mesh(self):
                raise NotImplementedError

            def _get_field_data_path(self):
                return "UnstructuredGrid/Piece"
        _PROBE["cls"] = Probe
    return _PROBE["cls"]


def impl_fallback(content: bytes, tmpdir=None):
    """what the fallback branch of VTKXMLReader.__init__ extracts.  Preferably observed on the real constructor
    (file that ElementTree rejects and whose head is XML); otherwise the two helper functions are called the way
    the constructor calls them."""
    from fieldcompare.io.vtk._xml_reader import _find_appendix_positions, _determine_encoding
    if tmpdir is not None:
        try:
            ElementTree.fromstring(content)
            rejected = False
        except ElementTree.ParseError:
            rejected = True
        if rejected:
            path = os.path.join(tmpdir, "probe.vtu")
            with open(path, "wb") as fh:
                fh.write(content)
            try:
                rd = _probe_class()(path)
                app = rd._appendix
                impl_fallback.via_constructor += 1
                return hx(app._content), hx(str(app._encoding).encode("ascii", "replace"))
            except Exception:  # noqa: BLE001  head is not XML / the helpers raise: observe the helpers directly
                pass
    try:
        b, e = _find_appendix_positions(content)
        return hx(content[b:e]), hx(_determine_encoding(content[b - 100:]).encode("ascii", "replace"))
    except Exception:  # noqa: BLE001
        return "E", "-"


impl_fallback.via_constructor = 0


def check_fallback(ctx, files, tmpdir=None):
    """files = [(tag, content, appendix written by the harness | None)]"""
    reps = ctx.lean([f"c05fallback {hx(c)}" for _, c, _ in files])
    for (tag, content, app), r in zip(files, reps):
        impl = impl_fallback(content, tmpdir)
        model = (r.get("model", "?"), r.get("enc", "?"))
        # the slice includes the line break the harness puts in front of the closing tag
        intact = impl[1] == hx(b"raw") and (app is None or impl[0] == hx(app + b"\n"))
        ctx.case(("fallback", content), nontrivial=True,
                 tags=["fallback-parser", "fallback-" + ("intact" if intact else "error" if impl[0] == "E" else "cut")])
        if impl != model:
            ctx.mismatch({"op": "fallback", "file": tag, "content": content.hex()}, impl, model,
                         what="_find_appendix_positions/_determine_encoding vs Fc.fallbackAppendix")


RAW_TAIL = b"\n</AppendedData>\n</VTKFile>\n"


def rawfile_line(parts) -> str:
    return "c05rawfile " + " ".join(hx(parts[k]) for k in ("pre", "a1", "a2", "enc", "a3", "ws", "appendix", "post"))


def rawfile_content(parts) -> bytes:
    """harness-side copy of Spec.RawFile.content (compared with the driver's on every file)"""
    return (parts["pre"] + b"<AppendedData" + parts["a1"] + b"encoding" + parts["a2"] + b'"' + parts["enc"] + b'"' +
            parts["a3"] + b">" + parts["ws"] + b"_" + parts["appendix"] + b"</AppendedData>" + parts["post"])


def decompose_generated(content: bytes, appendix: bytes, hdr):
    """the pieces of a raw-appended file written by `finish_file` (Spec.RawFile)"""
    a1, a2, a3, ws = (x.encode() for x in hdr)
    mid = b"<AppendedData" + a1 + b"encoding" + a2 + b'"raw"' + a3 + b">" + ws + b"_"
    n = len(content) - len(mid) - len(appendix) - len(RAW_TAIL)
    parts = {"pre": content[:n], "a1": a1, "a2": a2, "enc": b"raw", "a3": a3, "ws": ws,
             "appendix": appendix + b"\n", "post": b"\n</VTKFile>\n"}
    return parts if n >= 0 and rawfile_content(parts) == content else None


def synthetic_rawfiles(rng, count: int):
    """raw-file decompositions in varying legal and illegal styles (only the fallback parser sees them)"""
    out = []
    filler = b'<?xml version="1.0"?>\n<VTKFile type="UnstructuredGrid" version="1.0" byte_order="LittleEndian">\n' \
             b'<UnstructuredGrid><Piece NumberOfPoints="4" NumberOfCells="1">\n<PointData>\n' \
             b'<DataArray type="Float64" Name="p_1" format="appended" offset="0"/>\n</PointData>\n</Piece></UnstructuredGrid>\n'
    xml_head = b'<?xml version="1.0"?>\n<VTKFile type="UnstructuredGrid">\n'
    for _ in range(count):
        if rng.random() < 0.5:
            # a well-formed head (so that the real constructor gets through), total length around the 100-byte mark
            pad = rng.choice([0, 1, 5, 10, 11, 12, 13, 14, 30, 40, 41, 42, 43, 44, 80, 200])
            pre = xml_head + b"<!--" + b"x" * pad + b"-->\n<UnstructuredGrid></UnstructuredGrid>\n"
        else:
            pre = filler[:rng.choice([0, 30, 60, 68, 69, 70, 99, 100, 101, len(filler)])]
        if rng.random() < 0.1:
            pre += rng.choice([b"<!-- <AppendedData -->", b"<!-- </AppendedData> -->", b"<AppendedDat", b"</AppendedData"])
        parts = {"pre": pre,
                 "a1": rng.choice([b" ", b" ", b"\n", b"  ", b' foo="bar" ', b' a_b="_" ', b' encodin="x" ', b' a="encoding" ']),
                 "a2": rng.choice([b"=", b"=", b" = ", b"= "]),
                 "enc": rng.choice([b"raw", b"raw", b"base64", b"binary", b""]),
                 "a3": rng.choice([b"", b"", b" ", b' x="1"', b" " * 70]),
                 "ws": rng.choice([b"", b"\n", b"\n", b"\n  ", b" \t", b"<", b"_"]),
                 "post": rng.choice([b"\n</VTKFile>\n", b"\n</VTKFile>\n", b"</VTKFile>", b"", b"\n<AppendedData/>\n</VTKFile>"])}
        r = rng.random()
        body = bytes(rng.getrandbits(8) for _ in range(rng.randint(0, 24)))
        if r < 0.12:
            body += rng.choice(RAW_TAG_NEEDLES) + bytes(rng.getrandbits(8) for _ in range(3))
        elif r < 0.4:
            body += rng.choice([b"_", b"<", b">", b'"', b"encoding", b"</AppendedData", b"<AppendedDat", b"<<AppendedDat",
                                b"</Appended</AppendedData"]) + bytes(rng.getrandbits(8) for _ in range(3))
        parts["appendix"] = body
        out.append(parts)
    return out


def check_rawfiles(ctx, items, tmpdir=None):
    """items = [(tag, parts)]: the file-level theorem C05_fallback_appendix at run time.
    Inside HeadOk ∧ AppendixOk: model = spec (theorem; `inconsistent` otherwise) and implementation = spec;
    everywhere: implementation = model (correspondence)."""
    reps = ctx.lean([rawfile_line(p_) for _, p_ in items])
    for (tag, parts), r in zip(items, reps):
        content = rawfile_content(parts)
        if r.get("content") != hx(content):
            ctx.inconsistent({"op": "rawfile", "file": tag}, r.get("content", "?")[:80], hx(content)[:80])
            continue
        hyp = r.get("head") == "1" and r.get("app") == "1"
        model = (r.get("model", "?"), r.get("enc", "?"))
        spec = (r.get("spec", "?"), r.get("specenc", "?"))
        impl = impl_fallback(content, tmpdir)
        has_needle = any(n in parts["appendix"] for n in RAW_TAG_NEEDLES)
        ctx.case(("rawfile", content), nontrivial=True,
                 tags=["rawfile-" + tag.split(":")[0], "rawfile-hyp-" + ("in" if hyp else "out"),
                       "rawfile-head" + r.get("head", "?") + "-app" + r.get("app", "?")])
        if (r.get("app") == "0") != has_needle:
            ctx.inconsistent({"op": "rawfile-class", "file": tag, "appendix": parts["appendix"].hex()},
                             f"AppendixOk={r.get('app')}", f"needle in appendix={has_needle}")
        if hyp and model != spec:
            ctx.inconsistent({"op": "rawfile", "file": tag, "content": content.hex()}, model, spec)
        if impl != model:
            ctx.mismatch({"op": "rawfile", "file": tag, "content": content.hex()}, impl, model,
                         what="_find_appendix_positions/_determine_encoding vs Fc.fallbackAppendix")
        elif hyp and impl != spec:
            ctx.violation({"op": "rawfile", "file": tag, "content": content.hex()}, impl, spec, cls=None,
                          what="fallback parser does not return the appendix of a well-formed raw file")


def check_numpy_text_parser(ctx):
    """assumption behind Fc.asciiItemsWith: np.fromstring(text, dtype, sep=' ') stores native bytes whatever
    byte order the dtype requests (so a byte-order qualified dtype reads ascii items swapped)"""
    rng = ctx.rng
    lines, want = [], []
    for tname, (k, sz) in VTK.items():
        if k == "f":
            continue
        for bo in ("le", "be"):
            for uses in (0, 1):
                bits = 8 * sz
                vals = [rng.getrandbits(bits) - ((1 << (bits - 1)) if k == "i" else 0) for _ in range(4)] + [0, 1]
                dt = np_dtype(tname, {"le": "<", "be": ">"}[bo]) if uses else np_dtype(tname, "=")
                with warnings.catch_warnings():
                    warnings.simplefilter("ignore")
                    v = np.fromstring(" ".join(str(x) for x in vals), dtype=dt, sep=" ")
                want.append(hx(v.astype(v.dtype.newbyteorder("<")).tobytes()))
                lines.append(f"c05ascx {uses} {bo} {sz} {len(vals)} " + " ".join(str(x) for x in vals))
    for ln, w, r in zip(lines, want, ctx.lean(lines)):
        ctx.case(("numpy-text", ln), nontrivial=True, tags=["numpy-text-parser"])
        if r.get("model") != w:
            ctx.mismatch({"op": "numpy-text-parser", "line": ln}, w, r.get("model"),
                         what="np.fromstring with a (non-)native dtype vs Fc.asciiItemsWith")


# ------------------------------------------------------------------ adversarial: raw-appended fallback parser

def adversarial_cases(rng):
    """raw-appended files whose binary payload contains byte strings the fallback parser searches for"""
    out = []
    for needle in (b"</AppendedData>", b"<AppendedData", b"_", b"</VTKFile>", b'encoding="base64"', b"<a>", b">>><<<"):
        for pos in ("first", "last"):
            n = len(needle) + 3
            payload = bytes(rng.getrandbits(8) for _ in range(2)) + needle + b"\x01"
            other = bytes(rng.getrandbits(8) for _ in range(n))
            pf = [{"name": "needle", "type": "UInt8", "ncomp": 1, "le": hx(payload)},
                  {"name": "other", "type": "UInt8", "ncomp": 1, "le": hx(other)}]
            if pos == "last":
                pf.reverse()
            ds = {"kind": "vtu", "npts": n, "ptype": "Float32", "points": hx(gen_points(rng, n, "Float32")),
                  "cells": [[1, [0]], [3, [0, 1]]], "ctype": "Int32", "otype": "Int32", "ttype": "UInt8",
                  "pf": pf, "cf": []}
            cfg = {"fmt": "appraw", "comp": None, "B": 0, "hs": 4, "bo": "le", "joint": True}
            out.append((ds, cfg, needle.decode()))
    return out


# ------------------------------------------------------------------ shrinking

def shrink_case(batch, case, diff):
    """keep only the fields named in the difference (plus the mesh) if the file still reads differently"""
    ds, cfg = case["ds"], case["cfg"]
    if cfg.get("fmts"):
        return case
    names = {d.split(":", 1)[1].split("@")[0] for d in diff if d.startswith(("pf:", "cf:"))}
    cands = [dict(ds, pf=[], cf=[]),
             dict(ds, pf=[f for f in ds["pf"] if f["name"] in names][:1], cf=[f for f in ds["cf"] if f["name"] in names][:1]),
             dict(ds, pf=ds["pf"][:1], cf=[]), dict(ds, pf=[], cf=ds["cf"][:1])]
    ctx = batch.ctx
    for ds2 in cands:
        if len(ds2["pf"]) + len(ds2["cf"]) >= len(ds["pf"]) + len(ds["cf"]):
            continue
        before = (len(ctx.spec_viol), len(ctx.corr_mismatch), len(ctx.internal), ctx.evaluations)
        res = batch.run([(ds2, cfg)])[0]
        del ctx.spec_viol[before[0]:], ctx.corr_mismatch[before[1]:], ctx.internal[before[2]:]
        ctx.evaluations = before[3]
        if not res.get("ok", True):
            return {"ds": ds2, "cfg": cfg}
    return case


# ------------------------------------------------------------------ phase 6 (G1/io): directed batch beyond the driver's reach
# Python-side writer `fcv.vtkxml_p6g1i` (search, not correspondence; its payload encoder is cross-checked against the
# Lean spec writer `c05enc` on small arrays): arrays of > 65536 items, compression blocks of VTK's default size and
# many blocks per array, block sizes that are no multiple of the item size at realistic lengths, appended arrays
# stored in an order different from the document order of their <DataArray> elements, other legal text layouts
# (indentation, one value per line / six per line, exponent spelling, attribute order, RangeMin/RangeMax), and
# reader state (two files read alternately, one path re-written with new content).
# FCV_P6G_OFF=1 switches the batch off (used to show that a mutant is seen by this batch only).
P6G_OFF = os.environ.get("FCV_P6G_OFF") == "1"
P6_SMALL = {"vtu": {"npts": 9, "ncells": 7, "types": [5, 9, 5, 3, 1, 10]},
            "vtp": {"npts": 8, "Verts": [2, 1], "Lines": [3, 2], "Polys": [2, 4], "Strips": [1, 5]},
            "vti": {"cells": [2, 1, 0], "lo": [1, 0, -2]}, "vtr": {"cells": [2, 0, 3]}, "vts": {"cells": [1, 2, 1]}}
P6_LARGE = {"vtu": {"npts": 70001, "ncells": 23000, "types": [5, 9, 5, 3, 1, 10]},
            "vtp": {"npts": 66000, "Verts": [66000, 1], "Lines": [1000, 2]},
            "vti": {"cells": [40, 40, 40]}, "vtr": {"cells": [260, 260, 0]}, "vts": {"cells": [70000, 0, 0]}}
P6_FIELDS = [["P", "pa", "Float64", 3, 1], ["P", "pb", "UInt8", 1, 2], ["C", "ca", "Int16", 9, 3], ["C", "cb", "Float32", 1, 4],
             ["P", "pc", "UInt64", 1, 5], ["C", "cc", "Int8", 3, 6]]
P6_LARGE_CFGS = [{"fmt": "appraw", "comp": "zlib", "B": 32768, "hs": 8, "bo": "le"},
                 {"fmt": "app64", "comp": "lz4" if HAVE_LZ4 else "zlib", "B": 65536, "hs": 4, "bo": "be"},
                 {"fmt": "inline", "comp": None, "B": 0, "hs": 4, "bo": "be"},
                 {"fmt": "inline", "comp": "lzma", "B": 100003, "hs": 8, "bo": "le"},
                 {"fmt": "ascii", "comp": None, "B": 0, "hs": 4, "bo": "le"},
                 {"fmt": "app64", "comp": None, "B": 0, "hs": 8, "bo": "le"},
                 {"fmt": "appraw", "comp": None, "B": 0, "hs": 4, "bo": "be"}]


def p6_eval(case, tmp, name="p6"):
    """write the file of `case`, read it -> (differences, implementation observables, expected observables)"""
    from fcv import vtkxml_p6g1i as W
    ds = W.build(case)
    path = os.path.join(tmp, f"{name}.{case['kind']}")
    with open(path, "wb") as fh:
        fh.write(W.file_content(case, ds))
    try:
        impl = obs_impl(path)
    finally:
        os.remove(path)
    exp = W.expected(case, ds)
    if case["kind"] in STRUCTURED:
        impl = structured_view({"kind": case["kind"]}, impl)
    else:
        impl.pop("points64", None)
    return diff_obs(impl, exp), impl, exp


def p6_shrink(case, tmp):
    """smaller mesh / fewer fields while the file still reads differently"""
    def bad(c):
        try:
            return bool(p6_eval(c, tmp, "p6s")[0])
        except Exception:  # noqa: BLE001
            return False
    cur = case
    for _ in range(12):
        cands = []
        m = cur["mesh"]
        if cur["kind"] == "vtu" and m["npts"] > 9:
            cands.append(dict(cur, mesh=dict(m, npts=max(9, m["npts"] // 4), ncells=max(7, m["ncells"] // 4))))
        elif cur["kind"] == "vtp" and m["npts"] > 8:
            cands.append(dict(cur, mesh={k: ([max(1, v[0] // 4), v[1]] if isinstance(v, list) else max(8, v // 4)) for k, v in m.items()}))
        elif cur["kind"] in STRUCTURED and max(m["cells"]) > 3:
            cands.append(dict(cur, mesh=dict(m, cells=[c if c <= 3 else max(3, c // 4) for c in m["cells"]])))
        if len(cur["fields"]) > 1:
            cands.append(dict(cur, fields=cur["fields"][:len(cur["fields"]) // 2]))
            cands.append(dict(cur, fields=cur["fields"][len(cur["fields"]) // 2:]))
        for c in cands:
            if bad(c):
                cur = c
                break
        else:
            break
    return cur


def p6_report(ctx, case, d, impl, exp, tmp, what):
    small = p6_shrink(case, tmp)
    if small is not case:
        d2, impl2, exp2 = p6_eval(small, tmp, "p6s")
        if d2:
            case, d, impl, exp = small, d2, impl2, exp2
    ctx.violation(dict(case, op="p6g1i"), brief(impl, d), brief(exp, d),
                  what=f"{what}: read_field_data differs from the logical content of the file in {d[:6]} "
                       f"(cfg {cfg_key(dict(case['cfg'], joint=case['cfg'].get('joint', True)))}, opts {case.get('opts')})")


def p6_cases(ctx):
    """[(case, tags)] of the directed batch"""
    from fcv import vtkxml_p6g1i as W
    rng = ctx.rng
    out = []

    def cfg(fmt, comp=None, B=0, hs=4, bo="le", joint=True):
        return {"fmt": fmt, "comp": comp, "B": B, "hs": hs, "bo": bo, "joint": joint}
    # A. appended arrays stored in an order different from the document order (offsets are explicit attributes)
    i = 0
    for kind in P6_SMALL:
        for fmt in ("app64", "appraw"):
            for comp in (None, CODECS[(i // 3) % len(CODECS)]):
                for order in ("reverse", "rot", "evenodd"):
                    i += 1
                    c = cfg(fmt, comp, B=[7, 16, 5][i % 3], hs=(4, 8)[i % 2], bo=("le", "be")[(i // 2) % 2])
                    out.append(({"kind": kind, "mesh": P6_SMALL[kind], "fields": P6_FIELDS, "cfg": c,
                                 "opts": {"app_order": order, "attrs": i % 3, "idx": [["Int32", "UInt32", "UInt8"], ["Int64", "Int64", "UInt8"],
                                                                                      ["UInt16", "Int32", "Int64"]][i % 3]}},
                                ["p6-appended-order-" + order]))
    # B. other legal text layouts of ascii / inline data and of the <DataArray> attributes
    for kind in P6_SMALL:
        for ws in range(5):
            for sp in ("repr", "exp"):
                i += 1
                out.append(({"kind": kind, "mesh": P6_SMALL[kind], "fields": P6_FIELDS, "cfg": cfg("ascii", bo=("le", "be")[i % 2]),
                             "opts": {"ws": ws, "fspell": sp, "attrs": i % 3}},
                            [f"p6-ascii-layout-{ws}", "p6-ascii-floats-" + sp, f"p6-attr-style-{i % 3}"]))
        for ws in range(3):
            for attrs in range(3):
                i += 1
                c = cfg("inline", (None, CODECS[i % len(CODECS)])[i % 2], B=11, hs=(4, 8)[i % 2], bo=("le", "be")[(i // 2) % 2],
                        joint=bool(i % 3))
                out.append(({"kind": kind, "mesh": P6_SMALL[kind], "fields": P6_FIELDS, "cfg": c, "opts": {"ws": ws, "attrs": attrs}},
                            [f"p6-inline-layout-{ws}", f"p6-attr-style-{attrs}"]))
    # C. > 1000 items per array, many (> 16) compression blocks, block size with and without the item size as a factor,
    #    all ten types x scalar / vector / tensor, big endian
    fields = [["P" if (k + j) % 2 else "C", f"f{k}_{nc}", t, nc, 20 + 3 * k + j] for k, t in enumerate(TYPE_NAMES)
              for j, nc in enumerate((1, 3, 9))]
    combos = [(codec, B) for codec in CODECS for B in (4096, 1001)]
    for j, (codec, B) in enumerate(combos):
        for bo in (("be",) if ctx.tier == "quick" else ("be", "le")):
            fmt = ("inline", "app64", "appraw")[j % 3]
            kind = ("vtu", "vtp", "vts", "vtu", "vti", "vtr")[j % 6]
            mesh = {"vtu": {"npts": 1500, "ncells": 1100, "types": [10, 12, 10, 14, 13]}, "vtp": {"npts": 1200, "Polys": [1300, 3], "Strips": [40, 4]},
                    "vts": {"cells": [11, 10, 9]}, "vti": {"cells": [35, 34, 0]}, "vtr": {"cells": [0, 1100, 0]}}[kind]
            out.append(({"kind": kind, "mesh": mesh, "fields": fields, "cfg": cfg(fmt, codec, B, hs=(8, 4)[j % 2], bo=bo),
                         "opts": {"app_order": ("doc", "reverse")[j % 2]}},
                        ["p6-items>1000", "p6-blocks>16", "p6-block-size-%s-multiple-of-item" % ("a" if B % 8 == 0 else "no")]))
    # D. > 65536 items, blocks of VTK's default size (32768) and larger, every file type
    lf = [["P", "pa", "Float64", 3, 1], ["C", "ca", "UInt8", 1, 3], ["P", "pb", "Int16", 1, 4]]
    kinds = list(P6_LARGE)
    if ctx.tier == "quick":
        s = rng.randrange(len(P6_LARGE_CFGS))
        sel = [(kinds[k], P6_LARGE_CFGS[(s + k) % len(P6_LARGE_CFGS)]) for k in range(len(kinds))]
        sel += [("vtu", P6_LARGE_CFGS[(s + 5) % len(P6_LARGE_CFGS)]), ("vtu", P6_LARGE_CFGS[(s + 6) % len(P6_LARGE_CFGS)])]
    else:
        sel = [(k, c) for k in kinds for c in P6_LARGE_CFGS]
    for j, (kind, c) in enumerate(sel):
        out.append(({"kind": kind, "mesh": P6_LARGE[kind], "fields": lf, "cfg": dict(c, joint=True),
                     "opts": {"app_order": ("doc", "reverse")[j % 2], "ws": 4 if c["fmt"] == "ascii" else j % 2}},
                    ["p6-items>65536"] + (["p6-block=%d" % c["B"]] if c["comp"] else [])))
    return out


def check_p6g1i(ctx, tmp):
    from fcv import vtkxml_p6g1i as W
    cases = p6_cases(ctx)
    evaluated = []
    for case, tags in cases:
        d, impl, exp = p6_eval(case, tmp)
        evaluated.append((case, d))
        ctx.case(("p6", repr(sorted((k, repr(v)) for k, v in case.items()))), nontrivial=True,
                 tags=["p6g1i", "file-" + case["kind"], "p6-fmt-" + case["cfg"]["fmt"] + "/" + (case["cfg"]["comp"] or "none") + "/" + case["cfg"]["bo"]] + tags,
                 sample={"kind": case["kind"], "cfg": case["cfg"], "opts": case.get("opts"), "mesh": case["mesh"], "diff": d})
        if d:
            p6_report(ctx, case, d, impl, exp, tmp, "directed batch p6g1i")
    # E. reader state: two files read alternately; one path re-written with new content
    small = [c for c, _ in cases if c["mesh"] is P6_SMALL.get(c["kind"])]
    pairs = [(small[k], small[-1 - k]) for k in range(0, ctx.scale(12, 60))]
    for a, b in pairs:
        for seq, tag in (((a, b, a, b), "alternate"), ((a, dict(a, fields=[f[:4] + [f[4] + 50] for f in a["fields"]]), a), "same-path-new-content")):
            bad = None
            for step, c in enumerate(seq):
                d, impl, exp = p6_eval(c, tmp, "p6state" if tag != "alternate" else f"p6state{step % 2}")
                if d and bad is None:
                    bad = (step, c, d, impl, exp)
            ctx.case(("p6state", tag, repr(a["cfg"]), repr(b["cfg"]), a["kind"], b["kind"], repr(a.get("opts")), repr(b.get("opts"))),
                     nontrivial=True, tags=["p6g1i", "p6-reader-state-" + tag])
            if bad:
                step, c, d, impl, exp = bad
                ctx.violation({"op": "p6g1i-seq", "seq": list(seq), "step": step}, brief(impl, d), brief(exp, d),
                              what=f"reader state ({tag}): read number {step + 1} of the sequence differs from the logical content of its file in {d[:6]}")
    # F. the payload encoder of the Python-side writer vs the Lean spec writer (small arrays, whole configuration matrix)
    if ctx.driver_ok:
        lines, meta = [], []
        k = 0
        for t in TYPE_NAMES:
            for n in (0, 1, 2, 5, 17):
                arr = W.values(t, n, 70 + n)
                for fmtb64 in (True, False):
                    k += 1
                    c = {"comp": (None, CODECS[k % len(CODECS)])[k % 2], "B": (3, 8, 16, 7)[k % 4], "hs": (4, 8)[(k // 2) % 2],
                         "bo": ("le", "be")[(k // 4) % 2], "joint": bool(k % 3) or not fmtb64}
                    if c["comp"]:
                        c["joint"] = True
                    lines.append(W.lean_line(arr, c, fmtb64))
                    meta.append((t, n, c, fmtb64, W.encode_binary(arr, c, fmtb64)))
        for rep, (t, n, c, b64, mine) in zip(ctx.lean(lines), meta):
            ctx.dist["p6-payload-vs-lean-spec-writer"] += 1
            enc = rep.get("enc", "E")
            if enc.startswith("E") or unhx(enc.split(",")[0]) != mine:
                ctx.inconsistent({"op": "p6-payload", "type": t, "n": n, "cfg": c, "b64": b64}, hx(mine)[:200], enc[:200])


# ------------------------------------------------------------------ entry points

def run(ctx):
    ctx.rule = ("case = (logical data set, encoding configuration) turned into one .vtu/.vtp file by the Lean spec "
                "writer and read by read_field_data and by the Lean model reader; plus base64 strings, encoded_bytes "
                "arguments and the shipped VTK files. non-trivial = the data set has at least one point (all generated "
                "files) / non-empty string; distinct = distinct (configuration, data set) resp. distinct string")
    ctx.assumptions += [
        "zlib / lzma / lz4.block: decompress(compress(b)) = b (hypothesis of C05_compressed; exercised on every block)",
        "xml.etree.ElementTree delivers the attributes and text the harness wrote (XML tokenisation is not modelled)",
        "np.fromstring parses the decimal tokens the harness writes for ascii arrays (repr of the exact value)",
        "np.frombuffer / newbyteorder group bytes into items as modelled (Fc.itemsLE)",
    ]
    if not ctx.driver_ok:
        ctx.notes.append("driver unavailable: C05 needs the Lean spec writer to produce files; only base64 checks of the "
                         "implementation against Python's own base64 are run")
        from fieldcompare.io.vtk._encoders import Base64Encoder
        for n in range(0, 400):
            got, want = int(Base64Encoder().encoded_bytes(n)), len(base64.b64encode(bytes(n)))
            ctx.case(("encb", n), tags=["encoded_bytes"])
            if got != want:
                ctx.violation({"op": "encoded_bytes", "n": n}, got, want, what="encoded_bytes(n) is not the encoded length")
        return
    rng = ctx.rng
    tmp = tempfile.mkdtemp(prefix="fcv_c05_")
    try:
        check_base64(ctx)
        batch = Batch(ctx, tmp)
        # ---- base data sets x full matrix
        n_base = ctx.scale(1, 60)
        for bi in range(n_base):
            n = 5 if bi == 0 else rng.choice([4, 5, 7, 8, 10])
            ctypes = [5, 9, 5, 3] if bi == 0 else [rng.choice([1, 3, 5, 9, 10, 12, 14]) for _ in range(rng.choice([2, 4, 5, 7]))]
            ds = gen_vtu(rng, n, ctypes, full_plan() if bi % 4 == 0 else cyclic_plan(bi),
                         full_plan() if bi % 4 == 0 else cyclic_plan(bi + 1),
                         ptype="Float64" if bi % 2 == 0 else "Float32",
                         ctype=["Int64", "Int32", "UInt32"][bi % 3], otype=["Int64", "Int32", "UInt64"][bi % 3])
            lengths = array_lengths(ds)
            Bs = block_sizes_for(lengths)
            cases = [(ds, cfg) for cfg in matrix(Bs)]
            CH = 40
            for i in range(0, len(cases), CH):
                batch.run(cases[i:i + CH], tags_of=lambda d, c, L=lengths: ["matrix"] + boundary_tags(L, c))
        # ---- .vtp: a sample of the matrix
        dsp = gen_vtp(rng, 6, {"Verts": (2, 1), "Lines": (3, 2), "Polys": (4, 3), "Strips": (1, 4)},
                      cyclic_plan(0), cyclic_plan(2))
        lengths = array_lengths(dsp)
        mp = matrix(block_sizes_for(lengths))
        sample = [c for c in mp if not c["comp"]] + rng.sample([c for c in mp if c["comp"]], ctx.scale(40, 180))
        # other legal spellings of the <AppendedData …> tag (blanks, further attributes, up to 96 bytes long)
        sample += [dict(c, hdr=h) for c in mp
                   if c["fmt"] in ("appraw", "app64") and not c["comp"] and c["hs"] == 4 and c["bo"] == "le" and c["joint"]
                   for h in hdr_styles_for(c["fmt"])]
        for i in range(0, len(sample), 40):
            batch.run([(dsp, c) for c in sample[i:i + 40]],
                      tags_of=lambda d, c, L=lengths: ["matrix-vtp"] + boundary_tags(L, c))
        # ---- structured files (.vti / .vtr / .vts): data arrays through the same matrix
        for kind, cells in (("vti", (2, 1, 0)), ("vtr", (2, 1, 1)), ("vts", (1, 2, 0))):
            dss = gen_structured(rng, kind, cells, cyclic_plan(1), cyclic_plan(0),
                                 ptype="Float32" if kind == "vtr" else "Float64")
            lengths = array_lengths(dss)
            ms = matrix(block_sizes_for(lengths))
            sample = [c for c in ms if not c["comp"]] + rng.sample([c for c in ms if c["comp"]], ctx.scale(14, 120))
            for i in range(0, len(sample), 40):
                batch.run([(dss, c) for c in sample[i:i + 40]],
                          tags_of=lambda d, c, L=lengths: ["matrix-structured"] + boundary_tags(L, c))
        # ---- random data sets x random configurations (mixed per-array formats, empty cell sets, odd block sizes)
        n_rand = ctx.scale(200, 40000)
        cases = []
        for _ in range(n_rand):
            ds = random_ds(rng, rng.choice(["vtu"] * 11 + ["vtp"] * 4 + ["vti", "vti", "vtr", "vts", "vts"]))
            cases.append((ds, random_cfg(rng, n_arrays(ds), array_lengths(ds))))
        for i in range(0, len(cases), 100):
            batch.run(cases[i:i + 100], tags_of=lambda d, c: ["random"] + boundary_tags(array_lengths(d), c) +
                      (["no-cells"] if ncells_of(d) == 0 else []) + (["mixed-formats"] if c.get("fmts") else []))
        # ---- adversarial raw-appended payloads
        adv = adversarial_cases(rng)
        batch.run([(ds, cfg) for ds, cfg, _ in adv], tags_of=lambda d, c: ["adversarial-raw"])
        # ---- the raw-appended fallback parser on the files generated above and on the shipped raw files
        files = [(t_, c_, a_) for t_, c_, a_, _ in batch.raw_files]
        d = os.path.join(core.REPO, "test", "vtkfiles")
        if os.path.isdir(d):
            for name in sorted(os.listdir(d)):
                if "raw" in name and os.path.splitext(name)[1] in (".vtu", ".vtp", ".vts"):
                    files.append(("shipped:" + name, open(os.path.join(d, name), "rb").read(), None))
        check_fallback(ctx, files, tmp)
        # ---- file-level theorem C05_fallback_appendix: generated raw files decomposed into Spec.RawFile pieces,
        #      plus synthetic decompositions in other header styles / with hostile bytes
        items = []
        for tag, content, app, hdr in batch.raw_files:
            parts = decompose_generated(content, app, hdr)
            if parts is None:
                ctx.inconsistent({"op": "rawfile-decompose", "file": tag}, "finish_file layout", "Spec.RawFile.content")
            else:
                items.append(("generated:" + tag, parts))
        items += [("synthetic:%d" % i, p_) for i, p_ in enumerate(synthetic_rawfiles(rng, ctx.scale(300, 6000)))]
        check_rawfiles(ctx, items, tmp)
        ctx.notes.append(f"fallback parser observed on the real VTKXMLReader constructor for "
                         f"{impl_fallback.via_constructor} file contents (helpers called directly for the rest)")
        check_numpy_text_parser(ctx)
        # ---- shipped files
        check_shipped(ctx)
        # ---- phase 6 (G1/io): directed batch through the Python-side writer
        if not P6G_OFF:
            check_p6g1i(ctx, tmp)
        # ---- shrink what was found
        shrunk = []
        for v in ctx.spec_viol[:5]:
            if isinstance(v["case"], dict) and "ds" in v["case"]:
                diff = [k for k in v["impl"] if k not in ("error", "msg")] if isinstance(v["impl"], dict) else []
                shrunk.append(dict(v, case=shrink_case(batch, v["case"], diff)))
            else:
                shrunk.append(v)
        ctx.spec_viol = shrunk + ctx.spec_viol[5:]
        ctx.spec_viol = [classify(v) for v in ctx.spec_viol]
    finally:
        shutil.rmtree(tmp, ignore_errors=True)


def classify(v):
    return v


def _replay_case(ctx, case):
    tmp = tempfile.mkdtemp(prefix="fcv_c05r_")
    try:
        b = Batch(ctx, tmp)
        return b.run([(case["ds"], case["cfg"])])[0]
    finally:
        shutil.rmtree(tmp, ignore_errors=True)


def witness_rawtag():
    """C05-RAWTAG: a raw-appended .vtu whose UInt8 point field contains the bytes `</AppendedData>`.
    Self-contained (no driver): header = UInt32 byte count, little endian, header and data in one stream.
    The same body is given in NOTES_C05.md for corpus/witnesses.py."""
    from fieldcompare.io import read_field_data

    def raw(arr):
        b = arr.tobytes()
        return struct.pack("<I", len(b)) + b

    payload = np.frombuffer(b"ab</AppendedData>c", dtype=np.uint8)
    n = len(payload)
    pts = np.zeros((n, 3), dtype=np.float32)
    pts[:, 0] = np.arange(n)
    parts = [raw(payload), raw(pts), raw(np.array([0, 1], dtype=np.int32)), raw(np.array([2], dtype=np.int32)),
             raw(np.array([3], dtype=np.uint8))]
    offs = [0]
    for p_ in parts:
        offs.append(offs[-1] + len(p_))
    head = f"""<?xml version="1.0"?>
<VTKFile type="UnstructuredGrid" version="1.0" byte_order="LittleEndian" header_type="UInt32">
<UnstructuredGrid><Piece NumberOfPoints="{n}" NumberOfCells="1">
<PointData><DataArray type="UInt8" Name="p" format="appended" offset="{offs[0]}"/></PointData>
<CellData></CellData>
<Points><DataArray type="Float32" NumberOfComponents="3" format="appended" offset="{offs[1]}"/></Points>
<Cells>
<DataArray type="Int32" Name="connectivity" format="appended" offset="{offs[2]}"/>
<DataArray type="Int32" Name="offsets" format="appended" offset="{offs[3]}"/>
<DataArray type="UInt8" Name="types" format="appended" offset="{offs[4]}"/>
</Cells></Piece></UnstructuredGrid>
<AppendedData encoding="raw">
_""".encode()
    d = tempfile.mkdtemp(prefix="fcv_w_")
    path = os.path.join(d, "w.vtu")
    try:
        with open(path, "wb") as fh:
            fh.write(head + b"".join(parts) + b"\n</AppendedData>\n</VTKFile>\n")
        try:
            f = read_field_data(path)
            vals = {fl.name: np.asarray(fl.values).tobytes() for fl in f.point_fields}
            return vals != {"p": payload.tobytes()}, f"point fields read: {vals}"
        except Exception as e:  # noqa: BLE001
            return True, f"read raised {type(e).__name__}: {e}"
    finally:
        shutil.rmtree(d, ignore_errors=True)


def replay_witness(ctx, entry):
    if entry.get("class") == "C05-RAWTAG":
        return witness_rawtag()
    return core.run_named_witness(entry)


def replay(ctx, payload) -> int:
    case = payload.get("case")
    if payload.get("kind") == "no-failing-input-found":
        case = (payload.get("first_mismatch") or {}).get("case")
    if not isinstance(case, dict):
        print("replay: nothing to re-run in this file")
        return 0
    if case.get("op") == "encoded_bytes":
        from fieldcompare.io.vtk._encoders import Base64Encoder
        got, want = int(Base64Encoder().encoded_bytes(case["n"])), 4 * ((case["n"] + 2) // 3)
        print(f"replay: encoded_bytes({case['n']}) = {got}, base64 length = {want}")
        bad = got != want
    elif case.get("op") in ("p6g1i", "p6g1i-seq"):
        tmp = tempfile.mkdtemp(prefix="fcv_c05r_")
        try:
            seq = case["seq"] if case["op"] == "p6g1i-seq" else [case]
            bad = False
            for step, c in enumerate(seq):
                d, impl, exp = p6_eval(c, tmp, "p6state")
                print(f"replay: p6g1i read {step + 1}: kind={c['kind']} cfg={c['cfg']} opts={c.get('opts')} differences={d}")
                if d:
                    print("  implementation:", brief(impl, d))
                    print("  logical content:", brief(exp, d))
                    bad = True
        finally:
            shutil.rmtree(tmp, ignore_errors=True)
    elif case.get("op") in ("b64decode", "b64encode") or "shipped" in case:
        print("replay: correspondence item", {k: v for k, v in case.items()})
        run(ctx)
        bad = bool(ctx.corr_mismatch or ctx.spec_viol)
    else:
        res = _replay_case(ctx, case)
        print(f"replay: cfg={cfg_key(case['cfg'])} differences={res.get('diff')}")
        if res.get("diff"):
            print("  implementation:", brief(res["impl"], res["diff"]))
            print("  logical content:", brief(res["expected"], res["diff"]))
        bad = not res.get("ok", False)
    if bad:
        print(f"VIOLATION property=C05 replay={payload.get('_path', '<replay>')}")
        return 1
    return 0
