"""C11 — every field is reported exactly once; filtered fields cannot affect the verdict.

Correspondence: the real `FieldDataComparator` (on `TabularFields`, `MeshFields` with point and cell
fields on 1-3 cell types, via `MeshFieldsComparator` on a relabeled reference, and on a minimal custom
`FieldData` that allows duplicate names) against the Lean model `Fc.comparatorCall` through the driver.
External facts handed to the model: the strip (annotation removal) table and the include/exclude truth
tables over the finite name universe of the case (computed here with an independent re-implementation of
`remove_annotation` and the real `fnmatch`), the domain-equality verdict, and the outcome
(pass/fail/raise) of every (source field, reference field) pair.

Search: implementation against an independent Python oracle of the property (k-th occurrence of a name in
the source pairs with the k-th occurrence in the reference; compared iff paired and selected; verdict =
domains equal and no compared pair failed/raised; one callback per performed comparison).

Directed batch (phase 5, `gen_spacedim_case`): `MeshFieldsComparator` on source / reference of DIFFERENT space
dimension (the lower-dimensional side is rebuilt by `extend_space_dimension_to`, which de-annotates and
re-annotates every cell-field name), crossed with relabeling, orphan points on either side, the three comparator
flags, and a name pool with upper-case / punctuation endings and prefixes / suffixes of the cell-type names.  The
model is name-agnostic (names are ids), so the expectation is the same `Fc.comparatorCall` / oracle applied to the
names the INPUT objects expose."""
from __future__ import annotations
import copy
import itertools
from fnmatch import fnmatch

import numpy as np

from fcv import meshgen

SEP = " @ "
NAMES = ["p", "q", "r", "u", "velocity", "pressure", "", " @ ", "a @ b", "a @ b @ c", "p @ QUAD", "p @ TRIANGLE",
         "q @ LINE", "*", "a*", "[ab]", "?", "p?", "a b", " ", "@", "x @ ", " @ x", "P", "[!p]", "c0", "c0 @ QUAD"]
PATTERNS = ["*", "p*", "?", "[ab]*", "p", "* @ *", "*a*", "", "[!p]*", "q", "velocity", "c?", "* ", "a @ b", "[*]", "\\*"]
# phase 5: names ending in upper-case letters / punctuation, as they occur in real result files; prefixes / suffixes of the
# cell-type names of the case's mesh are added per case (`derived_names`)
NAMES_X = ["E", "T", "N", "ID", "LEVEL", "PRESSURE", "Temperature", "rho_E", "sigma.xx", "v-x", "k(T)", "E ", "X@", "T@E",
           "phi[0]", "U/L", "Re", "nu_T", "S_XX", "dP/dT", "cellID", "marker#", "vel:X", "@ TRIANGLE", "x @", "p@ LINE",
           "Q", "q2", "rho", "LE", "ANGLE ", "é", "Δ"]
PATTERNS_X = ["*E", "[A-Z]*", "*[A-Z]", "T*", "?D", "*_*", "* @", "E"]
OUT = ["pass", "fail", "raise"]
COMPARED = {"passed", "failed", "error"}


# ------------------------------------------------------------------ independent helpers

def strip(name: str) -> str:
    """`remove_annotation` re-implemented: cut at the LAST occurrence of ' @ '"""
    i = name.rfind(SEP)
    return name if i < 0 else name[:i]


def filt_eval(spec, name: str) -> bool:
    t = spec["type"]
    if t == "all":
        return True
    if t == "none":
        return False
    if t == "set":
        return name in spec["names"]
    if t == "glob":
        return any(fnmatch(name, p) for p in spec["patterns"])
    raise ValueError(t)


def filt_make(spec):
    """the filter object handed to the implementation"""
    t = spec["type"]
    if t == "glob":
        from fieldcompare._cli._common import PatternFilter
        return PatternFilter(list(spec["patterns"]))
    if t == "set":
        names = set(spec["names"])
        return lambda n: n in names
    if t == "all":
        return lambda _: True
    return lambda _: False


# ------------------------------------------------------------------ building the implementation objects

class _Dom:
    def __init__(self, key):
        self.key = key

    def equals(self, other):
        from fieldcompare.predicates import PredicateResult
        return PredicateResult(self.key == other.key, "" if self.key == other.key else "different domain keys")


class _CustomFields:
    """minimal FieldData: a list of (name, values) — duplicate names allowed"""

    def __init__(self, key, items):
        self._dom = _Dom(key)
        self._items = items

    @property
    def domain(self):
        return self._dom

    def __iter__(self):
        from fieldcompare._field import Field
        return iter([Field(n, v) for n, v in self._items])

    def diff_to(self, other):
        raise NotImplementedError


def _vals(code, n):
    return np.full((n,), float(code))


def _mesh_objs(lm, pf, cf, codes, base):
    """MeshFields on the logical mesh `lm` with point fields `pf`, cell fields `cf` (on every type);
    every array is filled with one code; returns the object"""
    from fieldcompare.mesh import Mesh, MeshFields
    pts = np.array(lm["points"], dtype=np.float64).reshape(len(lm["points"]), lm["dim"])
    conn = [(meshgen.celltype(t), np.array(rows, dtype=np.int64)) for t, rows in lm["cells"]]
    mesh = Mesh(pts, conn)
    k = base
    pd, cd = {}, {}
    for n in pf:
        pd[n] = _vals(codes(k), len(lm["points"]))
        k += 1
    for n in cf:
        arrs = []
        for _, rows in lm["cells"]:
            arrs.append(_vals(codes(k), len(rows)))
            k += 1
        cd[n] = arrs
    return MeshFields(mesh, pd, cd)


def build(case):
    """-> (src_obj, ref_obj).  Values: in stub mode every field array is filled with a unique code
    (source codes 0.., reference codes 1000..); in real mode with the palette value of the case."""
    kind = case["kind"]
    real = case["mode"] == "real"
    if kind in ("custom", "tabular"):
        rows_s = case.get("rows", 2)                 # p6g: explicit row count (0 rows: real mode only)
        rows_r = rows_s if case["dom"] else rows_s + 1

        def vs(i, side):
            if real:
                return _vals(case["pal_" + side][i], rows_s if side == "s" else rows_r)
            return _vals(i if side == "s" else 1000 + i, rows_s if side == "s" else rows_r)
        if kind == "custom":
            so = _CustomFields(0, [(n, vs(i, "s")) for i, n in enumerate(case["src"])])
            if case.get("alias"):                    # p6g: the SAME object in both roles
                return so, so
            return (so, _CustomFields(0 if case["dom"] else 1, [(n, vs(i, "r")) for i, n in enumerate(case["ref"])]))
        from fieldcompare.tabular import Table, TabularFields
        so = TabularFields(Table(num_rows=rows_s), {n: vs(i, "s") for i, n in enumerate(case["src"])})
        if case.get("alias"):
            return so, so
        return (so, TabularFields(Table(num_rows=rows_r), {n: vs(i, "r") for i, n in enumerate(case["ref"])}))
    # mesh kinds
    if real:
        ps, pr = case["pal_s"], case["pal_r"]
        cs = lambda k: ps[k]          # noqa: E731
        cr = lambda k: pr[k]          # noqa: E731
    else:
        cs = lambda k: k              # noqa: E731
        cr = lambda k: 1000 + k       # noqa: E731
    wrap = case.get("wrap", ["plain", "plain"])      # p6g: TransformedMeshFields views handed to the comparator
    so = _wrap_fields(_mesh_objs(case["lm_s"], case["pf_s"], case["cf_s"], cs, 0), wrap[0])
    if case.get("alias"):
        return so, so
    return so, _wrap_fields(_mesh_objs(case["lm_r"], case["pf_r"], case["cf_r"], cr, 0), wrap[1])


def _wrap_fields(fields, how):
    if how == "plain":
        return fields
    from fieldcompare import mesh as fcmesh
    return getattr(fcmesh, how)(fields)          # sort / sort_points / sort_cells / strip_orphan_points


def cell_flags(case, side, n):
    """which exposed fields are cell fields (their names carry an annotation appended by MeshFields):
    MeshFields iterates the point fields first"""
    if "lm_" + side not in case:
        return [False] * n
    npf = len(case["pf_" + side])
    return [i >= npf for i in range(n)]


def annotated_names(obs):
    """per NAME: annotated iff every exposed field with that name is a cell field"""
    flags = {}
    for n, c in list(zip(obs["src"], obs["cell_s"])) + list(zip(obs["ref"], obs["cell_r"])):
        flags[n] = flags.get(n, True) and c
    return flags


def in_class_F14(obs) -> bool:
    """class predicate of finding F14 (= not Fc.Spec.plainFixed): some plain source field name is changed by
    remove_annotation, i.e. contains ' @ '"""
    ann = annotated_names(obs)
    return any((not ann[n]) and strip(n) != n for n in obs["src"])


def field_names(obj):
    return [f.name for f in obj]


# ------------------------------------------------------------------ running the implementation

def run_impl(case):
    """-> observables dict + the inputs of the model (names as exposed by iteration, domain verdict,
    outcome matrix)"""
    from fieldcompare import FieldDataComparator
    from fieldcompare.predicates import PredicateResult
    src, ref = build(case)
    sn, rn = field_names(src), field_names(ref)
    real = case["mode"] == "real"
    if not real:
        s_first = [float(np.asarray(f.values).flat[0]) for f in src]
        r_first = [float(np.asarray(f.values).flat[0]) for f in ref]
    if real:
        # external fact "outcome of the predicate on this pair", measured with the real DefaultEquality on the very
        # arrays (equal palette value and equal shape -> pass; point field vs cell field of the same name -> shapes differ)
        from fieldcompare.predicates import DefaultEquality
        s_vals = [np.asarray(f.values) for f in src]
        r_vals = [np.asarray(f.values) for f in ref]

        def _outcome(a, b):
            try:
                return 0 if DefaultEquality()(a, b) else 1
            except Exception:
                return 2
        out = [[_outcome(a, b) for b in r_vals] for a in s_vals]
    else:
        out = case["out"]
        if len(out) != len(sn) or any(len(r) != len(rn) for r in out):
            raise ValueError("outcome matrix does not fit the exposed fields")
        spos = {v: i for i, v in enumerate(s_first)}
        rpos = {v: j for j, v in enumerate(r_first)}
    events = []

    class _Boom(Exception):
        pass

    def make_selector(outm, ev):
        def selector(a, b):
            i = spos[float(np.asarray(a.values).flat[0])]
            j = rpos[float(np.asarray(b.values).flat[0])]
            ev.append(["sel", i, j, a.name, b.name])
            o = outm[i][j]
            if o == 0:
                return lambda x, y: PredicateResult(True, "stub pass")
            if o == 1:
                return lambda x, y: PredicateResult(False, "stub fail")

            def boom(x, y):
                raise _Boom("stub raise")
            return boom
        return selector

    def make_callback(ev):
        def callback(comp):
            ev.append(["cb", comp.name, comp.status.name])
        return callback

    selector, callback = make_selector(None if real else out, events), make_callback(events)
    incl, excl = filt_make(case["incl"]), filt_make(case["excl"])
    reuse = case.get("reuse") if (not real and case["kind"] != "meshcmp") else None
    if reuse:
        # p6g: a SECOND comparator object over the very same field-data objects with other filters, constructed before the
        # first one is ever called (state shared between comparator objects / cached on the field data)
        comparator2 = FieldDataComparator(src, ref, filt_make(reuse["incl2"]), filt_make(reuse["excl2"]))
    if case["kind"] == "meshcmp":
        from fieldcompare.mesh import MeshFieldsComparator
        fl = case.get("flags", [False, False, False])
        comparator = MeshFieldsComparator(src, ref, disable_mesh_reordering=fl[0], disable_orphan_point_removal=fl[1],
                                          disable_space_dimension_matching=fl[2],
                                          field_inclusion_filter=incl, field_exclusion_filter=excl)
    else:
        comparator = FieldDataComparator(src, ref, incl, excl)
    try:
        suite = comparator(None if real else selector, callback)
    except Exception as e:   # the comparator itself must never raise on well-formed field data
        return {"raised": f"{type(e).__name__}: {e}"[:200], "src": sn, "ref": rn}
    entries = [(c.name, c.status.name) for c in suite]
    # the same comparator object asked again (twice): every call is a complete comparison of its own, so the report must
    # list every field exactly once each time (FieldDataComparator only; re-running a MeshFieldsComparator is C19's topic)
    again = None
    if case["kind"] != "meshcmp":
        n_ev = len(events)
        again = []
        for _ in range(2):
            try:
                s2 = comparator(None if real else selector, callback)
                again.append({"entries": sorted((c.name, c.status.name) for c in s2), "verdict": bool(s2),
                              "dom": bool(s2.domain_equality_check)})
            except Exception as e:  # noqa: BLE001
                again.append({"raised": f"{type(e).__name__}: {e}"[:200]})
        del events[n_ev:]
    steps = None
    if reuse:
        # p6g: the same comparator object asked again with ANOTHER predicate selector / callback, interleaved with calls of
        # the second comparator object: every call is a complete comparison of its own
        steps = []
        plan = [("second comparator object (other filters), other selector", comparator2, "2", reuse["out2"], "out2"),
                ("first comparator object again, other selector and callback", comparator, "1", reuse["out2"], "out2"),
                ("second comparator object again, first selector", comparator2, "2", out, "out"),
                ("first comparator object again, first selector", comparator, "1", out, "out")]
        for what, cmp_obj, which, outm, outkey in plan:
            ev = []
            try:
                sx = cmp_obj(make_selector(outm, ev), make_callback(ev))
                steps.append({"what": what, "filters": which, "out": outkey, "dom": bool(sx.domain_equality_check),
                              "entries": sorted([c.name, c.status.name] for c in sx), "verdict": bool(sx),
                              "callbacks": [[e[1], e[2]] for e in ev if e[0] == "cb"],
                              "selector": [[e[1], e[2]] for e in ev if e[0] == "sel"]})
            except Exception as e:  # noqa: BLE001
                steps.append({"what": what, "filters": which, "out": outkey, "raised": f"{type(e).__name__}: {e}"[:200]})
    buckets_ok = (all(c.status.name == "passed" for c in suite.passed)
                  and all(c.status.name in ("failed", "error") for c in suite.failed)
                  and all(c.status.name in ("missing_source", "missing_reference", "filtered") for c in suite.skipped)
                  and len(suite) == len(entries)
                  and suite.num_passed + suite.num_failed + suite.num_skipped == len(entries))
    return {"src": sn, "ref": rn, "dom": bool(suite.domain_equality_check), "out": out,
            "cell_s": cell_flags(case, "s", len(sn)), "cell_r": cell_flags(case, "r", len(rn)),
            "verdict": bool(suite), "status_passed": suite.status.name == "passed",
            "entries": sorted(entries),
            "callbacks": [[e[1], e[2]] for e in events if e[0] == "cb"],
            "selector": [[e[1], e[2]] for e in events if e[0] == "sel"],
            "sel_names": [[e[3], e[4]] for e in events if e[0] == "sel"],
            "again": again, "steps": steps,
            "alternating": real or [e[0] for e in events] == ["sel", "cb"] * (len(events) // 2),
            "buckets_ok": buckets_ok}


# ------------------------------------------------------------------ model encoding / property oracle

def universe(names):
    u = set(names)
    frontier = list(u)
    while frontier:
        n = frontier.pop()
        s = strip(n)
        if s not in u:
            u.add(s)
            frontier.append(s)
    return sorted(u)


def enc(case, obs) -> str:
    uni = universe(obs["src"] + obs["ref"])
    idx = {n: i for i, n in enumerate(uni)}
    toks = ["c11", "1" if obs["dom"] else "0"]
    toks += [str(len(uni))] + [str(idx[strip(n)]) for n in uni]
    toks += [str(len(uni))] + ["1" if filt_eval(case["incl"], n) else "0" for n in uni]
    toks += [str(len(uni))] + ["1" if filt_eval(case["excl"], n) else "0" for n in uni]
    ann = annotated_names(obs)
    toks += [str(len(uni))] + ["1" if ann.get(n, False) else "0" for n in uni]
    toks += [str(len(obs["src"]))] + [str(idx[n]) for n in obs["src"]]
    toks += [str(len(obs["ref"]))] + [str(idx[n]) for n in obs["ref"]]
    flat = [o for row in obs["out"] for o in row]
    toks += [str(len(flat))] + [str(o) for o in flat]
    return " ".join(toks), uni


def dec_cmps(s, uni):
    if s == "-":
        return []
    out = []
    for item in s.split(","):
        i, st = item.split(":")
        out.append((uni[int(i)], st))
    return out


def dec_pairs(s):
    return [] if s == "-" else [[int(x) for x in item.split(":")] for item in s.split(",")]


def dec_model(rep, uni):
    v, ents, cbs, sel = rep["model"].split(";")
    return {"verdict": v == "1", "entries": sorted(dec_cmps(ents, uni)),
            "callbacks": [list(c) for c in dec_cmps(cbs, uni)], "selector": dec_pairs(sel)}


def dec_spec(rep, uni, key="spec"):
    v, ents = rep[key].split(";")
    return {"verdict": v == "1", "entries": sorted(dec_cmps(ents, uni))}


def oracle(case, obs, user_level=False):
    """the property, independently: k-th occurrence pairs with k-th occurrence.  user_level=False: the filters see
    remove_annotation(name) for every field (what the code does); user_level=True: they see the name itself for
    plain fields and the name without the appended cell-type annotation for cell fields (what the property means)"""
    sn, rn, out = obs["src"], obs["ref"], obs["out"]
    ann = annotated_names(obs)
    if not obs["dom"]:
        return {"verdict": False, "entries": None, "compared": []}
    rpos = {}
    for j, n in enumerate(rn):
        rpos.setdefault(n, []).append(j)
    seen = {}
    entries, compared, used = [], [], set()
    status_of = {0: "passed", 1: "failed", 2: "error"}
    for i, n in enumerate(sn):
        k = seen.get(n, 0)
        seen[n] = k + 1
        js = rpos.get(n, [])
        if k < len(js):
            j = js[k]
            used.add(j)
            stripped = strip(n) if (ann[n] or not user_level) else n
            if filt_eval(case["incl"], stripped) and not filt_eval(case["excl"], stripped):
                st = status_of[out[i][j]]
                entries.append((n, st))
                compared.append([n, st])
            else:
                entries.append((n, "filtered"))
        else:
            entries.append((n, "missing_reference"))
    for j, n in enumerate(rn):
        if j not in used:
            entries.append((n, "missing_source"))
    verdict = all(st not in ("failed", "error") for _, st in entries)
    return {"verdict": verdict, "entries": sorted(entries), "compared": compared}


# ------------------------------------------------------------------ generators

def gen_filter(rng, stripped_names, allow_all=True):
    r = rng.random()
    if r < 0.25 and allow_all:
        return {"type": "all"}
    if r < 0.35:
        return {"type": "none"}
    if r < 0.7:
        pool = sorted(set(stripped_names)) + ["zz"]
        return {"type": "set", "names": sorted(set(rng.sample(pool, rng.randint(0, len(pool)))))}
    return {"type": "glob", "patterns": rng.sample(PATTERNS, rng.randint(0, 3))}


def gen_out(rng, ns, nr):
    style = rng.random()
    if style < 0.3:
        return [[0] * nr for _ in range(ns)]
    if style < 0.6 and ns and nr:   # a single deviating pair
        m = [[0] * nr for _ in range(ns)]
        m[rng.randrange(ns)][rng.randrange(nr)] = rng.choice([1, 2])
        return m
    return [[rng.choice([0, 0, 0, 1, 2]) for _ in range(nr)] for _ in range(ns)]


def gen_names(rng, dup: bool):
    pool = rng.sample(NAMES, rng.randint(1, 9))
    ns, nr = rng.randint(0, 8), rng.randint(0, 8)
    if dup:
        src = [rng.choice(pool) for _ in range(ns)]
        ref = [rng.choice(pool) for _ in range(nr)]
    else:
        src = rng.sample(pool, min(ns, len(pool)))
        ref = rng.sample(pool, min(nr, len(pool)))
    return src, ref


def gen_case(rng, meshes):
    r = rng.random()
    mode = "real" if rng.random() < 0.2 else "stub"
    dom = rng.random() < 0.88
    if r < 0.4:
        dup = rng.random() < 0.6
        src, ref = gen_names(rng, dup)
        case = {"kind": "custom", "src": src, "ref": ref, "dom": dom, "mode": mode}
        names = src + ref
    elif r < 0.65:
        src, ref = gen_names(rng, False)
        case = {"kind": "tabular", "src": src, "ref": ref, "dom": dom, "mode": mode}
        names = src + ref
    else:
        lm = rng.choice(meshes)
        lm_r = lm
        kind = "mesh"
        if not dom:
            others = [m for m in meshes if m is not lm]
            lm_r = rng.choice(others)
        elif rng.random() < 0.25:
            kind = "meshcmp"
            lm_r = meshgen.relabel(rng, lm)
        pool = rng.sample(NAMES, rng.randint(1, 6))
        # cell-field names must not be empty-annotated twice; any string is allowed as a name
        pf_s = rng.sample(pool, rng.randint(0, min(4, len(pool))))
        pf_r = rng.sample(pool, rng.randint(0, min(4, len(pool))))
        cf_s = rng.sample(pool, rng.randint(0, min(3, len(pool))))
        cf_r = rng.sample(pool, rng.randint(0, min(3, len(pool))))
        if mode == "stub" and rng.random() < 0.15 and cf_s and lm["cells"]:
            # adversarial: a point field whose name equals an annotated cell-field name
            pf_s = pf_s + [f"{cf_s[0]}{SEP}{lm['cells'][0][0]}"]
            pf_s = list(dict.fromkeys(pf_s))
        case = {"kind": kind, "lm_s": lm, "lm_r": lm_r, "pf_s": pf_s, "cf_s": cf_s, "pf_r": pf_r, "cf_r": cf_r,
                "mode": mode}
        src_o, ref_o = build(dict(case, mode="stub"))
        src, ref = field_names(src_o), field_names(ref_o)
        names = src + ref
    ns, nr = len(src), len(ref)
    if mode == "real":
        case["pal_s"] = [rng.randint(1, 3) for _ in range(max(ns, 1) + 8)]
        case["pal_r"] = [rng.randint(1, 3) for _ in range(max(nr, 1) + 8)]
        if case["kind"] in ("custom", "tabular"):
            case["pal_s"], case["pal_r"] = case["pal_s"][:ns], case["pal_r"][:nr]
    else:
        case["out"] = gen_out(rng, ns, nr)
    stripped = [strip(n) for n in names]
    case["incl"] = gen_filter(rng, stripped, allow_all=True)
    case["excl"] = gen_filter(rng, stripped, allow_all=rng.random() < 0.1) if rng.random() < 0.7 else {"type": "none"}
    return case


# ------------------------------------------------------------------ phase 5: differing space dimensions x name classes

def low_dim_meshes():
    """hand-made meshes with 1 or 2 coordinate columns (so that a zero-padded copy has a higher space dimension),
    1-3 cell types each; distinct, well separated points"""
    return [
        {"dim": 2, "points": [[0.0, 0.0], [1.0, 0.0], [1.0, 1.0], [0.0, 1.0]],
         "cells": [["TRIANGLE", [[0, 1, 2], [0, 2, 3]]], ["LINE", [[0, 1], [1, 2], [2, 3], [3, 0]]]], "pf": [], "cf": []},
        {"dim": 2, "points": [[0.0, 0.0], [1.0, 0.0], [1.0, 1.0], [0.0, 1.0], [2.0, 0.5], [3.0, 0.5]],
         "cells": [["QUAD", [[0, 1, 2, 3]]], ["TRIANGLE", [[1, 4, 2]]], ["LINE", [[4, 5]]]], "pf": [], "cf": []},
        {"dim": 1, "points": [[0.0], [0.5], [1.5], [3.0]],
         "cells": [["LINE", [[0, 1], [1, 2], [2, 3]]], ["VERTEX", [[0], [3]]]], "pf": [], "cf": []},
        {"dim": 2, "points": [[0.0, 0.0], [2.0, 0.0], [0.0, 2.0], [2.0, 2.0], [4.0, 0.0], [4.0, 2.0]],
         "cells": [["PIXEL", [[0, 1, 2, 3], [1, 4, 3, 5]]], ["VERTEX", [[4]]]], "pf": [], "cf": []},
        {"dim": 2, "points": [[-1.0, 0.0], [0.0, 0.25], [1.0, 0.0], [0.0, 1.5]],
         "cells": [["TRIANGLE", [[0, 1, 3], [1, 2, 3]]]], "pf": [], "cf": []},
        {"dim": 1, "points": [[-2.0], [-1.0], [0.25]],
         "cells": [["LINE", [[0, 1], [1, 2]]]], "pf": [], "cf": []},
        {"dim": 2, "points": [[0.0, 0.0], [1.0, 0.0], [2.0, 0.0], [0.0, 1.0], [1.0, 1.0], [2.0, 1.0]],
         "cells": [["LINE", [[0, 3], [2, 5]]], ["QUAD", [[0, 1, 4, 3], [1, 2, 5, 4]]]], "pf": [], "cf": []},
    ]


def pad_dim(lm, dim):
    """the same mesh with zero coordinate columns appended up to `dim` columns"""
    out = copy.deepcopy(lm)
    out["points"] = [list(p) + [0.0] * (dim - lm["dim"]) for p in lm["points"]]
    out["dim"] = dim
    return out


def derived_names(lm):
    """prefixes / suffixes of the cell-type names of the mesh (and variations): the names a helper that handles the
    ' @ <CELLTYPE>' annotation by character classes, slicing or substring search would confuse"""
    out = []
    for t, _ in lm["cells"]:
        out += [t, t.lower(), t.capitalize()]
        out += [t[k:] for k in range(1, len(t))] + [t[:k] for k in range(1, len(t))]
        out += ["p" + t[k:] for k in range(1, len(t), 2)] + [t[-1] + " ", "@" + t, t + "@", "x_" + t, t[-2:] + t[-2:], "a @ " + t]
    return sorted(set(out))


FLAG_CYCLE = [[False, False, False]] * 5 + [[True, False, False], [False, True, False], [False, False, True]]


def gen_spacedim_case(rng, i, lows):
    """directed: i enumerates (which side has the lower space dimension, relabeling, orphan points, comparator flags,
    mesh); names / filters / outcomes are drawn from rng.  len(lows) is coprime to 2*2*3*8, so i = 0 .. 96*len(lows)-1
    visits every combination"""
    low_is_src = i % 2 == 0
    relabeled = (i // 2) % 2 == 1
    orphan = ["none", "low", "high"][(i // 4) % 3]
    flags = list(FLAG_CYCLE[(i // 12) % len(FLAG_CYCLE)])
    lm = lows[i % len(lows)]
    mode = "real" if rng.random() < 0.25 else "stub"
    if mode == "real":
        orphan = "none"      # real mode measures the pair outcomes on the INPUT arrays: keep the point counts equal
    same_dim = rng.random() < 0.1                                   # control: the new names without the dimension gap
    high = pad_dim(lm, lm["dim"] if same_dim else rng.randint(lm["dim"] + 1, 3))
    low = lm
    if relabeled:
        if rng.random() < 0.5:
            high = meshgen.relabel(rng, high)
        else:
            low = meshgen.relabel(rng, low)
    if orphan == "low":
        low = _with_orphans(rng, low)
    elif orphan == "high":
        high = _with_orphans(rng, high)
    lm_s, lm_r = (low, high) if low_is_src else (high, low)
    special = derived_names(lm) + NAMES_X
    pool = rng.sample(special, rng.randint(2, 6)) + rng.sample(NAMES, rng.randint(0, 2))
    pool = list(dict.fromkeys(pool))
    cf_s = rng.sample(pool, rng.randint(1, min(3, len(pool))))
    if not any(n in special for n in cf_s):
        cf_s[0] = rng.choice([n for n in pool if n in special])
        cf_s = list(dict.fromkeys(cf_s))
    r = rng.random()
    if r < 0.6:
        cf_r = list(cf_s)
        rng.shuffle(cf_r)
    elif r < 0.8:
        cf_r = [n for n in cf_s if rng.random() < 0.7] + [n for n in pool if n not in cf_s and rng.random() < 0.3]
    else:
        cf_r = rng.sample(pool, rng.randint(0, min(3, len(pool))))
    pf_s = rng.sample(pool, rng.randint(0, min(3, len(pool))))
    pf_r = list(pf_s) if rng.random() < 0.6 else rng.sample(pool, rng.randint(0, min(3, len(pool))))
    case = {"kind": "meshcmp", "lm_s": lm_s, "lm_r": lm_r, "pf_s": pf_s, "cf_s": cf_s, "pf_r": pf_r, "cf_r": cf_r,
            "mode": mode, "flags": flags,
            "xdim": {"dims": [lm_s["dim"], lm_r["dim"]], "relabeled": relabeled, "orphan": orphan}}
    src_o, ref_o = build(dict(case, mode="stub"))
    src, ref = field_names(src_o), field_names(ref_o)
    ns, nr = len(src), len(ref)
    if mode == "real":
        case["pal_s"] = [rng.randint(1, 3) for _ in range(max(ns, 1) + 8)]
        case["pal_r"] = [rng.randint(1, 3) for _ in range(max(nr, 1) + 8)]
    else:
        case["out"] = gen_out(rng, ns, nr)
    stripped = [strip(n) for n in src + ref]
    if rng.random() < 0.35:
        case["incl"], case["excl"] = {"type": "all"}, {"type": "none"}
    else:
        case["incl"] = _gen_filter_x(rng, stripped, allow_all=True)
        case["excl"] = _gen_filter_x(rng, stripped, allow_all=False) if rng.random() < 0.7 else {"type": "none"}
    return case


def _with_orphans(rng, lm):
    """1-2 extra unconnected points appended (far away from the connected ones); the meshes carry no field arrays"""
    out = copy.deepcopy(lm)
    for k in range(rng.randint(1, 2)):
        out["points"].append([10.0 + k + rng.randint(0, 3) * 0.25 for _ in range(lm["dim"])])
    return out


def _gen_filter_x(rng, stripped_names, allow_all):
    f = gen_filter(rng, stripped_names, allow_all=allow_all)
    if f["type"] == "glob" and rng.random() < 0.6:
        f = {"type": "glob", "patterns": rng.sample(PATTERNS + PATTERNS_X, rng.randint(1, 3))}
    return f


# ------------------------------------------------------------------ phase 6 (G2): directed batches for quantifier dimensions
# that the random generator samples at one point only (see notes/PHASE6_G2_C11.md)

NAMES_P6 = ["", " ", "  ", "a", "ab", "abc", "abcd", "a.b", "A", "Ab", "AB", "p", "p ", " p", "p0", "p00", "p_0", "0", "00", "1e5",
            "-1", "nan", "None", "True", "é", "e\u0301", "É", "Δp", "δp", "温度", "naïve", "ß", "ss", "a\tb", "a\nb", "a\\b", "a/b",
            "a:b", "a,b", "a;b", "a|b", "'a'", '"a"', "a @ b", "a @ b @ c", " @ ", "@", "a@b", "a @", "@ a", "a @ QUAD", "a @ PIXEL",
            "a @ quad", "QUAD", "PIXEL", "x @ VOXEL", "x @ HEXAHEDRON", "*", "**", "?", "[a]", "[!a]", "a*", "*a", "a?", "{a}",
            "(a)", "a+", "^a$", ".*", "%s", "{0}", "velocity", "velocity_x", "velocity x", "Velocity", "x" * 300,
            "x" * 299 + "y"]
PATTERNS_P6 = ["*", "?*", "a*", "*a", "A*", "[a-c]*", "*[0-9]", "* @ *", "é", "Δ*", "*温*", "p?", "??", "", "[!a]*", "velocity*",
               "x" * 300, "*\n*", "a.b", "a?b"]


def many_type_meshes():
    """hand-made meshes with 4-6 cell types in ONE mesh, incl. both members of a compatible pair (pixel + quad,
    voxel + hexahedron), in different block orders"""
    m2 = {"dim": 2,
          "points": [[0.0, 0.0], [1.0, 0.0], [2.0, 0.0], [3.0, 0.0], [0.0, 1.0], [1.0, 1.0], [2.0, 1.0], [3.0, 1.0], [4.0, 0.5],
                     [5.0, 2.5]],
          "cells": [["PIXEL", [[0, 1, 4, 5]]], ["QUAD", [[1, 2, 6, 5]]], ["TRIANGLE", [[2, 3, 7], [2, 7, 6]]],
                    ["LINE", [[3, 8], [7, 8]]], ["VERTEX", [[8], [9]]]], "pf": [], "cf": []}
    m2b = dict(m2, cells=[m2["cells"][i] for i in (1, 4, 0, 3, 2)])
    p3 = [[float(x), float(y), float(z)] for z in (0, 1) for y in (0, 1) for x in (0, 1, 2, 3)]      # 16 lattice points
    m3 = {"dim": 3, "points": p3 + [[1.5, 0.5, 2.0], [5.0, 5.0, 5.0], [6.0, 5.0, 5.0]],
          "cells": [["VOXEL", [[0, 1, 4, 5, 8, 9, 12, 13]]], ["HEXAHEDRON", [[1, 2, 6, 5, 9, 10, 14, 13]]],
                    ["TETRA", [[2, 3, 7, 11], [3, 7, 11, 15]]], ["PYRAMID", [[9, 10, 14, 13, 16]]],
                    ["QUAD", [[8, 9, 13, 12]]], ["LINE", [[17, 18]]]], "pf": [], "cf": []}
    m3b = dict(m3, cells=[m3["cells"][i] for i in (5, 1, 3, 0, 2, 4)])
    return [m2, m2b, m3, m3b]


def _p6_filters(rng, names, i):
    """(include, exclude): match everything / nothing / overlapping explicit sets / globs, by turns"""
    pool = sorted(set(strip(n) for n in names)) + ["zz"]
    half = rng.sample(pool, len(pool) // 2)
    pick = [({"type": "all"}, {"type": "none"}),
            ({"type": "all"}, {"type": "all"}),
            ({"type": "none"}, {"type": "none"}),
            ({"type": "set", "names": sorted(half)}, {"type": "set", "names": sorted(rng.sample(pool, len(pool) // 3))}),
            ({"type": "glob", "patterns": rng.sample(PATTERNS_P6, rng.randint(1, 3))},
             {"type": "glob", "patterns": rng.sample(PATTERNS_P6 + PATTERNS, rng.randint(0, 2))}),
            ({"type": "set", "names": sorted(half)}, {"type": "set", "names": sorted(half)}),
            ({"type": "glob", "patterns": ["*"]}, {"type": "set", "names": sorted(half)})]
    return pick[i % len(pick)]


def _finish_stub(rng, case):
    src_o, ref_o = build(dict(case, mode="stub"))
    src, ref = field_names(src_o), field_names(ref_o)
    case["out"] = gen_out(rng, len(src), len(ref))
    return src, ref


def gen_wide_case(rng, i, manyt):
    """directed: MANY fields (100-170 per side) over an adversarial name pool (empty / blank / unicode incl. composed vs
    decomposed / separators / glob metacharacters / names that are prefixes of each other / case variants / very long),
    carriers by turns; meshes with 4-6 cell types incl. pixel+quad resp. voxel+hexahedron in one mesh, the same name as
    point AND cell field; filters by turns (everything / nothing / overlapping / globs)"""
    numbered = [f"f{k}" for k in range(140)] + [f"f{k} @ b" for k in range(0, 140, 7)]
    pool = list(dict.fromkeys(NAMES_P6 + numbered))
    carrier = ["tabular", "custom", "mesh", "tabular", "mesh"][i % 5]
    if carrier in ("tabular", "custom"):
        n = rng.randint(100, 170)
        src = rng.sample(pool, n)
        keep = [x for x in src if rng.random() < 0.8]
        ref = keep + [x for x in pool if x not in src and rng.random() < 0.3]
        rng.shuffle(ref)
        if carrier == "custom" and rng.random() < 0.5:                    # duplicates inside one collection
            src = src + rng.sample(src, 5)
            ref = ref + rng.sample(ref, 5)
        case = {"kind": carrier, "src": src, "ref": ref, "dom": True, "mode": "stub", "p6": "wide"}
    else:
        lm = manyt[(i // 5) % len(manyt)]
        pf_s = rng.sample(pool, rng.randint(40, 60))
        cf_s = rng.sample(pool, rng.randint(12, 20))
        both = rng.sample(cf_s, 4)                                         # the same name as point AND cell field
        pf_s = list(dict.fromkeys(pf_s + both + [f"{both[0]}{SEP}{lm['cells'][0][0]}"]))
        pf_r = [x for x in pf_s if rng.random() < 0.8] + rng.sample(pool, 5)
        cf_r = [x for x in cf_s if rng.random() < 0.8] + rng.sample(pool, 3)
        pf_r, cf_r = list(dict.fromkeys(pf_r)), list(dict.fromkeys(cf_r))
        rng.shuffle(pf_r)
        rng.shuffle(cf_r)
        lm_r = lm
        kind = "mesh"
        if rng.random() < 0.3:
            kind, lm_r = "meshcmp", meshgen.relabel(rng, lm)
        case = {"kind": kind, "lm_s": lm, "lm_r": lm_r, "pf_s": pf_s, "cf_s": cf_s, "pf_r": pf_r, "cf_r": cf_r,
                "mode": "stub", "p6": "wide"}
    src, ref = _finish_stub(rng, case)
    case["incl"], case["excl"] = _p6_filters(rng, src + ref, i)
    return case


def gen_reuse_case(rng, i, meshes):
    """directed: one comparator object called repeatedly with DIFFERENT selectors / callbacks, interleaved with a second
    comparator object (other filters) over the very same field-data objects; by turns also the SAME object in both roles
    (alias), TransformedMeshFields views (sort / sort_points / sort_cells / strip_orphan_points on either or both sides)
    handed to FieldDataComparator directly, and tables with 0 / 1 rows"""
    variant = ["plain", "alias", "wrap", "plain", "rows"][i % 5]
    carrier = ["tabular", "mesh", "custom"][(i // 5) % 3]
    if variant == "wrap":
        carrier = "mesh"
    if variant == "rows" and carrier == "mesh":
        carrier = "tabular"
    pool = rng.sample(NAMES + NAMES_P6[:60], rng.randint(2, 9))
    if carrier == "mesh":
        lm = rng.choice(meshes)
        case = {"kind": "mesh", "lm_s": lm, "lm_r": lm, "mode": "stub", "p6": "reuse-" + variant,
                "pf_s": rng.sample(pool, rng.randint(0, min(4, len(pool)))), "cf_s": rng.sample(pool, rng.randint(0, min(3, len(pool)))),
                "pf_r": rng.sample(pool, rng.randint(0, min(4, len(pool)))), "cf_r": rng.sample(pool, rng.randint(0, min(3, len(pool))))}
        if variant == "wrap":
            w = ["sort", "sort_points", "sort_cells", "strip_orphan_points", "plain"]
            ws = rng.choice(w[:4])
            case["wrap"] = [ws, ws if rng.random() < 0.7 else rng.choice(w)]
            if rng.random() < 0.5:
                case["lm_r"] = meshgen.relabel(rng, lm)
    else:
        dup = carrier == "custom" and rng.random() < 0.4
        src, ref = gen_names(rng, dup)
        if not dup:
            ref = list(dict.fromkeys(ref + [n for n in src if rng.random() < 0.6]))
        case = {"kind": carrier, "src": src, "ref": ref, "dom": rng.random() < 0.93, "mode": "stub", "p6": "reuse-" + variant}
        if variant == "rows":
            case["rows"] = rng.choice([0, 1, 1, 3])
            if case["rows"] == 0:
                case["mode"] = "real"
    if variant == "alias":
        case["alias"] = True
        if carrier == "mesh":
            case["pf_r"], case["cf_r"] = case["pf_s"], case["cf_s"]
        else:
            case["ref"], case["dom"] = list(case["src"]), True
    if case["mode"] == "real":
        ns, nr = len(case["src"]), len(case["ref"])
        case["pal_s"], case["pal_r"] = [rng.randint(1, 3) for _ in range(ns)], [rng.randint(1, 3) for _ in range(nr)]
        names = case["src"] + case["ref"]
    else:
        src, ref = _finish_stub(rng, case)
        names = src + ref
        out2 = gen_out(rng, len(src), len(ref))
        if out2 == case["out"] and src and ref:                              # the other selector must decide differently
            out2 = [[(o + 1) % 3 for o in row] for row in out2]
        stripped = [strip(n) for n in names]
        case["reuse"] = {"out2": out2, "incl2": gen_filter(rng, stripped), "excl2": gen_filter(rng, stripped, allow_all=False)}
    stripped = [strip(n) for n in names]
    case["incl"] = gen_filter(rng, stripped)
    case["excl"] = gen_filter(rng, stripped, allow_all=False) if rng.random() < 0.7 else {"type": "none"}
    if case["mode"] != "real" and rng.random() < 0.5 and case["incl"]["type"] == "all" and case["excl"]["type"] == "none":
        case["excl"] = {"type": "set", "names": sorted(set(rng.sample(stripped, max(1, len(stripped) // 3))))} if stripped else case["excl"]
    return case


def check_steps(case, obs):
    """p6g: the repeated / interleaved calls recorded in obs['steps'] against the property: each call reports every field once
    with the statuses the selector of THAT call produces under the filters of THAT comparator object.  The code-level
    reading of the filters is used (inside class F14 the first call already reports the known deviation; outside the class
    both readings coincide - theorem C11_filter_names_partial)"""
    bad = []
    for st in obs.get("steps") or []:
        if "raised" in st:
            bad.append((st["what"], "raised: " + st["raised"], "a FieldComparisonSuite"))
            continue
        cf = case if st["filters"] == "1" else dict(case, incl=case["reuse"]["incl2"], excl=case["reuse"]["excl2"])
        of = dict(obs, out=obs["out"] if st["out"] == "out" else case["reuse"]["out2"])
        orc = oracle(cf, of)
        if obs["dom"]:
            want = {"dom": True, "verdict": orc["verdict"], "entries": [list(e) for e in orc["entries"]], "callbacks": orc["compared"]}
        else:
            want = {"dom": False, "verdict": False, "entries": [], "callbacks": []}
        got = {k: st[k] for k in ("dom", "verdict", "entries", "callbacks")}
        if got != want:
            bad.append((st["what"], got, want))
        elif len(st["selector"]) != len(st["callbacks"]):
            bad.append((st["what"], {"selector calls": len(st["selector"])}, {"performed comparisons": len(st["callbacks"])}))
    return bad


# ------------------------------------------------------------------ evaluation

def check_case(case, obs, rep):
    """-> list of (kind, impl, expected, what); kind in mismatch / inconsistent / violation"""
    problems = []
    code_orc = oracle(case, obs)
    orc = oracle(case, obs, user_level=True)
    f14 = in_class_F14(obs)
    # a deviation from the user-level property that is exactly the code-level reading inside the class is F14
    known = "F14" if (f14 and code_orc != orc) else None
    if rep is not None:
        if "model" not in rep:
            problems.append(("inconsistent", str(rep), "bad-op", "driver rejected the case"))
        else:
            _, uni = enc(case, obs)
            m = dec_model(rep, uni)
            impl_view = {"verdict": obs["verdict"], "entries": [list(e) for e in obs["entries"]],
                         "callbacks": obs["callbacks"]}
            model_view = {"verdict": m["verdict"], "entries": [list(e) for e in m["entries"]],
                          "callbacks": m["callbacks"]}
            if case["mode"] == "stub":
                impl_view["selector"] = obs["selector"]
                model_view["selector"] = m["selector"]
            if impl_view != model_view:
                problems.append(("mismatch", impl_view, model_view, "FieldDataComparator vs Fc.comparatorCall"))
            if rep.get("hyp") == "1":
                sp = dec_spec(rep, uni)
                if sp["verdict"] != m["verdict"] or (obs["dom"] and sp["entries"] != m["entries"]):
                    problems.append(("inconsistent", model_view, {"verdict": sp["verdict"], "entries": sp["entries"]},
                                     "Lean model vs Lean spec inside hyp"))
                if sp["verdict"] != code_orc["verdict"] or (obs["dom"] and sp["entries"] != code_orc["entries"]):
                    problems.append(("inconsistent", {"lean-spec": sp}, {"python-oracle": code_orc}, "Lean spec vs Python oracle"))
                usp = dec_spec(rep, uni, "uspec")
                if usp["verdict"] != orc["verdict"] or (obs["dom"] and usp["entries"] != orc["entries"]):
                    problems.append(("inconsistent", {"lean-user-spec": usp}, {"python-oracle": orc},
                                     "Lean user-level spec vs Python user-level oracle"))
                if rep.get("cls") == "0" and (usp["verdict"] != sp["verdict"] or usp["entries"] != sp["entries"]):
                    problems.append(("inconsistent", {"spec": sp}, {"uspec": usp},
                                     "C11_filter_names_partial: specs differ outside class F14"))
            if rep.get("cls") != ("1" if f14 else "0"):
                problems.append(("inconsistent", {"lean-cls": rep.get("cls")}, {"python-cls": f14}, "class predicate F14 Lean vs Python"))
    # search: implementation vs the property
    if known and obs["verdict"] == code_orc["verdict"] and (not obs["dom"] or obs["entries"] == code_orc["entries"]):
        problems.append(("violation", {"verdict": obs["verdict"], "entries": [list(e) for e in obs["entries"]]},
                         {"verdict": orc["verdict"], "entries": [list(e) for e in (orc["entries"] or [])]},
                         "F14: a plain field name containing ' @ ' is filtered by its prefix", "F14"))
        orc = code_orc      # everything else is judged against the code-level reading
    if obs["verdict"] != orc["verdict"]:
        problems.append(("violation", obs["verdict"], orc["verdict"], "verdict differs from the property"))
    if obs["status_passed"] != obs["verdict"]:
        problems.append(("violation", obs["status_passed"], obs["verdict"], "suite.status disagrees with bool(suite)"))
    if obs["dom"]:
        if obs["entries"] != orc["entries"]:
            problems.append(("violation", [list(e) for e in obs["entries"]], [list(e) for e in orc["entries"]],
                             "reported (name, status) multiset differs from the property (omission / double report / wrong status)"))
        if obs["callbacks"] != orc["compared"]:
            problems.append(("violation", obs["callbacks"], orc["compared"],
                             "callback invocations differ from the performed comparisons"))
    else:
        if obs["entries"] or obs["callbacks"] or obs["selector"]:
            problems.append(("violation", {"entries": obs["entries"], "callbacks": obs["callbacks"]}, "nothing compared",
                             "comparisons performed although the domains differ"))
    if not obs["alternating"]:
        problems.append(("violation", "events not alternating", "sel,cb,sel,cb…", "callback not fired right after each comparison"))
    if not obs["buckets_ok"]:
        problems.append(("violation", "bucket contents", "passed/failed/skipped partition", "suite buckets inconsistent with statuses"))
    return problems


def tags_of(case, obs):
    t = ["kind-" + case["kind"], "mode-" + case["mode"], "dom-" + str(int(obs["dom"])),
         "incl-" + case["incl"]["type"], "excl-" + case["excl"]["type"],
         f"celltypes={len(case['lm_s']['cells'])}" if "lm_s" in case else "celltypes=0",
         f"ns={min(len(obs['src']), 9)}", f"nr={min(len(obs['ref']), 9)}", "verdict-" + str(int(obs["verdict"]))]
    if len(set(obs["src"])) < len(obs["src"]) or len(set(obs["ref"])) < len(obs["ref"]):
        t.append("duplicates")
    sts = {s for _, s in obs["entries"]}
    t += ["has-" + s for s in sorted(sts)]
    if any(SEP in n for n in obs["src"] + obs["ref"]):
        t.append("annotated-names")
    if "xdim" in case:
        x = case["xdim"]
        t += [f"spacedim-{x['dims'][0]}v{x['dims'][1]}", "xdim-relabeled" if x["relabeled"] else "xdim-same-order",
              "xdim-orphans-" + x["orphan"], "xdim-flags-" + "".join(str(int(b)) for b in case["flags"])]
    if case.get("p6"):
        t.append("p6-" + case["p6"])
        if case["p6"] == "wide":
            t += ["p6-wide-" + case["kind"], "p6-nfields>=100" if max(len(obs["src"]), len(obs["ref"])) >= 100 else "p6-nfields<100"]
            if "lm_s" in case:
                ts = {x for x, _ in case["lm_s"]["cells"]}
                t.append(f"p6-celltypes={len(ts)}")
                if {"PIXEL", "QUAD"} <= ts or {"VOXEL", "HEXAHEDRON"} <= ts:
                    t.append("p6-compatible-pair-in-one-mesh")
    if case.get("alias"):
        t.append("p6-same-object-both-roles")
    if case.get("wrap"):
        t.append("p6-view-" + "+".join(case["wrap"]))
    if "rows" in case:
        t.append(f"p6-rows={case['rows']}")
    if obs.get("steps"):
        t.append("p6-interleaved-calls")
    if any(ord(ch) > 127 for n in obs["src"] + obs["ref"] for ch in n):
        t.append("unicode-names")
    return t


def evaluate(ctx, cases):
    obs_l, lines = [], []
    ok_cases = []
    for c in cases:
        o = run_impl(c)
        if "raised" in o:
            ctx.case(("raised", repr(c)), nontrivial=True, tags=["impl-raised"])
            ctx.violation(c, "raised-out: " + o["raised"], "a FieldComparisonSuite", cls=None,
                          what="FieldDataComparator.__call__ raised instead of reporting")
            continue
        ok_cases.append(c)
        obs_l.append(o)
        lines.append(enc(c, o)[0])
    cases = ok_cases
    replies = ctx.lean(lines) if ctx.driver_ok else [None] * len(cases)
    for c, o, rep, line in zip(cases, obs_l, replies, lines):
        nontrivial = o["dom"] and len(o["entries"]) > 0 and (set(o["src"]) & set(o["ref"])) != set()
        ctx.case((line, c["kind"], c["mode"]), nontrivial=nontrivial, tags=tags_of(c, o),
                 sample={"case": _small(c), "impl": {k: o[k] for k in ("verdict", "entries", "callbacks")},
                         "lean": rep})
        if rep is not None and rep.get("hyp") == "1":
            ctx.dist["inside-hyp"] += 1
        for k2, a2 in enumerate(o.get("again") or []):
            first = {"entries": [list(e) for e in o["entries"]], "verdict": o["verdict"], "dom": o["dom"]}
            a2n = dict(a2, entries=[list(e) for e in a2["entries"]]) if "entries" in a2 else a2
            if a2n != first:
                ctx.violation(dict(c, repeated_call=k2 + 2), a2n, first, cls=None,
                              what=f"call no. {k2 + 2} of the same FieldDataComparator object does not report every field "
                                   "exactly once with the status of the first call")
                break
        for what2, got2, want2 in check_steps(c, o)[:1]:
            ctx.violation(dict(c, failing_step=what2), got2, want2, cls=None,
                          what=f"repeated / interleaved comparator calls: {what2}: the report is not the one the property demands "
                               "for the filters of that comparator and the selector of that call")
        for prob in check_case(c, o, rep):
            kind, a, b, what = prob[:4]
            cls = prob[4] if len(prob) > 4 else None
            if kind == "mismatch":
                ctx.mismatch(c, a, b, what)
            elif kind == "inconsistent":
                ctx.inconsistent(c, a, b)
            elif cls is not None:
                ctx.dist["class-" + cls] += 1
                if ctx.dist["class-" + cls] <= 100:      # keep the bookkeeping small; every hit is counted in dist
                    ctx.violation(_small(c), a, b, cls=cls, what=what)
            else:
                ctx.violation(c, a, b, cls=None, what=what)


def _small(c):
    c = dict(c)
    for k in ("lm_s", "lm_r"):
        if k in c:
            c[k] = {"npoints": len(c[k]["points"]), "cells": [[t, len(r)] for t, r in c[k]["cells"]]}
    return c


def fails(case) -> bool:
    """does the implementation deviate from the property on this case (used for shrinking / replay)"""
    try:
        o = run_impl(case)
    except Exception:
        return False
    if "raised" in o:
        return True
    if check_steps(case, o):
        return True
    return any(p[0] == "violation" and len(p) == 4 for p in check_case(case, o, None))


def shrink(case):
    """drop source / reference fields of custom and tabular stub cases while the deviation persists"""
    if case["kind"] not in ("custom", "tabular") or case["mode"] != "stub":
        return case
    cur = copy.deepcopy(case)
    changed = True
    while changed:
        changed = False
        for i in range(len(cur["src"])):
            c2 = copy.deepcopy(cur)
            del c2["src"][i]
            del c2["out"][i]
            if fails(c2):
                cur, changed = c2, True
                break
        if changed:
            continue
        for j in range(len(cur["ref"])):
            c2 = copy.deepcopy(cur)
            del c2["ref"][j]
            for row in c2["out"]:
                del row[j]
            if fails(c2):
                cur, changed = c2, True
                break
    return cur


def exhaustive_small(ctx, alphabet):
    """all (source subset, reference subset, reference order, selection subset, outcome pattern) over a small
    alphabet, on the custom FieldData (cheapest carrier)"""
    k = len(alphabet)
    cases = []
    subsets = [[alphabet[i] for i in range(k) if m >> i & 1] for m in range(1 << k)]
    for src in subsets:
        for ref0 in subsets:
            for rev in (False, True):
                ref = list(reversed(ref0)) if rev else ref0
                if rev and len(ref0) < 2:
                    continue
                for selset in subsets:
                    common = [n for n in src if n in ref]
                    pats = [None] + [(n, o) for n in common for o in (1, 2)]
                    for pat in pats:
                        out = [[0] * len(ref) for _ in src]
                        if pat is not None:
                            out[src.index(pat[0])][ref.index(pat[0])] = pat[1]
                        cases.append({"kind": "custom", "src": src, "ref": ref, "dom": True, "mode": "stub",
                                      "incl": {"type": "set", "names": selset}, "excl": {"type": "none"}, "out": out})
    return cases


def finite_tables(ctx):
    """FieldComparisonStatus truthiness and the suite bucket of a single comparison: exhaustive"""
    from fieldcompare._field_data_comparison import FieldComparisonStatus, FieldComparison, FieldComparisonSuite
    from fieldcompare.predicates import PredicateResult
    members = list(FieldComparisonStatus)
    if not ctx.driver_ok:
        return
    reps = ctx.lean([f"fcs {m.name}" for m in members])
    for m, rep in zip(members, reps):
        comp = FieldComparison(name="x", status=m, predicate="", report="")
        suite = FieldComparisonSuite(PredicateResult(True), [comp])
        bucket = "passed" if suite.passed else "failed" if suite.failed else "skipped"
        impl = f"{int(bool(m))},{bucket}"
        ctx.case(("fcs", m.name), nontrivial=True, tags=["finite-table"])
        if "model" not in rep:
            ctx.mismatch({"status": m.name}, impl, str(rep), "status member unknown to the model")
            continue
        if rep["model"] != impl:
            ctx.mismatch({"status": m.name}, impl, rep["model"], "FieldComparisonStatus truthiness / bucket")
        if bool(comp) != bool(m) or (bool(suite) != bool(m)):
            ctx.violation({"status": m.name}, [bool(comp), bool(suite)], bool(m), what="single-entry suite verdict differs from status truthiness")


def run(ctx):
    ctx.rule = ("case = (carrier: custom FieldData with duplicate names / TabularFields / MeshFields with point+cell fields on "
                "1-3 cell types / MeshFieldsComparator on a relabeled reference, on source / reference of different space "
                "dimension, with orphan points and comparator flags; source and reference name lists incl. "
                "adversarial names; include + exclude filter as explicit set or PatternFilter globs; domain verdict; outcome "
                "pass/fail/raise per (source field, reference field) pair via stub selector, or real values with "
                "DefaultEquality); non-trivial = domains equal, at least one report entry and at least one common name; "
                "distinct = distinct (model input line, carrier, mode)")
    ctx.assumptions += [
        "predicate selector and callback do not raise (an exception there propagates out of __call__; not modelled)",
        "list.remove(t) in find_matches removes the matched occurrence (no earlier element is == t; holds for name matching)",
        "fnmatch / user filters are pure functions of the stripped name (enter the model as truth tables computed with the real fnmatch)",
        "domain.equals is an external fact (parameter domainEq); its bool() is evaluated once",
    ]
    rng = ctx.rng
    meshes = []
    while len(meshes) < 8:
        lm, _ = meshgen.gen_mesh(rng, max_cells_per_dir=2, dims=(2, 3), allow_orphans=False, allow_duplicates=False,
                                 fields=False)
        if "POLYGON" in [t for t, _ in lm["cells"]]:
            continue
        sig = (len(lm["points"]), tuple((t, len(r)) for t, r in lm["cells"]))
        if sig in [(len(m["points"]), tuple((t, len(r)) for t, r in m["cells"])) for m in meshes]:
            continue
        meshes.append(lm)
    # hand-made meshes with three cell types (quad + triangle + line), two sizes
    meshes.append({"dim": 2, "points": [[0.0, 0.0], [1.0, 0.0], [1.0, 1.0], [0.0, 1.0], [2.0, 0.5], [3.0, 0.5]],
                   "cells": [["QUAD", [[0, 1, 2, 3]]], ["TRIANGLE", [[1, 4, 2]]], ["LINE", [[4, 5]]]], "pf": [], "cf": []})
    meshes.append({"dim": 3, "points": [[0.0, 0.0, 0.0], [1.0, 0.0, 0.0], [1.0, 1.0, 0.0], [0.0, 1.0, 0.0], [2.0, 0.5, 0.0],
                                        [3.0, 0.5, 1.0], [2.0, 1.5, 0.0]],
                   "cells": [["LINE", [[4, 5], [5, 6]]], ["QUAD", [[0, 1, 2, 3]]], ["TRIANGLE", [[1, 4, 2], [4, 6, 2]]]],
                   "pf": [], "cf": []})
    finite_tables(ctx)
    n = ctx.scale(14000, 300000)
    CH = 2500
    done = 0
    while done < n:
        cases = [gen_case(rng, meshes) for _ in range(min(CH, n - done))]
        evaluate(ctx, cases)
        done += len(cases)
    # directed: differing space dimensions x relabeling x orphan points x comparator flags x name classes
    lows = low_dim_meshes()
    nx = ctx.scale(96 * len(lows) * 2, 96 * len(lows) * 20)
    for i0 in range(0, nx, CH):
        evaluate(ctx, [gen_spacedim_case(rng, i, lows) for i in range(i0, min(i0 + CH, nx))])
    ctx.extra["spacedim_directed_cases"] = nx
    ctx.notes.append("directed part: MeshFieldsComparator on source / reference of different space dimension (either role), "
                     "x relabeled / same order x orphan points on either side x the three comparator flags x field names "
                     "with upper-case / punctuation endings and prefixes / suffixes of the mesh's cell-type names; "
                     "expected report = the model / oracle on the names exposed by the input objects")
    # phase 6 (G2) directed batches
    manyt = many_type_meshes()
    n_wide = ctx.scale(20, 300)
    for i0 in range(0, n_wide, 20):
        evaluate(ctx, [gen_wide_case(rng, i, manyt) for i in range(i0, min(i0 + 20, n_wide))])
    n_reuse = ctx.scale(900, 15000)
    for i0 in range(0, n_reuse, CH):
        evaluate(ctx, [gen_reuse_case(rng, i, meshes + manyt) for i in range(i0, min(i0 + CH, n_reuse))])
    ctx.extra["p6_wide_cases"], ctx.extra["p6_reuse_cases"] = n_wide, n_reuse
    ctx.notes.append("phase-6 directed parts: (wide) 100-170 fields per side over an adversarial name pool on tables / custom "
                     "field data / meshes with 4-6 cell types incl. pixel+quad resp. voxel+hexahedron in one mesh; (reuse) one "
                     "comparator object called again with other selectors / callbacks, interleaved with a second comparator object "
                     "(other filters) over the same field data, the same object in both roles, TransformedMeshFields views as "
                     "inputs, tables with 0 / 1 rows; repeated calls are judged against the Python oracle of the property (search), "
                     "the first call additionally against the Lean model (correspondence)")
    ex = exhaustive_small(ctx, ["p", "q @ LINE", "a*"] if ctx.tier == "quick" else ["p", "q @ LINE", "a*", ""])
    for i in range(0, len(ex), CH):
        evaluate(ctx, ex[i:i + CH])
    ctx.extra["exhaustive_small_alphabet_cases"] = len(ex)
    ctx.notes.append("exhaustive part: all source/reference subsets of a 3-name (thorough: 4-name) alphabet x reference "
                     "order x all selection subsets x one deviating common field (fail/raise) at every position")
    ctx.notes.append("with duplicate names inside one collection the implementation reports one entry per field object "
                     "(count = max of the two multiplicities); 'each name once' is claimed for pairwise distinct names")
    unlisted = [v for v in ctx.spec_viol if v.get("class") is None][:20]
    listed = [v for v in ctx.spec_viol if v.get("class") is not None]
    ctx.spec_viol = [dict(v, case=shrink(v["case"]) if isinstance(v["case"], dict) and "kind" in v["case"] else v["case"])
                     for v in unlisted] + listed
    if ctx.dist.get("class-F14"):
        ctx.notes.append(f"finding F14 (plain field name containing ' @ ' is filtered by its prefix): "
                         f"{ctx.dist['class-F14']} generated cases fall into the class and show the deviation")


def replay_witness(ctx, entry):
    c = entry["witness"]
    if "fn" in c:
        from fcv import core
        return core.run_named_witness(entry)
    o = run_impl(c)
    if "raised" in o:
        return True, {"impl": o["raised"]}
    probs = [p for p in check_case(c, o, None) if p[0] == "violation"
             and (len(p) == 4 or p[4] == entry.get("class"))]
    return bool(probs), {"impl": {k: o[k] for k in ("verdict", "entries", "callbacks")}, "problems": [p[3] for p in probs]}


def replay(ctx, payload):
    c = payload["case"]
    if "kind" not in c:
        print("replay: finite-table case", c)
        return 1
    o = run_impl(c)
    if "raised" in o:
        print(f"replay: FieldDataComparator raised {o['raised']}")
        print(f"VIOLATION property=C11 replay={payload.get('_path', '<replay>')}")
        return 1
    orc = oracle(c, o)
    probs = check_case(c, o, None)
    rep = None
    if ctx.driver_ok:
        rep = ctx.lean([enc(c, o)[0]])[0]
        probs = check_case(c, o, rep)
    print(f"replay: impl verdict={o['verdict']} entries={o['entries']} callbacks={o['callbacks']}")
    print(f"replay: property verdict={orc['verdict']} entries={orc['entries']} compared={orc['compared']}")
    if rep is not None:
        print(f"replay: lean {rep}")
    from fcv import core
    known = {e["class"] for e in core.load_findings("C11") if e["status"] == "known"}
    bad = []
    for k2, a2 in enumerate(o.get("again") or []):
        first = {"entries": [list(e) for e in o["entries"]], "verdict": o["verdict"], "dom": o["dom"]}
        a2n = dict(a2, entries=[list(e) for e in a2["entries"]]) if "entries" in a2 else a2
        if a2n != first:
            print(f"replay: call no. {k2 + 2} of the same comparator object reports {a2n}, the first call {first}")
            bad.append(("violation", a2n, first, "repeated call differs"))
            break
    for what2, got2, want2 in check_steps(c, o):
        print(f"replay: {what2}: reported {str(got2)[:600]}, the property demands {str(want2)[:600]}")
        bad.append(("violation", got2, want2, what2))
    for p in probs:
        if len(p) > 4 and p[4] in known:
            print(f"replay: KNOWN-FINDING class {p[4]}: {p[3]}")
        else:
            print(f"replay: {p[0]}: {p[3]}")
            bad.append(p)
    if bad:
        print(f"VIOLATION property=C11 replay={payload.get('_path', '<replay>')}")
        return 1
    return 0
